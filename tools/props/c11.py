"""C11 — multithreaded compression.  The real zstdmt_compress.c + pool.c run with the ZSTD_pthread_* primitives interposed; the harness prints the
protocol events (post / unpost / inline / serial / prod / fail / cksum / flush / retire) in the order the critical sections really happened, under
perturbed and adversarial schedules; the Lean LTS (Model/MTProto.lean) replays every run: each observed event must be a transition of the model
(trace inclusion).  Monitors: every frame decodes to the input, every call returns (hang detector), ThreadSanitizer reports nothing.
Allocation faults (op `mtf`): the same harness with a ZSTD_customMem allocator that refuses one request (any thread / a worker / the caller / the worker of
job j, request number swept) while another job is held back before its serial turn: the call returns an error or a frame that decodes, never blocks, the
context is reusable, nothing stays allocated; the serial hand-over of every failed job is compared with the `fail` transition of the LTS.
Lagging serial step at the wrap of the round buffer (op `mth`): long-distance matching, window >= workers x job size, the worker of one job parked (nothing refused)
before / inside its serial turn until the caller waits for the window of the long-distance matcher at the wrap; the job that takes the next turn repeats bytes that sit
next to the ranges the wrap rewrites (relocated overlap, first section loaded after it); the frame must decode (one-pass + declared-window streaming decoder), the
trace is replayed by the LTS, a sample runs under ThreadSanitizer (the parked worker polls relaxed atomics only: no ordering is added)."""
import os, re
import build, zv, frames

ASSUMPTIONS = ["the OS scheduler is sampled (perturbed: random yields / sleeps at every primitive; adversarial presets: slow worker, slow caller, slow serial section), not enumerated: 'every schedule' is carried by the theorems over the LTS",
               "job contents are an oracle (validated by decoding every frame); data races on memory the LTS does not track are visible to ThreadSanitizer on the sampled schedules only",
               "allocation faults: one refused request (or all from one on) per run, request number swept per thread class / per job; which job a numbered request belongs to depends on the schedule except in the per-job class; only ZSTD_customMem requests are refused"]


def hx(variant="plain"):
    extra = ["-DZV_NOTRACE"] if variant == "tsan" else []
    return build.link("zvh_mt", ["zvh_mt.c"], variant, exclude=("pool.c", "zstdmt_compress.c"), extra=extra)


def gen_op(rng, quick):
    workers = rng.choice([1, 1, 2, 2, 3, 4, 6])
    p = {100: rng.choice([1, 1, 2, 3, 5])}
    if rng.random() < 0.7: p[401] = rng.choice([524288, 524288, 1048576, 2097152, 600000])
    if rng.random() < 0.4: p[402] = rng.randint(0, 9)
    if rng.random() < 0.4: p[201] = 1
    if rng.random() < 0.25:
        p[160] = 1; p[101] = rng.choice([18, 20, 21])
    if rng.random() < 0.15: p[500] = 1
    size = rng.choice([0, 1, 300000, 600000, 600001, 1500000, 1500000, 3000000, 3000000, 5000000] + ([] if quick else [12000000]))
    ins = ",".join(str(rng.choice([1, 1000, 65536, 131072, 300000, 1000000, 6000000])) for _ in range(rng.randint(1, 3)))
    outs = ",".join(str(rng.choice([1, 100, 5000, 50000, 400000, 8000000])) for _ in range(rng.randint(1, 3)))
    perturb = rng.choice([0, 1, 1, 2, 3, 4, 5, 6])
    # keep the number of calls in the thousands (a slow-caller schedule sleeps at every caller lock)
    lo = 65536 if perturb == 3 else (700 if size >= 300000 else 1)
    ins = ",".join(str(max(int(x), lo)) for x in ins.split(","))
    if all(int(x) < 5000 for x in outs.split(",")) and size > 100000:
        outs += ",60000"            # keep the number of calls (and of flush events) in the thousands
    if perturb == 3:
        outs = ",".join(str(max(int(x), 20000)) for x in outs.split(","))
    abort_after = rng.choice([-1, -1, -1, 1, 3, 8])
    mid = rng.choice([0, 0, 0, 7, 1])
    nframes = rng.choice([1, 1, 2, 3])
    line = "mt %d %s %d %d %s %s %d %d %d %d %d" % (workers, frames.pstr(p), size, rng.randrange(1 << 30), ins, outs, perturb, rng.randrange(1 << 30), abort_after, mid, nframes)
    if nframes > 1 and rng.random() < 0.5:
        # other parameters on the odd frames of the same context: long-distance matching tables of different shapes, job size, level
        q = dict(p)
        q[160] = 1; q[101] = rng.choice([18, 20]); q[161] = rng.choice([10, 16, 20]); q[163] = rng.choice([1, 4, 8]); q[401] = rng.choice([524288, 1048576])
        if 160 in p:
            p2 = dict(p); p2[161] = q[161]; p2[163] = rng.choice([1, 8])
            line = line.replace(frames.pstr(p), frames.pstr(p2), 1)
        line += " " + frames.pstr(q)
    return line


def mtf_op(workers, p, size, seed, ins, outs, perturb, pseed, who, nth, sticky=0, fframe=0, djob=-1, dus=0, flush=0):
    return "mtf %d %s %d %d %s %s %d %d %s %d %d %d %d %d %d" % (workers, frames.pstr(p), size, seed, ins, outs, perturb, pseed, who, nth, sticky, fframe, djob, dus, flush)


def gen_fault_ops(rng, quick):
    """allocation faults under worker threads.  (1) directed at the hand-over of the serial section: the worker of job j loses its k-th request (context from
    the pool, sequence buffer with long-distance matching, destination buffer, workspace) while an OLDER job has not had its serial turn yet (job 0 or job j-1 is
    held where it asks for its turn until the failed job has left; schedule presets 5 / 4 / 1 on top) and younger jobs are posted; (2) sweep of the request number
    over all requests of the frame, of the workers, of the caller, one refusal or memory exhausted from then on, 1..4 workers, several job sizes, inputs several
    jobs long, perturbed schedules; (3) long-distance matching with an input longer than the round buffer: a job fails, the caller goes on loading input and
    wraps the buffer while younger jobs still take their serial turn (the window of the long-distance matcher must keep the caller off, and must not keep it
    off for ever)."""
    d_ops, s_ops, l_ops = [], [], []
    base = [({100: 1, 401: 524288}, 2400000), ({100: 1, 401: 524288, 201: 1}, 2900000), ({100: 1, 401: 524288, 160: 1, 101: 20}, 2700000), ({100: 3, 401: 1048576, 201: 1}, 4400000)]
    for w in (2, 3, 4):
        for j in (0, 1, 2, 3):
            for k in (0, 1, 2, 3):
                p, size = base[(w + j + k) % 3] if k < 3 else base[2]
                if not quick or (w + j + k) % 4 == 0:
                    p, size = rng.choice(base)
                size += rng.randrange(100000)
                scheds = [(0, j - 1)] if j else [(0, -1)]
                if j: scheds.append((rng.choice([5, 1, 4]), 0))
                if not quick: scheds += [(1, j - 1), (4, -1), (5, -1), (2, 0)]
                for perturb, djob in scheds:
                    ins = rng.choice(["300000", "1000000", str(size), "70000,600000"]); outs = rng.choice(["8000000", "8000000", "60000"])
                    d_ops.append(mtf_op(w, p, size, rng.randrange(1 << 30), ins, outs, perturb, rng.randrange(1 << 30), "J%d" % j, k, rng.choice([0, 0, 1]), 0, djob, 150000 if djob >= 0 else 0, 0))
    cfgs = [(1, base[0]), (2, base[2]), (3, base[1]), (4, base[2]), (3, base[3]), (4, base[0])]
    for w, (p, size) in (cfgs[:4] if quick else cfgs):
        njobs = size // p[401] + 1
        sweep = [("A", k) for k in range(0, 18 + 3 * njobs)] + [("W", k) for k in range(0, 3 * njobs + 2)] + [("C", k) for k in range(0, 18)]
        if quick:
            sweep = [x for x in sweep if x[0] == "W"] + rng.sample([x for x in sweep if x[0] == "A"], 16) + rng.sample([x for x in sweep if x[0] == "C"], 5)
        for who, k in sweep:
            perturb = rng.choice([0, 1, 1, 2, 4, 5, 5]); dj = rng.choice([-1, -1, 0, 1, 2])
            s_ops.append(mtf_op(w, p, size + rng.randrange(200000), rng.randrange(1 << 30), rng.choice(["300000", "1000000", "6000000", "100000,700000"]), rng.choice(["8000000", "8000000", "50000"]),
                                perturb, rng.randrange(1 << 30), who, k, rng.choice([0, 1]), rng.choice([0, 0, 0, 1]), dj, rng.choice([20000, 100000]) if dj >= 0 else 0, rng.choice([0, 0, 0, 3])))
    ldm = {100: 1, 101: 20, 160: 1, 401: 524288}
    for w, lo in ((2, 2800000), (3, 3400000), (4, 3900000)):
        for nth in range(2, 12):
            for sticky in (0, 1):
                if quick and (nth + sticky + w) % 2: continue
                l_ops.append(mtf_op(w, ldm if rng.random() < 0.7 else {**ldm, 201: 1}, lo + rng.randrange(400000), rng.randrange(1 << 30), rng.choice(["300000", "300000", "100000,700000"]), rng.choice(["50000", "50000", "8000000"]),
                                    rng.choice([1, 1, 0, 4]), rng.randrange(1 << 30), "W", nth, sticky, 0, rng.choice([-1, -1, 0, 1]), 50000, 0))
    # directed: job w-1.. held before its serial turn, the next job fails, the one after takes a real turn (long-distance matcher runs, window published again),
    # the older job then finds the counter beyond its id; the caller meanwhile reaches the end of the round buffer
    for w, lo in ((2, 2850000), (3, 3500000), (4, 4200000)):
        for k in (0, 1, 2):
            for rep in range(1 if quick else 3):
                l_ops.append(mtf_op(w, ldm if (k + rep) % 2 == 0 else {**ldm, 201: 1}, lo + rng.randrange(300000), rng.randrange(1 << 30), rng.choice(["300000", "1000000", str(lo + 300000)]), rng.choice(["50000", "8000000"]),
                                    rng.choice([0, 0, 1, 4]), rng.randrange(1 << 30), "J%d" % w, k, 0, 0, w - 1, 200000, 0))
    return d_ops, s_ops, l_ops


def mth_op(workers, p, seed, hrel, where, hold_us, ins, outs, perturb, pseed, T, R, ypm, extra):
    return "mth %d %s %d %d %d %d %s %s %d %d %d %d %d %d" % (workers, frames.pstr(p), seed, hrel, where, hold_us, ins, outs, perturb, pseed, T, R, ypm, extra)


def gen_hold_ops(rng, quick):
    """the serial step lags behind the caller when the round input buffer wraps.  With long-distance matching and window >= workers x job size the buffer is
    window + 3 sections (K sections); the caller can be `workers` jobs + one section ahead of the serial state, so with job h = K - workers + hrel parked before its
    serial turn (where 0) or inside it, before the window is published (where 1; the next job is the one that reads), the caller reaches the wrap while the window
    of the long-distance matcher still starts at the beginning of the buffer as long as (h + where + 1) x job size <= window: 4..6 workers, job sizes 512 KiB /
    600000 / 1 MiB, windows 2^21..2^23, overlap 8 KiB..one section, levels 1..5, checksum, input chunks below / at / above the job size, small / large output room.
    3 and 2 workers: the caller still has to wait at the wrap (schedule kept), but the window has moved past the start of the buffer when the parked job reads."""
    S = 524288
    cfgs = [(4, {101: 21, 401: S}, (0,), 0), (4, {101: 21, 401: S, 201: 1}, (0,), 0), (4, {101: 22, 401: 600000, 201: 1}, (0,), 0), (4, {101: 22, 401: 1 << 20}, (0,), 0),
            (4, {101: 21, 401: S, 402: rng.choice([3, 7, 9])}, (0,), 0), (4, {101: 21, 401: S, 100: rng.choice([3, 5])}, (0,), 0),
            (5, {101: 22, 401: S, 201: 1}, (0, 1), 0), (5, {101: 22, 401: S}, (0,), 1), (6, {101: 22, 401: S}, (0, 1, 2), 0), (6, {101: 22, 401: S, 201: 1}, (0, 1), 1),
            (3, {101: 21, 401: S, 201: 1}, (0,), 0), (2, {101: 20, 401: S}, (0,), 0)]
    if not quick:
        cfgs += [(4, {101: 23, 401: S, 201: 1}, (0,), 0), (5, {101: 23, 401: 1 << 20}, (0, 1), 0), (6, {101: 23, 401: 1 << 20, 201: 1}, (0, 1, 2), 0), (6, {101: 23, 401: 1 << 20}, (0, 1), 1)]
    ops = []
    for rep in range(1 if quick else 6):
        for w, p, hrels, where in cfgs:
            for hrel in (hrels if not quick else [rng.choice(hrels)] if w != 6 else hrels[:2]):
                q = {100: 1, 160: 1, **p}
                js = q[401]
                ins = rng.choice([str(js), str(js), "300000", "1000000", "100000,700000", "6000000"]); outs = rng.choice(["8000000", "8000000", "60000", "8000000,0"])
                ops.append(mth_op(w, q, rng.randrange(1 << 30), hrel, where, 3000000, ins, outs, rng.choice([0, 0, 0, 1]), rng.randrange(1 << 30),
                                  rng.choice([64, 1000, 4096, 4096, 30000, 70000]), rng.choice([2048, 8192, 8192, 30000]), rng.randrange(1000), rng.choice([1, 2])))
    return ops


def hold_family(ctx, ops, stats):
    """runs the `mth` ops in the plain build; returns (event logs for the model, their ops)"""
    logs, meta = [], []
    for op, (rc, out, err) in zip(ops, run_all(hx("plain"), ops, timeout=300)):
        lines = out.split("\n")
        endl = [l for l in lines if l.startswith("end ")]
        if rc != 0 or not endl:
            what = "a call never returned (blocked)" if (endl and "hang" in endl[-1]) or rc == -999 else "crash (exit %d)" % rc
            ctx.violation("multithreaded compression, worker parked while the caller wraps the round buffer: %s: %s | %s" % (what, op, (endl[-1] if endl else err[-300:])), dict(kind="monitor", op=op, stderr=err[-1500:], tail=lines[-40:]))
            continue
        if not endl[-1].startswith("end ok"):
            ctx.violation("multithreaded compression, worker parked while the caller wraps the round buffer: %s -> %s" % (op, endl[-1]), dict(kind="monitor", op=op, result=endl[-1], tail=lines[-40:]))
            continue
        stats["hold_runs"] += 1; stats["hold_caller_waited_at_wrap"] += int("rel=ldmwait" in endl[-1]); stats["frames"] += 1
        evs = [l for l in lines if l and not l.startswith("end ")]
        stats["events"] += len(evs)
        logs.append(";".join(evs)); meta.append(op)
    return logs, meta


def fault_family(ctx, ops, stats):
    """runs the `mtf` ops in the plain build; returns (event logs for the model, their ops)"""
    logs, meta = [], []
    perm = [i for r in range(16) for i in range(r, len(ops), 16)]        # neighbours in the list (same job, same schedule) go to different runner threads
    ops = [ops[i] for i in perm]
    for op, (rc, out, err) in zip(ops, run_all(hx("plain"), ops, timeout=200)):
        lines = out.split("\n")
        endl = [l for l in lines if l.startswith("end ")]
        evs = [l for l in lines if l and not l.startswith("end ")]
        efin = [l for l in evs if l.startswith("efin ")]
        if rc != 0 or not endl:
            hang = (endl and "hang" in endl[-1]) or rc == -999
            ctx.violation("multithreaded compression with a refused allocation: %s: %s | %s" % ("a call never returned (blocked)" if hang else "crash (exit %d)" % rc, op, (endl[-1] if endl else err[-300:])),
                          dict(kind="monitor", op=op, stderr=err[-1500:], serial_handover_of_failed_jobs=efin, tail=lines[-40:]))
            stats["fault_hangs" if hang else "fault_crashes"] += 1
            if hang and efin:
                logs.append(";".join(efin)); meta.append(op)
            continue
        if not endl[-1].startswith("end ok"):
            ctx.violation("multithreaded compression with a refused allocation: %s -> %s" % (op, endl[-1]), dict(kind="monitor", op=op, result=endl[-1], tail=lines[-40:]))
            continue
        m = re.search(r"frames=(\d+) .* fault=(\d) res=(\S+)", endl[-1])
        stats["frames"] += int(m.group(1)); stats["faults_fired"] += int(m.group(2)); stats["fault_errors_returned"] += int(m.group(3) != "ok"); stats["events"] += len(evs)
        logs.append(";".join(evs)); meta.append(op)
    return logs, meta


def run_all(exe, ops, timeout=900, env=None):
    def work(chunk):
        res = []
        for op in chunk:
            rc, out, err = zv.run([exe], op + "\n", timeout=timeout, env=env)
            res.append((rc, out, err))
        return res
    return frames.parallel(work, frames.split_chunks(ops, 16))


def correspondence(ctx):
    rng = ctx.rng
    quick = ctx.quick()
    n = 90 if quick else 2500
    ops = [gen_op(rng, quick) for _ in range(n)]
    # directed: ring back-pressure (tiny output room, many small jobs), job larger than one publication, empty input, single byte
    ops += ["mt 2 100=1,401=524288,201=1 4000000 5 4000000 1,2000 1 77 -1 0 1", "mt 4 100=1,401=524288 6000000 6 6000000 300 2 78 -1 0 1",
            "mt 1 100=3,401=2097152,201=1 5000000 7 1000000 100000 4 79 -1 0 2", "mt 3 100=1,401=524288 4000000 11 4000000 8000000 5 82 -1 0 1", "mt 4 100=1,401=524288,160=1,101=20 5000000 12 1000000 8000000 5 83 -1 0 2", "mt 3 100=1,201=1 0 8 1 100 1 80 -1 0 2", "mt 2 100=1,160=1,101=20,401=524288 3000000 9 70000 30000 1 81 2 0 2",
            # the caller laps the round input buffer while the first job loaded after the previous wrap is still stalled (preset 6: long stall + patient caller)
            "mt 2 100=5,401=1048576,402=6,101=20 12000000 13 12000000 8000000 6 84 -1 0 1", "mt 3 100=3,401=1048576,402=5,101=21,201=1 16000000 14 300000 100000 6 85 -1 0 1",
            "mt 2 100=1,401=524288,402=4,201=1 9000000 15 9000000 8000000 6 86 -1 0 2"]
    # long-distance matching inside ONE multi-MiB job: 1 MiB chunks without any match (not only the first of the job) before a chunk with one
    for k in range(4 if quick else 40):
        jmb = rng.choice([3, 4, 4, 5]); sd = (1 << 40) | rng.randrange(1 << 25)
        ops.append("mt %d 100=%d,160=1,401=%d%s %d %d %d 8000000 %d %d -1 0 1" % (rng.choice([1, 1, 2]), rng.choice([1, 3]), jmb << 20, rng.choice(["", ",201=1"]),
                                                                              (jmb << 20) + rng.randint(1000, 200000), sd, rng.choice([1 << 20, 6000000]), rng.choice([0, 1]), rng.randrange(1 << 30)))
    res = run_all(hx("plain"), ops)
    logs, meta = [], []
    stats = dict(frames=0, events=0, hangs=0)
    for op, (rc, out, err) in zip(ops, res):
        lines = out.split("\n")
        endl = [l for l in lines if l.startswith("end ")]
        if rc != 0 or not endl:
            what = "hang" if (endl and "hang" in endl[-1]) or rc == -999 else "crash (exit %d)" % rc
            ctx.violation("multithreaded compression %s: %s | %s" % (what, op, (endl[-1] if endl else err[-300:])), dict(kind="monitor", op=op, stderr=err[-1500:], tail=lines[-40:]))
            continue
        if not endl[-1].startswith("end ok"):
            ctx.violation("multithreaded compression failed: %s -> %s" % (op, endl[-1]), dict(kind="monitor", op=op, result=endl[-1], tail=lines[-40:]))
            continue
        evs = [l for l in lines if l and not l.startswith("end ")]
        stats["events"] += len(evs)
        m = re.search(r"frames=(\d+)", endl[-1]); stats["frames"] += int(m.group(1))
        logs.append(";".join(evs)); meta.append(op)
    # allocation faults under worker threads: monitors in the harness, traces (cut where the fault fires) + serial hand-over of failed jobs replayed by the model
    stats.update(faults_fired=0, fault_errors_returned=0, fault_hangs=0, fault_crashes=0)
    frng = zv.Rng(ctx.seed * 7919 + 1311)        # own stream: the families below keep the inputs they had
    dir_ops, sw_ops, ldm_ops = gen_fault_ops(frng, quick)
    fops = dir_ops + sw_ops + ldm_ops
    flogs, fmeta = fault_family(ctx, fops, stats)
    logs += flogs; meta += fmeta
    # the serial step lags behind the caller at the wrap of the round buffer (a worker parked, nothing refused), long-distance matching
    stats.update(hold_runs=0, hold_caller_waited_at_wrap=0)
    hrng = zv.Rng(ctx.seed * 6151 + 977)         # own stream
    hops = gen_hold_ops(hrng, quick)
    hlogs, hmeta = hold_family(ctx, hops, stats)
    logs += hlogs; meta += hmeta
    if logs:
        rcm, mout, merr = zv.run([zv.driver_exe(), "mtproto"], "\n".join(logs) + "\n", timeout=1200)
        mo = mout.split("\n")
        acc = 0
        for op, verdict, lg in zip(meta, mo, logs):
            if verdict.startswith("accept"):
                acc += 1
                continue
            m = re.search(r"event (\d+)", verdict)
            k = int(m.group(1)) if m else 0
            evs = lg.split(";")
            ctx.violation("observed execution is not a path of the protocol model: %s -> %s" % (op, verdict), dict(kind="tie-trace-inclusion", op=op, verdict=verdict, events_around=evs[max(0, k - 25):k + 5]), no_input=True)
        stats["accepted"] = acc
    # parameter change between jobs: the level is raised / lowered in mid-frame (no explicit window); every job created afterwards must stay inside the
    # window that job 0 already announced in the frame header - decided exactly by the Lean conformance predicate (window rule per sequence)
    import datagen
    ml_lines, ml_src = [], []
    for k in range(4 if quick else 40):
        per = rng.choice([600000, 1 << 20, 1500000]); blk = datagen.randbytes(rng, per); xx = bytearray()
        while len(xx) < rng.choice([5, 6, 8]) * (1 << 20):
            b = bytearray(blk)
            for _ in range(30):
                b[rng.randrange(per)] ^= 0x55
            xx += b
        xx = bytes(xx)
        ml_lines.append("cstream 100=%d,400=%d,201=1 %s %s 10000000 %s" % ((rng.choice([1, 1, 3]), rng.choice([1, 2, 3]), xx.hex()) + datagen.mtlevel_dirs(rng)))
        ml_src.append(xx)
    ml_out = frames.parallel(lambda ch: frames.run_lines(frames.harness(), ch, timeout=1800)[1], frames.split_chunks(ml_lines, 8))
    ml_conf = frames.parallel(lambda ch: frames.model_lines(ch), frames.split_chunks(
        ["conform %s %s - 0 0 0" % (o.split()[0], xx.hex()) if o and not o.startswith(("err", "TIMEOUT")) else "bad" for o, xx in zip(ml_out, ml_src)], 8))
    for ln, o, cf in zip(ml_lines, ml_out, ml_conf):
        if not o or o.startswith(("err", "TIMEOUT")):
            ctx.violation("multithreaded compression with a level change in mid-frame failed: %s" % (o or "no output")[:100], dict(kind="monitor", op=ln[:40000000], result=o[:300]))
        elif not cf.startswith("ok"):
            ctx.violation("frame emitted by worker threads with a level change in mid-frame is not valid / not conformant: %s" % cf[:300], dict(kind="monitor", op=ln[:40000000], conform=cf[:600]))
    # ASan+UBSan build (uninstrumented harness) on a sample: tables kept between frames of one context
    sops = [o for o in ops if int(o.split()[3]) <= 3000000][:12 if quick else 300] + [o for o in ops[-8:] if "163=" in o]
    hx_san = build.link("zvh_mt", ["zvh_mt.c"], "san", exclude=("pool.c", "zstdmt_compress.c"), extra=["-DZV_NOTRACE"])
    for op, (rc, out, err) in zip(sops, run_all(hx_san, sops, timeout=1500)):
        if rc != 0 and "end FAIL hang" not in out:
            ctx.violation("sanitizer report / crash in the ASan+UBSan build: %s -> %s" % (op, err[-500:]), dict(kind="monitor-san", op=op, stderr=err[-3000:]))
        elif "end FAIL" in out and "hang" not in out:
            ctx.violation("multithreaded compression failed in the ASan+UBSan build: %s -> %s" % (op, out.strip().split("\n")[-1]), dict(kind="monitor-san", op=op))
    # allocation faults in the ASan+UBSan build: the directed family (first schedule of each) and a sample of the sweep
    fsops = dir_ops[::2 if quick else 1] + (frng.sample(sw_ops, 20) + frng.sample(ldm_ops, 10) if quick else sw_ops + ldm_ops)
    for op, (rc, out, err) in zip(fsops, run_all(hx_san, fsops, timeout=400)):
        last = out.strip().split("\n")[-1] if out.strip() else ""
        if rc != 0 or not last.startswith("end ok"):
            ctx.violation("ASan+UBSan build, multithreaded compression with a refused allocation: %s: %s -> %s" % ("a call never returned" if "end FAIL hang" in out else "sanitizer report / crash / failure", op, last if last.startswith("end ") else err[-500:]),
                          dict(kind="monitor-san", op=op, stderr=err[-3000:], result=last))
    # ThreadSanitizer on a sample (no interposition-dependent behaviour: same harness, tsan variant)
    tops = ops[:14] if quick else ops[:400]
    tops = [o for o in tops if int(o.split()[3]) <= 3000000][:10 if quick else 300]
    # a worker / the caller is refused memory while other jobs run; with long-distance matching: while the caller wraps the round buffer
    tops += dir_ops[1::6 if quick else 2] + frng.sample(sw_ops, 6 if quick else 100) + (frng.sample(ldm_ops, 12) if quick else ldm_ops)
    env = dict(os.environ, TSAN_OPTIONS="halt_on_error=1 second_deadlock_stack=1")
    rest = run_all(hx("tsan"), tops, timeout=1500, env=env)
    for op, (rc, out, err) in zip(tops, rest):
        if "ThreadSanitizer" in err or rc not in (0,):
            if "end FAIL hang" in out and "ThreadSanitizer" not in err:
                continue       # the TSan build is ~10x slower: the 120 s limit is not a verdict here
            ctx.violation("ThreadSanitizer / crash in the TSan build: %s -> %s" % (op, err[-400:]), dict(kind="monitor-tsan", op=op, stderr=err[-3000:]))
    # the parked-worker runs under ThreadSanitizer: the caller's writes into the round buffer against the reads of the long-distance matcher
    htops = hops[:7] if quick else hops
    for op, (rc, out, err) in zip(htops, run_all(hx("tsan"), htops, timeout=1500, env=env)):
        last = out.strip().split("\n")[-1] if out.strip() else ""
        if "ThreadSanitizer" in err or rc not in (0,):
            if "end FAIL hang" in out and "ThreadSanitizer" not in err:
                continue
            ctx.violation("ThreadSanitizer / crash in the TSan build, worker parked while the caller wraps the round buffer: %s -> %s" % (op, err[-400:]), dict(kind="monitor-tsan", op=op, stderr=err[-3000:]))
        elif last.startswith("end FAIL"):
            ctx.violation("TSan build, worker parked while the caller wraps the round buffer: %s -> %s" % (op, last), dict(kind="monitor-tsan", op=op, result=last))
    return dict(evaluations=len(ops) + len(tops) + len(fops) + len(fsops) + len(hops) + len(htops), hold_runs=stats["hold_runs"], hold_runs_caller_waited_at_wrap=stats["hold_caller_waited_at_wrap"], distinct_nontrivial=len(set(ops)) + len(set(fops)),
                rule="one evaluation = one multi-frame run (1..6 workers, job sizes, overlap, LDM, rsyncable, checksum, mid-frame level change, aborted first frame, worker-count change between frames, 1-byte..8 MB in/out windows) under one schedule preset; "
                     "every run's event list replayed by the Lean LTS; first %d runs repeated under ThreadSanitizer; %d runs of three frames with one allocator request refused (request number swept per thread class / per job, older job held back before its serial turn)" % (len(tops), len(fops)),
                allocation_fault_runs=len(fops), allocation_faults_fired=stats["faults_fired"], allocation_fault_errors_returned=stats["fault_errors_returned"],
                samples=[dict(op=ops[0], verdict=(mo[0] if logs else ""))], frames_completed=stats["frames"], protocol_events_replayed=stats["events"], runs_accepted_by_model=stats.get("accepted", 0))


def replay(ctx, data):
    op = data["op"]
    if data.get("kind") == "monitor-san":
        rc, out, err = zv.run([build.link("zvh_mt", ["zvh_mt.c"], "san", exclude=("pool.c", "zstdmt_compress.c"), extra=["-DZV_NOTRACE"])], op + "\n", timeout=900)
        return dict(violates=rc != 0 or "end ok" not in out, result=out.strip().split("\n")[-1:], stderr=err[-1500:])
    if data.get("kind") == "monitor-tsan" and op.startswith("mth "):
        rc, out, err = zv.run([hx("tsan")], op + "\n", timeout=900, env=dict(os.environ, TSAN_OPTIONS="halt_on_error=1 second_deadlock_stack=1"))
        return dict(violates=rc != 0 or "ThreadSanitizer" in err or "end ok" not in out, result=out.strip().split("\n")[-1:], stderr=err[-1500:])
    rc, out, err = zv.run([hx("plain")], op + "\n", timeout=900)
    lines = out.split("\n")
    endl = [l for l in lines if l.startswith("end ")]
    if rc != 0 or not endl or not endl[-1].startswith("end ok"):
        return dict(violates=True, result=endl[-1:] or err[-300:])
    evs = [l for l in lines if l and not l.startswith("end ")]
    rcm, mout, merr = zv.run([zv.driver_exe(), "mtproto"], ";".join(evs) + "\n")
    return dict(violates=not mout.startswith("accept"), verdict=mout.strip())
