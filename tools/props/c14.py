"""C14 — memory budgets.  Tie of Model/{Cwksp,Estimate,DBuf}.lean to the code:
 (1) the public estimates vs the model on random cParams (function level);
 (2) the workspace reservation trace of the real ZSTD_initStaticCCtx / ZSTD_resetCCtx_internal / ZSTD_reset_matchState (reservation entry
     points wrapped inside a harness that #includes zstd_compress.c) vs Estimate.reserveSeq run through the Cwksp model: same requests in
     the same order, same neededSpace, same cursors, for static and heap contexts, one-shot and streaming, up to 140 uses of one context;
 (3) monitors: a static context of exactly the estimated size completes every use (levels l <= L, any input size) and round-trips; its
     oversized-duration counter never moves;
 (4) streaming decoder: frames with windows around the limit W through static DStreams of exactly ZSTD_estimateDStreamSize(W) and heap
     DStreams with a counting allocator: verdict = DBuf.windowAccepted, peak bytes = sizeof(DCtx) + DBuf.neededBuffers, ZSTD_sizeof_* >= live bytes;
 (5) static contexts of exactly ZSTD_estimate{CCtx,CStream}Size_usingCParams(c) and of the sibling *_usingCCtxParams on a parameter set with exactly c
     (row finder auto / on / off; model Estimate.estimateUsingCCtxParams, block size tied), used with exactly c at source sizes around every power of two
     up to the window (where ZSTD_adjustCParams re-resolves the logs and the match-finder flavour) under the three row-finder settings:
     every use must fit, its reservations are tied to the model, and the hypothesis of Props.C14.usingCParams_covers is evaluated on it;
 (7) histories over one decoding context and a pool of DDicts (tools/ddset.py, harness/zvh_ddset.c): ZSTD_sizeof_DCtx against the context's counting allocator
     while the multiple-DDict set is created, grows over its expansion points and is dropped; static decoding contexts (block zeroed / NOT zeroed by the
     caller) x every entry point that needs an internal DDict: memory_allocation, never an allocator call, and referencing a caller-owned DDict keeps working;
 (6) hand-written frame headers (1-, 2-, 4- and 8-byte content sizes of single-segment frames up to 2^64-1, every window descriptor incl.
     those above ZSTD_WINDOWLOG_MAX) x limits set three ways: the Lean model parses the header itself and decides (Props.C14.refused_iff,
     huge_window_refused); refusals must carry the window verdict and no allocator request may exceed ZSTD_estimateDStreamSize(limit)."""
import re
import build, zv, frames

ASSUMPTIONS = ["non-ASan sizing rule (ZSTD_cwksp_alloc_size n = n) is what the Lean model describes; the sanitizer build is used only for the monitors",
               "the resolution of levels / source sizes to cParams (ZSTD_getCParams_internal, ZSTD_adjustCParams_internal) is observed from the context's appliedParams, not modelled: the theorems quantify over ALL resolved parameters"]


def hx_ws():
    return build.link("zvh_cwksp", ["zvh_cwksp.c"], "plain", exclude=("zstd_compress.c",))


def hx_mem(variant="plain"):
    return build.link("zvh_mem", ["zvh_mem.c"], variant)


def rand_cparams(rng, small=False):
    w = rng.randint(10, 22 if small else 30)
    st = rng.randint(1, 9)
    c = rng.randint(6, 22 if small else 29)
    h = rng.randint(6, 22 if small else 30)
    return (w, c, h, rng.randint(1, 9), rng.randint(3, 7), rng.choice([0, 1, 16, 999]), st)


def spec_of(rng):
    k = rng.random()
    if k < 0.45:
        return "100=%d" % rng.choice([-5, 1, 1, 2, 3, 3, 4, 5, 6, 7, 9, 12, 13, 15, 16, 18, 19])
    w, c, h, sl, mm, tl, st = rand_cparams(rng, small=True)
    s = "101=%d,103=%d,102=%d,104=%d,105=%d,106=%d,107=%d" % (w, c, h, sl, mm, tl, st)
    if rng.random() < 0.4:
        s += ",1011=%d" % rng.choice([1, 2])
    if rng.random() < 0.3:
        s += ",160=1"
        if rng.random() < 0.5: s += ",161=%d" % rng.randint(6, 20)
        if rng.random() < 0.5: s += ",162=%d" % rng.choice([4, 16, 64, 300])
        if rng.random() < 0.3: s += ",163=%d" % rng.randint(1, 8)
    if rng.random() < 0.25:
        s += ",1015=%d" % rng.choice([1024, 4096, 65536, 131072])
    if rng.random() < 0.15 and "160=1" not in s:
        s += ",9999=1"          # external sequence producer (not combinable with long-distance matching)
    return s


def raw_frame(rng, wlog, mant, content, fcs_mode, single=False):
    """a valid frame of raw / RLE blocks with the given Window_Descriptor; fcs_mode: None (absent) or 'yes'"""
    n = len(content)
    out = bytearray(b"\x28\xb5\x2f\xfd")
    if single:
        code = 0 if n < 256 else (1 if n < 65536 + 256 else 2)
        out.append((code << 6) | 0x20)
        out += n.to_bytes(1, "little") if code == 0 else ((n - 256).to_bytes(2, "little") if code == 1 else n.to_bytes(4, "little"))
    else:
        if fcs_mode:
            code = 1 if 256 <= n < 65536 + 256 else 2
            out.append(code << 6)
            out.append(((wlog - 10) << 3) | mant)
            out += (n - 256).to_bytes(2, "little") if code == 1 else n.to_bytes(4, "little")
        else:
            out.append(0)
            out.append(((wlog - 10) << 3) | mant)
    wsize = (1 << wlog) + ((1 << wlog) >> 3) * mant if not single else max(n, 1)
    bmax = min(wsize, 131072)
    pos = 0
    if n == 0:
        out += (1).to_bytes(3, "little")
    while pos < n:
        k = min(n - pos, rng.randint(1, bmax))
        last = 1 if pos + k == n else 0
        blk = content[pos:pos + k]
        if len(set(blk)) == 1 and rng.random() < 0.5:
            out += (last | (1 << 1) | (k << 3)).to_bytes(3, "little") + blk[:1]
        else:
            out += (last | (k << 3)).to_bytes(3, "little") + blk
        pos += k
    return bytes(out), wsize


def cparams_static_lines(rng, quick):
    """(5) ws scenarios for static contexts sized by ZSTD_estimate*_usingCParams (sizing directive 9998=1) and used with exactly those cParams.
    Directed, independent of the random seed: window logs 11..18 x the three strategies with a row finder (+ one strategy of every other kind)
    x table shapes (chain table much larger than the hash table, and the reverse) x row finder left to the library / forced on / forced off
    x one-shot and streaming (size pledged) x source sizes just below, at and just above each power of two up to the window and around the
    16 KB row-finder threshold.  A few random vectors are added on top."""
    out = []

    def sizes_for(w):
        szs = [1000, 1 << (w - 2)]
        for j in (w - 1, w):
            szs += [(1 << j) - (1 << j) // 32, (1 << j) - 1, 1 << j, (1 << j) + 1]
        szs += [16384 - 512, 16384, 16385, min(3 << w, 400000)]
        seen, res = set(), []
        for z in szs:
            if z not in seen:
                seen.add(z); res.append(z)
        return res[:16]

    def line(cp, row, stream, mis, sizes, pledged_known=True, by_cparams=True):
        w, c, h, sl, mm, tl, st = cp
        spec = "101=%d,103=%d,102=%d,104=%d,105=%d,106=%d,107=%d" % (w, c, h, sl, mm, tl, st) + (",9998=1" if by_cparams else "")
        if row:
            spec += ",1011=%d" % row
        parts = ["%s %d %d" % (spec, z, z if (stream and pledged_known) else -1) for z in sizes]
        return "ws 1 %d %d 0 %d %d %s" % (stream, mis, len(sizes), len(sizes), " ".join(parts)), ("cstream" if stream else "cctx", ",".join(map(str, cp)), "p" if by_cparams else str(row))
    idx = 0
    for w in range(11, 19):
        for shape in (0, 1):
            for st in (3, 4, 5, 1 + (w + shape) % 2, 6 + (w + shape) % 4):
                if quick and st not in (3, 4, 5) and shape == 1:
                    continue
                mm = 4 + (idx % 3)
                c, h = (w, 6 + idx % 4) if shape == 0 else (6 + idx % 3, w + 1)
                cp = (w, c, h, 1 + idx % 6, mm, 0, st)
                rows = (0, 1, 2) if 3 <= st <= 5 else (0,)
                for row in rows:
                    for stream in (0, 1):
                        out.append(line(cp, row, stream, (0, 8, 24, 56)[idx % 4], sizes_for(w)))
                        if row == 0 or (w + stream + shape) % 2 == 0:
                            # the sibling estimates ZSTD_estimate*_usingCCtxParams on a parameter set with exactly these cParams: same uses; they see the
                            # caller's row-finder choice; with the choice left to the library the one-shot estimate must budget for EITHER flavour
                            # (the library decides on the window log it shrank to the source: defect repaired in /repo 11dc910)
                            out.append(line(cp, row, stream, (0, 8, 24, 56)[idx % 4], sizes_for(w), by_cparams=False))
                        idx += 1
    out.sort(key=lambda lm: "1011=" in lm[0])       # row finder left to the library first (stable)
    # long-distance matching switched on BY THE LIBRARY (strategy >= btopt and a window log of 27 that the source does not shrink): the estimates must
    # resolve the automatic switch and budget its tables (defect repaired in /repo 3f7e135).  Streaming with the size unknown keeps the window log, so
    # the first call of a 120 KB source already needs them; the static block is ~135 MB of address space, touched only where used.  One-shot needs a
    # source above 64 MiB for the window to stay: thorough tier only; a small one-shot source (switch resolves to off) checks the other direction.
    ldm_lines = []
    for k, st in enumerate((7, 8, 9)):
        cp = (27, 6 + k, 6 + 2 * k, 1 + k, 4 if st == 7 else 3 + k % 2, 0, st)
        ldm_lines.append(line(cp, 0, 1, (0, 24, 56)[k], [120000, 70000, 300], pledged_known=False, by_cparams=False))
    ldm_lines.append(line((27, 7, 6, 1, 4, 0, 8), 0, 0, 8, [300, 100000], by_cparams=False))
    if not quick:
        for k, st in enumerate((7, 8, 9)):
            cp = (27 + k % 2, 7, 7 + k, 2, 4, 0, st)
            ldm_lines.append(line(cp, 0, 1, 8 * k, [120000, 64000], pledged_known=False, by_cparams=True))
            ldm_lines.append(line(cp, 0, 1, 8 * k, [(1 << 26) + 5000, 120000], pledged_known=True, by_cparams=False))
        ldm_lines.append(line((27, 6, 6, 1, 4, 0, 7), 0, 0, 0, [(1 << 26) + 4096, 5000], by_cparams=False))
        ldm_lines.append(line((27, 6, 6, 1, 4, 0, 7), 0, 0, 0, [(1 << 26) + 4096], by_cparams=True))
    out = out[:6] + ldm_lines + out[6:]
    for i in range(10 if quick else 300):
        w = rng.randint(10, 19)
        cp = (w, rng.randint(6, w + 1), rng.randint(6, w + 2), rng.randint(1, 7), rng.randint(3, 7), rng.choice([0, 16, 999]), rng.randint(1, 9))
        szs = [rng.choice([1, 300, 5000]), rng.randint(1 << (w - 1), 1 << w), (1 << w) + rng.randint(1, 5000), rng.randint(15000, 16500)]
        out.append(line(cp, rng.choice([0, 0, 1, 2]) if 3 <= cp[6] <= 5 else 0, rng.randint(0, 1), rng.choice([0, 8, 16, 40]), szs, pledged_known=rng.random() < 0.6, by_cparams=rng.random() < 0.5))
    return out


RAW16 = (16 << 3).to_bytes(3, "little") + bytes(range(65, 81))      # a raw block of 16 bytes, not the last one: the frame stays open


def header_frame(single, fcs_bytes, fcs_value, wlog=10, mant=0):
    """hand-written frame header (no dictionary id, no checksum) followed by one 16-byte raw block that is not the last: only the header
    decision is exercised, the content size need not be reachable.  fcs_bytes in (0, 1, 2, 4, 8); (1 only with single, 0 only without)."""
    code = {0: 0, 1: 0, 2: 1, 4: 2, 8: 3}[fcs_bytes]
    if fcs_bytes:            # what the field can say
        fcs_value = (fcs_value - 256) % 65536 + 256 if fcs_bytes == 2 else fcs_value % (1 << (8 * fcs_bytes))
    out = bytearray(b"\x28\xb5\x2f\xfd")
    out.append((code << 6) | (0x20 if single else 0))
    if not single:
        out.append(((wlog - 10) << 3) | mant)
    if fcs_bytes == 2:
        out += (fcs_value - 256).to_bytes(2, "little")
    elif fcs_bytes:
        out += fcs_value.to_bytes(fcs_bytes, "little")
    window = fcs_value if single else (1 << wlog) + ((1 << wlog) >> 3) * mant
    return bytes(out) + RAW16, window


def hostile_header_cases(rng, quick):
    """(6) (frame, window as the generator understands it) list.  Directed: content sizes of single-segment frames in every field width with
    values at and around 2^16, 2^31, 2^32, multiples of 2^32 plus a remainder that is below / at / above the limits used, 2^63, 2^64-1;
    window descriptors 10..41 (above 31 the header parser itself must refuse) with and without an 8-byte content size."""
    T = 1 << 32
    limits = [1024, 1500, 1 << 17, 1000000, 1 << 20, 1 << 27]
    v8 = [T - 1, T, T + 1, T + 512, T + 1023, T + 1024, T + 1025, T + 65536, 2 * T, 2 * T + 1024, 3 * T + 1000000, 256 * T + 4096, (1 << 40) + (1 << 20),
          (1 << 48) + 1024, (1 << 62) + 1024, 1 << 63, (1 << 63) + 2048, (1 << 64) - 1, (1 << 64) - 2, (1 << 64) - T + 1024, (1 << 31), (1 << 31) + 1, (1 << 31) + 1024,
          65536 + 1024, 3 * 65536 + 512, 1023, 1024, 1025]
    for W in limits:
        v8 += [T + W - 1, T + W, T + W + 1, 5 * T + W, W - 1, W, W + 1]
    v4 = [T - 1, T - 1024, (1 << 31) - 1, 1 << 31, (1 << 31) + 1, (1 << 31) + 1000, 65536 + 512, 2 * 65536 + 1024, 65536 + 256, 1 << 24, (1 << 24) + 1] + [W + d for W in limits for d in (-1, 0, 1)]
    v2 = [256, 1023 + 256, 1024, 1025, 1500, 1501, 65535 + 256]
    cases = []
    for v in dict.fromkeys(v8):
        cases.append(header_frame(True, 8, v))
    for v in dict.fromkeys(v4):
        cases.append(header_frame(True, 4, v))
    for v in v2:
        cases.append(header_frame(True, 2, v))
    for v in (16, 255):
        cases.append(header_frame(True, 1, v))
    for wlog in range(10, 42):
        mants = (0, 7) if (wlog % 3 or wlog > 32) else (0, 1, 4, 7)
        if wlog in (30, 31, 32):
            mants = range(8)
        for mant in mants:
            fb = (0, 8, 4)[(wlog + mant) % 3]
            cases.append(header_frame(False, fb, {0: 0, 8: T + 512 + mant, 4: 70000 + wlog}[fb], wlog, mant))
    for i in range(20 if quick else 2000):
        k = rng.random()
        if k < 0.5:
            cases.append(header_frame(True, 8, rng.randrange(1, 1 << rng.choice([20, 31, 32, 33, 40, 63])) * T + rng.choice([0, 1, rng.randrange(1 << 12), rng.randrange(1 << 21), rng.randrange(T)])))
        elif k < 0.7:
            cases.append(header_frame(True, 4, rng.randrange(1024, T)))
        else:
            cases.append(header_frame(False, rng.choice([0, 4, 8]), rng.randrange(300, 1 << 34), rng.randint(10, 41), rng.randint(0, 7)))
    return [(fr, w) for fr, w in cases]


def correspondence(ctx):
    rng = ctx.rng
    quick = ctx.quick()
    ev = 0
    distinct = set()
    samples = []
    # ---------- (1) public estimates vs model ----------
    lines = []
    for i in range(1500 if quick else 40000):
        lines.append("est %s %s" % (rng.choice(["cctx", "cstream"]), ",".join(map(str, rand_cparams(rng)))))
    lines += ["estl %s %d" % (k, L) for k in ("cctx", "cstream") for L in range(1, 23)]
    co, mo, rc, err = zv.differential(hx_ws(), "mem", lines, timeout=1200)
    ev += len(lines); distinct |= set(lines)
    for ln, a, b in zip(lines, co, mo):
        if a != b:
            ctx.violation("ZSTD_estimate*_usingCParams differs from the sizing model: %s -> code %s, model %s" % (ln, a, b), dict(kind="tie-estimate", op=ln, code=a, model=b), no_input=True)
            break
    samples.append(dict(op=lines[0], code=co[0], model=mo[0]))
    # levels beyond ZSTD_maxCLevel() (legal: they compress like the maximum) up to INT_MAX: the estimate saturates (level_estimate_saturates) and
    # returns at once - a loop that runs once per level does not come back for INT_MAX
    hl = ["estl %s %d" % (k, L) for k in ("cctx", "cstream") for L in (23, 24, 100, 65536, 2147483646, 2147483647)]
    for ln in hl:
        co1, mo1, rc1, err1 = zv.differential(hx_ws(), "mem", [ln], timeout=20)
        ev += 1; distinct.add(ln)
        if not co1 or co1[0] != mo1[0]:
            ctx.violation("ZSTD_estimateCCtxSize / CStreamSize at a level beyond the maximum: %s -> code %s (exit %s), model %s" % (
                ln, co1[0] if co1 and co1[0] else "no answer within 20 s", rc1, mo1[0]), dict(kind="tie-estimate-level", op=ln, code=(co1 or [""])[0], model=mo1[0]))
            break
    # ---------- (2)+(3) workspace traces ----------
    wl = []
    nws = 160 if quick else 2500
    for i in range(nws):
        st = rng.random() < 0.6
        stream = rng.random() < 0.4
        s0 = spec_of(rng)
        uses = rng.choice([1, 1, 2, 3, 6])
        specs = [s0]
        m = re.fullmatch(r"100=(-?\d+)", s0)
        if m:
            L = int(m.group(1))
            for _ in range(rng.randint(0, 4)):
                specs.append("100=%d" % rng.choice([l for l in [-5, -1, 1, 2, 3, 4, 5, 6, 7, 9, 12, 13, 15, 16, 18, 19] if l <= L] or [L]))
            uses = max(uses, len(specs))
        parts = []
        for sp in specs:
            size = rng.choice([0, 1, 100, 2000, 16384, 16385, 60000, 131072, 131073, 300000, 700000])
            parts.append("%s %d %d" % (sp, size, rng.choice([-1, -1, -1, size]) if stream else -1))
        wl.append("ws %d %d %d 0 %d %d %s" % (st, stream, rng.choice([0, 8, 16, 24, 40, 56]), uses, len(specs), " ".join(parts)))
    # long reuse of one context with small jobs (the oversized-workspace counter must never matter for a static context)
    for i in range(4 if quick else 30):
        L = rng.choice([3, 5, 7, 9])
        wl.append("ws %d %d 0 0 %d 2 100=%d %d -1 100=%d %d -1" % (1 if i % 4 != 3 else 0, i % 2, rng.choice([135, 140, 150]), L, rng.choice([2000, 5000, 20000]), rng.choice([1, 2, L]), rng.choice([500, 1500])))
    cpmeta = {}
    for ln, m in cparams_static_lines(rng, quick):
        wl.append(ln)
        if m:
            cpmeta[ln] = m
    exe = hx_ws()

    def runws(chunk):
        rc, out, err = frames.run_lines(exe, chunk, timeout=3000)
        return [(rc, out, err)]
    res = frames.parallel(runws, frames.split_chunks(wl, 16))
    uselines = []
    for (rc, out, err), chunk in zip(res, frames.split_chunks(wl, 16)):
        if rc != 0:
            ctx.violation("workspace harness crashed (exit %d) on one of %d scenarios: %s" % (rc, len(chunk), err[-300:]), dict(kind="monitor", ops=chunk, stderr=err[-1500:]))
            continue
        # map use lines back to their scenario
        it = iter(out)
        for ln in chunk:
            uses = int(ln.split()[5])
            w = ln.split()
            for k in range(uses):
                o = next(it, None)
                if o is None:
                    break
                if o.startswith(("estimate-error", "initStatic-null")):
                    if o.startswith("initStatic-null"):
                        ctx.violation("ZSTD_initStaticCCtx refused memory of the estimated size: %s -> %s" % (ln[:200], o), dict(kind="monitor", op=ln, result=o))
                    break
                uselines.append((ln, k, o))
    ev += len(wl); distinct |= set(wl)
    # driver comparison
    dl, meta = [], []
    prev_oe = {}
    stats_lv = [0]
    for ln, k, o in uselines:
        m = re.match(r"use (\d+) rc=(\S+) rp=(\S+) lo64=(\d+) size=(\d+) fresh=(\d) need=(\d+) trace=(\S+) oe=(\d+) te=(\d+) as=(\d+) failed=(\d) dur=(\d+) rt=(\d)", o)
        if not m:
            ctx.violation("unparsable harness line: " + o[:200], dict(kind="internal", line=o), no_input=True)
            continue
        g = m.groups()
        isstatic = ln.split()[1] == "1"
        # monitors (property statements on this run)
        if g[1] != "ok" or g[13] != "1":
            if isstatic or g[1] not in ("ok",):
                tk = ln.split(); q_ = 7 + 3 * (k % int(tk[6]))
                ctx.violation("%s context %s use %d of [%s]: %s (round trip %s) need=%s size=%s; this use: parameters %s, %s source bytes, pledged %s, %s" % ("static (estimated size)" if isstatic else "heap", "refused" if g[1] != "ok" else "corrupted", k + 1, ln[:160], g[1], g[13], g[6], g[4],
                                                                                                                                     tk[q_], tk[q_ + 1], tk[q_ + 2], "streaming" if tk[2] == "1" else "one-shot"),
                              dict(kind="monitor", op=ln, use=k, result=o))
                continue
        ml_ = re.fullmatch(r"100=(\d+)", ln.split()[7 + 3 * (k % int(ln.split()[6]))]) if isstatic and ln.split()[2] == "0" else None
        if ml_ and g[1] == "ok" and 1 <= int(ml_.group(1)) <= 22:
            # hypothesis of Props.C14.level_covers: the applied parameters are dominated by the row of (level, source-size tier) the estimate looks at
            lvl = int(ml_.group(1)); rp = [int(x) for x in g[2].split(",")]
            srcsize = int(ln.split()[7 + 3 * (k % int(ln.split()[6])) + 1])
            tier = 0 if srcsize <= 16384 else 1 if srcsize <= 131072 else 2 if srcsize <= 262144 else 3
            row = ctx.gen["tables"]["adjRows"][tier][lvl]
            rowlog = max(4, min(row[3], 6))
            hcap = min(row[2], 24 + rowlog) if (rp[5] and 3 <= row[6] <= 5) else row[2]
            if not (rp[0] <= row[0] and rp[1] <= row[1] and rp[2] <= hcap and rp[3] == row[4] and rp[4] == row[6] and rp[6] == 0):
                ctx.violation("applied parameters at level %d, %d bytes are not dominated by the row ZSTD_estimateCCtxSize sizes (tier %d): applied wl,cl,hl,mm,strat = %s, row = %s" % (lvl, srcsize, tier, rp[:5], row),
                              dict(kind="oracle-validity(level_covers)", op=ln, use=k, result=o), no_input=True)
            stats_lv[0] += 1
        if isstatic and g[12] != "0":
            ctx.violation("static context counts oversized-workspace rounds (dur=%s at use %d): %s" % (g[12], k + 1, ln[:160]), dict(kind="tie-reset-decision", op=ln, use=k, result=o))
        if g[7] == "-":
            continue        # nothing reserved in this use (e.g. parameter error before the reset)
        # objects reserved at creation are part of the first trace for static contexts as well
        fresh = g[5]
        dl.append("reset %s %s %s %s %s" % (g[3], g[4], fresh, g[8], g[2]))
        meta.append((ln, k, o, g))
    if dl:
        rcm, mout, merr = zv.run([zv.driver_exe(), "mem"], "\n".join(dl) + "\n", timeout=1200)
        mo = mout.split("\n")
        for (ln, k, o, g), d, mline in zip(meta, dl, mo):
            mm = re.match(r"need=(\d+) trace=(\S+) oe=(\d+) te=(\d+) as=(\d+) failed=(\d) nulls=(\d+)", mline)
            if not mm:
                ctx.violation("model driver: " + mline[:200], dict(kind="internal"), no_input=True); break
            code = (g[6], g[7], g[8], g[9], g[10], g[11])
            model = mm.groups()[:6]
            if code != model:
                what = ["neededSpace", "reservation sequence", "objectEnd", "tableEnd", "allocStart", "allocFailed"][[a == b for a, b in zip(code, model)].index(False)]
                ctx.violation("workspace model and code disagree on %s at use %d of [%s]: code %s / model %s" % (what, k + 1, ln[:140], code, model),
                              dict(kind="tie-workspace", op=ln, use=k, driver_line=d, code=o, model=mline), no_input=True)
                break
        samples.append(dict(op=meta[0][0], code=meta[0][2][:300], model=mo[0][:300]))
    # (5) hypotheses and conclusion of Props.C14.usingCParams_covers / usingCCtxParams_covers on every use of a context sized by ZSTD_estimate*_usingCParams /
    # *_usingCCtxParams with exactly these cParams; the static block size is compared with the model of the public estimate
    cvl = [(ln, k, o, g) for (ln, k, o, g) in meta if ln in cpmeta]
    ncov = 0
    nfl = [0]
    if cvl:
        rcm, mout, merr = zv.run([zv.driver_exe(), "mem"], "\n".join(("cov %s %s %s" % (cpmeta[ln][0], cpmeta[ln][1], g[2])) if cpmeta[ln][2] == "p" else
                                                                       ("covp %s %s %s %s" % (cpmeta[ln][0], cpmeta[ln][2], cpmeta[ln][1], g[2])) for ln, k, o, g in cvl) + "\n", timeout=600)
        for (ln, k, o, g), mline in zip(cvl, mout.split("\n")):
            mm = re.match(r"le=(\d)(?: fl=\d)? need=(\d+) pub=(\d+)", mline)
            fl = re.search(r" fl=(\d)", mline)
            if not mm:
                ctx.violation("model driver (cov): " + mline[:200], dict(kind="internal"), no_input=True); break
            ncov += 1
            byp = cpmeta[ln][2] == "p"
            what = "%s context sized by ZSTD_estimate%sSize_using%s(%s%s), use %d of [%s]" % (cpmeta[ln][0], "CStream" if cpmeta[ln][0] == "cstream" else "CCtx", "CParams" if byp else "CCtxParams", cpmeta[ln][1],
                                                                                           "" if byp else ", row finder " + {"0": "auto", "1": "on", "2": "off"}[cpmeta[ln][2]], k + 1, ln[:150])
            if fl and fl.group(1) != "1":
                # the match-finder flavour in use is not one the estimate is made for.  Streaming estimate with the mode left automatic: outside the
                # hypothesis of usingCCtxParams_covers (it sizes the flavour of the unadjusted parameters; the stream buffers shrink by more than the
                # chain table costs) - the monitors above and the sizing comparison below still apply.  Anything else is a broken hypothesis.
                if cpmeta[ln][0] == "cstream" and cpmeta[ln][2] == "0":
                    nfl[0] += 1
                else:
                    ctx.violation("match-finder flavour in use (row finder %s) is not one the estimate was made for: %s" % ("on" if g[2].split(",")[5] == "1" else "off", what),
                                  dict(kind="oracle-validity(usingCCtxParams_covers)", op=ln, use=k, result=o, model=mline), no_input=True)
                    continue
            if mm.group(1) != "1":
                ctx.violation("applied parameters are not dominated by the cParams the estimate was asked about: %s: applied %s" % (what, g[2]),
                              dict(kind="oracle-validity(usingCParams_covers)", op=ln, use=k, result=o, model=mline), no_input=True)
            elif int(g[4]) != int(mm.group(3)):
                ctx.violation("static block of the estimated size is %s bytes, the model of the public estimate says %s: %s" % (g[4], mm.group(3), what),
                              dict(kind="tie-estimate", op=ln, use=k, result=o, model=mline))
            elif int(g[6]) > int(g[4]):
                ctx.violation("the sizing routine wants %s bytes for the applied parameters, the estimate gave %s: %s" % (g[6], g[4], what),
                              dict(kind="monitor", op=ln, use=k, result=o, model=mline))
    # ---------- (4) decoder window limit ----------
    dlines, dmeta = [], []
    nd = 220 if quick else 4000
    for i in range(nd):
        wlog = rng.randint(10, 21)
        mant = rng.choice([0, 0, 1, 7, rng.randint(0, 7)])
        n = rng.choice([0, 1, 300, 1024, 1025, 5000, 70000, 140000, 300000])
        single = rng.random() < 0.15
        fcs = rng.random() < 0.5 and n >= 256
        content = bytes(rng.getrandbits(8) for _ in range(min(n, 3000)))
        content = (content * (n // max(1, len(content)) + 1))[:n] if n else b""
        fr, wsize = raw_frame(rng, wlog, mant, content, "yes" if fcs else None, single)
        mode = rng.choice(["dstatic", "dheap"])
        ic, oc = rng.choice(["1", "7,300", "100000", "4000000"]), rng.choice(["1", "50", "100000", "4000000"])
        if mode == "dstatic":
            W = rng.choice([wsize, wsize - 1, wsize + 1, 1 << wlog, 1024, 1 << 17, 1 << 20, max(1024, wsize // 2)])
            W = max(W, 1024)
            dlines.append("dstatic %d %s %s %s" % (W, fr.hex(), ic, oc))
            limit = W
        else:
            wl_max = rng.choice([max(10, wlog - 1), wlog, min(31, wlog + 1), 10, 27])
            dlines.append("dheap %d %s %s %s" % (wl_max, fr.hex(), ic, oc))
            limit = 1 << wl_max
        bsm = min(wsize, 131072)
        first_in, first_out = int(ic.split(",")[0]), int(oc.split(",")[0])
        whole = 1 if first_in >= len(fr) else 0
        dmeta.append((mode, limit, wsize, n if (fcs or single) else -1, bsm, n, single, min(first_out, 1 << 22), whole))
    exe_m = hx_mem("san" if not quick else "plain")
    outs = frames.parallel(lambda ch: frames.run_lines(exe_m, ch, timeout=3000)[1], frames.split_chunks(dlines, 16))
    if len(outs) != len(dlines):
        ctx.violation("decoder budget harness crashed / lost lines (%d of %d)" % (len(outs), len(dlines)), dict(kind="monitor"), no_input=True)
    ml = ["dbuf %d %d %d %d %d %d" % (m[2], m[3], m[4], m[1], m[7], m[8]) for m in dmeta]
    rcm, mout, merr = zv.run([zv.driver_exe(), "mem"], "\n".join(ml) + "\n", timeout=600)
    mo = mout.split("\n")
    sz_dctx = ctx.gen["tables"]["sizeof_ZSTD_DCtx"]
    verd = {}
    for ln, o, m, mline in zip(dlines, outs, dmeta, mo):
        mm = re.match(r"verdict=(\w+) held=(\d+) est=(\d+)", mline)
        v, held, est = mm.group(1), int(mm.group(2)), int(mm.group(3))
        acc = v != "refused"
        ok = o.startswith("ok")
        verd[(m[0], v, ok)] = verd.get((m[0], v, ok), 0) + 1
        short = "%s limit=%d window=%d fcs=%d content=%d first-out=%d whole-frame-in-first-call=%d" % (m[0], m[1], m[2], m[3], m[5], m[7], m[8])
        if acc != ok:
            ctx.violation("decoder window limit: model says %s, decoder says %s (%s)" % (v, o[:80], short), dict(kind="monitor+tie", op=ln, result=o, model=mline))
            continue
        if not acc and "window_too_large" not in o:
            ctx.violation("frame beyond the window limit refused with the wrong verdict: %s (%s)" % (o[:80], short), dict(kind="monitor", op=ln, result=o))
        if m[0] == "dheap":
            pm = re.search(r"peak=(\d+) sizeof=(\d+) live=(\d+)", o)
            peak, szof, live = map(int, pm.groups())
            if acc and peak > sz_dctx + est:
                ctx.violation("streaming decoder allocated %d bytes > ZSTD_estimateDStreamSize(limit) = %d (%s)" % (peak, sz_dctx + est, short), dict(kind="monitor", op=ln, result=o))
            elif acc and peak != sz_dctx + held and m[5] > 0:
                ctx.violation("streaming decoder held %d bytes, the sizing model says sizeof(DCtx) %d + buffers %d (%s)" % (peak, sz_dctx, held, short), dict(kind="tie-dbuf", op=ln, result=o, model=mline), no_input=True)
            if szof < live:
                ctx.violation("ZSTD_sizeof_DCtx under-reports: %d < %d live bytes (%s)" % (szof, live, short), dict(kind="monitor", op=ln, result=o))
    ev += len(dlines); distinct |= set(dlines)
    samples.append(dict(op=dlines[0][:200], code=outs[0] if outs else "", model=mo[0]))
    # ---------- (6) hand-written headers: the model parses the header and decides ----------
    hl, hmeta = [], []
    hcases = hostile_header_cases(rng, quick)
    for ci, (fr, window) in enumerate(hcases):
        combos = [("dstatic", (1024, 1500)[ci % 2]), ("dstatic", 1 << 20), ("dstatic", 1 << 27), ("dheapw", 1500), ("dheapw", 1000000), ("dheapw", 1 << 31),
                  ("dheap", 10), ("dheap", 20), ("dheap", 31)]
        combos.append((rng.choice(["dstatic", "dheapw"]), rng.choice([1024, 4096, 65536, 1 << 17, (1 << 17) + 1, 12345678, 1 << 24])))
        for mode, lim in combos:
            limit = (1 << lim) if mode == "dheap" else lim
            if 1024 <= window <= limit and window > (1 << 28):
                continue            # would be accepted and make the decoder ask for more than 256 MB of real memory: left to the model
            ic = ("100000", "1", "5,8")[(ci + len(hl)) % 3]
            oc = ("100000", "4000000", "50")[(ci + len(hl) // 2) % 3]
            hl.append("%s %d %s %s %s" % (mode, lim, fr.hex(), ic, oc))
            hmeta.append((mode, limit, window, int(oc)))
    nhh = len(hl)
    houts = frames.parallel(lambda ch: frames.run_lines(exe_m, ch, timeout=3000)[1], frames.split_chunks(hl, 16))
    if len(houts) != len(hl):
        ctx.violation("decoder budget harness crashed / lost lines on hand-written headers (%d of %d)" % (len(houts), len(hl)), dict(kind="monitor"), no_input=True)
    # the same headers with ZSTD_d_stableOutBuffer=1: the window limit is a property of the session, not of the buffer mode - a header refused for its window
    # in buffered mode must be refused in stable-output mode as well (for its window, or earlier because the announced content cannot fit the output buffer)
    sidx = [k for k, o in enumerate(houts) if "window_too_large" in o][:: (7 if quick else 1)]
    sl = [hl[k].replace(hl[k].split()[0], hl[k].split()[0] + "S", 1) for k in sidx]
    souts = frames.parallel(lambda ch: frames.run_lines_exact(exe_m, ch, timeout=3000), frames.split_chunks(sl, 16)) if sl else []
    for ln, o in zip(sl, souts):
        ev += 1
        if "window_too_large" not in o and "dstSize_tooSmall" not in o:
            ctx.violation("a header beyond the window limit is refused in buffered mode but not with ZSTD_d_stableOutBuffer=1: %s -> %s" % (ln[:120], o[:100]), dict(kind="monitor", op=ln, result=o))
            break
    rcm, mout, merr = zv.run([zv.driver_exe(), "mem"], "\n".join("dhdr %s %d %d 0" % (ln.split()[2], m[1], m[3]) for ln, m in zip(hl, hmeta)) + "\n", timeout=600)
    hverd = {}
    for ln, o, m, mline in zip(hl, houts, hmeta, mout.split("\n")):
        mm = re.match(r"verdict=(\w+) held=(\d+) est=(\d+) window=(\S+) fcs=(\S+) bsm=(\d+)", mline)
        if not mm:
            ctx.violation("model driver (dhdr): %s on %s" % (mline[:100], ln[:120]), dict(kind="internal", op=ln), no_input=True); break
        v, held, est = mm.group(1), int(mm.group(2)), int(mm.group(3))
        acc, ok = v != "refused", o.startswith("ok")
        hverd[(m[0], v, ok)] = hverd.get((m[0], v, ok), 0) + 1
        short = "%s limit=%d header=%s window=%s content-size-field=%s" % (m[0], m[1], ln.split()[2][:34], mm.group(4), mm.group(5))
        pm = re.search(r"peak=(\d+) sizeof=(\d+) live=(\d+) est=(\d+)(?: bigreq=(\d+))?", o)
        if pm and pm.group(5):
            ctx.violation("streaming decoder asked its allocator for %s bytes, ZSTD_estimateDStreamSize(limit) = %s (%s)" % (pm.group(5), pm.group(4), short), dict(kind="monitor", op=ln, result=o, model=mline))
            continue
        if acc != ok:
            ctx.violation("decoder window limit, hand-written header: model says %s, decoder says %s (%s)" % (v, o[:80], short), dict(kind="monitor+tie", op=ln, result=o, model=mline))
            continue
        if not acc and "window_too_large" not in o:
            ctx.violation("frame beyond the window limit refused with the wrong verdict: %s (%s)" % (o[:80], short), dict(kind="monitor", op=ln, result=o, model=mline))
            continue
        if pm:
            peak, szof, live = int(pm.group(1)), int(pm.group(2)), int(pm.group(3))
            if acc and peak > sz_dctx + est:
                ctx.violation("streaming decoder allocated %d bytes > ZSTD_estimateDStreamSize(limit) = %d (%s)" % (peak, sz_dctx + est, short), dict(kind="monitor", op=ln, result=o))
            elif acc and peak != sz_dctx + held:
                ctx.violation("streaming decoder held %d bytes, the sizing model says sizeof(DCtx) %d + buffers %d (%s)" % (peak, sz_dctx, held, short), dict(kind="tie-dbuf", op=ln, result=o, model=mline), no_input=True)
            if szof < live:
                ctx.violation("ZSTD_sizeof_DCtx under-reports: %d < %d live bytes (%s)" % (szof, live, short), dict(kind="monitor", op=ln, result=o))
    ev += len(hl); distinct |= set(hl)
    # ---------- sizeof_* >= live ----------
    sl = []
    for i in range(40 if quick else 600):
        sl.append("csizeof %s %d %d %d" % (frames.pstr({k: v for k, v in frames.param_vector(rng, True, allow_fmt=False).items() if k not in (400, 401, 402, 500)}), rng.choice([0, 1000, 100000, 400000]), rng.randrange(1 << 30), rng.choice([0, 0, 100, 5000, 120000])))
    outs2 = frames.parallel(lambda ch: frames.run_lines(exe_m, ch, timeout=3000)[1], frames.split_chunks(sl, 16))
    for ln, o in zip(sl, outs2):
        for what, a, b in re.findall(r"(cctx|cdict|ddict) sizeof=(\d+) live=(\d+)", o):
            if int(a) < int(b):
                ctx.violation("ZSTD_sizeof_%s under-reports: %s < %s live bytes: %s" % (what, a, b, ln[:160]), dict(kind="monitor", op=ln, result=o))
        if re.search(r"leaks=[1-9]", o):
            ctx.violation("object freed but allocations remain: %s -> %s" % (ln[:160], o), dict(kind="monitor", op=ln, result=o))
    ev += len(sl); distinct |= set(sl)
    # ---------- the multiple-DDict set in ZSTD_sizeof_DCtx; static decoding contexts and the entry points that would need an internal DDict ----------
    import ddset
    dsl = ddset.run(ctx, "C14", dict(sizeof=ddset.gen_sizeof(rng, 30 if quick else 400), static=ddset.gen_static(rng, 40 if quick else 600)),
                    only=dict(sizeof={"sizeof", "crash", "leak", "short"}))
    ev += len(dsl); distinct |= set(dsl)
    # ---------- static dictionaries of exactly the estimated size ----------
    dl2 = ["sdict %d %d %d %d" % (rng.choice([1, 3, 5, 9, 13, 19]), rng.choice([0, 1, 7, 8, 9, 63, 100, 1001, 4093, 65537, 112640]) + rng.randint(0, 7), rng.randint(0, 1), rng.randrange(1 << 30)) for _ in range(90 if quick else 1500)]
    outs3 = frames.parallel(lambda ch: frames.run_lines(exe_m, ch, timeout=3000)[1], frames.split_chunks(dl2, 16))
    if len(outs3) != len(dl2):
        ctx.violation("static dictionary harness crashed (%d of %d lines answered)" % (len(outs3), len(dl2)), dict(kind="monitor", ops=dl2[len(outs3):len(outs3) + 1]))
    for ln, o in zip(dl2, outs3):
        if not o.startswith("ok"):
            ctx.violation("static dictionary in a block of exactly the estimated size: %s -> %s" % (ln, o), dict(kind="monitor", op=ln, result=o))
    ev += len(dl2); distinct |= set(dl2)
    # ---------- sequences of frames with different buffer needs through ONE decoding context ----------
    hd = frames.harness("plain")
    cl, cmeta = [], []
    for i in range(40 if quick else 500):
        fr = []
        for k in range(rng.choice([2, 2, 3])):
            wl = rng.choice([10, 13, 16, 17, 18, 20])
            n = rng.choice([3000, 60000, 100000, 250000])
            kindd = rng.choice(["text", "noisy"])
            data = bytes(rng.choice(b"etaoin shrdlu,.\n") for _ in range(n)) if kindd == "text" else bytes(rng.getrandbits(8) if rng.random() < 0.85 else 32 for _ in range(n))
            p = {100: rng.choice([1, 3, 5]), 101: wl, 200: rng.choice([0, 1])}
            fr.append((p, data))
            cl.append("comp2 c2 %s %s" % (frames.pstr(p), data.hex()))
        cmeta.append(fr)
    # directed: frame A keeps a small input buffer but a large ring; frame B needs a larger input buffer and a smaller total
    for i in range(14 if quick else 200):
        wa = rng.choice([14, 15, 16])
        na = (1 << wa) * rng.choice([2, 3])
        nb = rng.randint((1 << wa) + 2000, min(131072, (1 << wa) * 2 - 3000))
        A = ({100: rng.choice([1, 3]), 101: wa, 200: 0}, bytes(rng.choice(b"etaoin shrdlu,.\n") for _ in range(na)))
        B = ({100: 1, 101: 17, 200: 1}, bytes(rng.getrandbits(8) if rng.random() < 0.9 else 32 for _ in range(nb)))
        fr = [A, B] if rng.random() < 0.8 else [B, A, B]
        for p, data in fr:
            cl.append("comp2 c2 %s %s" % (frames.pstr(p), data.hex()))
        cmeta.append(fr)
    rc, cout, err = frames.run_lines(hd, cl, timeout=1800)
    it = iter(cout)
    ql, qmeta = [], []
    for fr in cmeta:
        blobs, plain = [], b""
        bad = False
        for p, data in fr:
            o = next(it, "")
            if o.startswith("err") or not o:
                bad = True; continue
            blobs.append(bytes.fromhex(o.strip())); plain += data
        if bad or not blobs:
            continue
        stream = b"".join(blobs)
        chunks = rng.choice(["1000", "4096", "70000", "333,70000"])
        for mode in ("dstatic %d" % (1 << 20), "dheap 27"):
            oc = rng.choice(["30000", "100000,7"])
            ql.append("%s %s %s %s" % (mode, stream.hex(), chunks, oc))
            # the buffer-size tie is only meaningful when no frame can take the single-pass shortcut (content size known, output room >= content, whole frame in one call)
            noshort = (oc == "30000") and all(p.get(200) == 0 or len(data) > 30000 for p, data in fr)
            qmeta.append((len(plain), plain, [b.hex() for b in blobs], 30000, 0 if noshort else 1))
    qo = frames.parallel(lambda ch: frames.run_lines(exe_m, ch, timeout=3000)[1], frames.split_chunks(ql, 16))
    import hashlib
    dq = ["dseq %d %d %s" % (m[3], m[4], " ".join(m[2])) for m in qmeta]
    rcq, mq, eq = zv.run([zv.driver_exe(), "mem"], "\n".join(dq) + "\n", timeout=900)
    mq = mq.split("\n")
    for ln, o, (n, plain, blobs, firstout, whole), mline in zip(ql, qo, qmeta, mq):
        if not o.startswith("ok %d " % n):
            ctx.violation("frames with different buffer needs through one %s decoding context: %s instead of %d bytes (each frame decodes alone)" % (ln.split()[0], o[:100], n), dict(kind="monitor", op=ln[:200000], result=o))
            continue
        mb = re.search(r"bufs=(\S+)", o)
        if mb and whole == 0 and mb.group(1) != mline.strip() and mb.group(1) != "-":
            ctx.violation("stream buffer sizes after each frame differ from the sizing model: code %s / model %s (%s, %d frames)" % (mb.group(1), mline.strip(), ln.split()[0], len(blobs)), dict(kind="tie-dbuf-seq", op=ln[:200000], code=mb.group(1), model=mline.strip()), no_input=True)
    ev += len(ql); distinct |= set(ql)
    return dict(evaluations=ev, distinct_nontrivial=len(distinct),
                rule="est lines (random cParams x {cctx,cstream}); ws scenarios (static/heap x one-shot/stream x misalignment x 1..150 uses with levels l<=L or explicit parameter sets incl. LDM, row finder, maxBlockSize, external producer) "
                     "with every use compared field by field with the Lean workspace model; decoder frames (window 1 KiB..3.5 MiB incl. mantissas, FCS present/absent, single segment) x limits at / around the window; hand-written headers (content sizes of every field width up to 2^64-1, descriptors 10..41) x limits set by bytes / by log / static, decided by the model from the header bytes; "
                     "static contexts sized by estimate*_usingCParams used with exactly those cParams at source sizes around each power of two x row finder auto/on/off; sizeof lines. distinct = distinct op lines",
                samples=samples[:4], ws_use_lines=len(uselines), usingCParams_static_uses=ncov, stream_auto_uses_outside_cover_hypothesis=nfl[0], hostile_header_ops=nhh, level_covers_hypothesis_checked=stats_lv[0], decoder_verdicts={"%s model=%s decoded=%s" % k: v for k, v in verd.items()},
                hostile_header_verdicts={"%s model=%s decoded=%s" % k: v for k, v in sorted(hverd.items())})


def replay(ctx, data):
    op = data.get("op", "")
    if op.startswith("ddh "):
        import ddset
        return ddset.replay(ctx, data)
    if op.startswith("ws") or op.startswith("est"):
        rc, out, err = frames.run_lines(hx_ws(), [op])
    else:
        rc, out, err = frames.run_lines(hx_mem("plain"), [op])
    bad = rc != 0 or any(("rc=" in o and "rc=ok" not in o) or " rt=0" in o for o in out)
    mline = data.get("model") or ""
    if op.split(" ")[0] in ("dstatic", "dheap", "dheapw") and isinstance(mline, str) and mline.startswith("verdict=") and out:
        refused = mline.startswith("verdict=refused")
        o = out[0]
        bad = bad or "bigreq=" in o or refused != (not o.startswith("ok")) or (refused and "window_too_large" not in o)
    return dict(violates=bad, result=out)
