"""C10 — streaming calls always progress; a completed flush is decodable; hints are exact.  (a) every observed compress / decompress call
with input and output space consumed or produced something, and every history finished; (b) at every point where compressStream2(flush)
returned 0 the bytes emitted so far decode (independent Lean prefix decoder, and the library's streaming decoder) to exactly the input
consumed so far - single- and multi-threaded; (c) a decoder fed exactly the sizes it asks for asks for exactly the frames: tied to the
pacing model Stream.hints."""
import build, zv, frames, datagen

ASSUMPTIONS = ["multithreaded progress depends on the OS scheduler: sampled, with jobs large enough that a worker is still busy when the caller flushes",
               "hint sequences are compared on their first 12 requests per stream (the harness prints 12)"]


def correspondence(ctx):
    rng = ctx.rng
    exe = frames.harness()
    n = 250 if ctx.quick() else 5000
    lines, cases = [], []
    for i in range(n):
        mt = i % 4 == 0
        if mt and i % 8 == 0:
            # worker still busy at flush time: one worker, slow level, several job-sized pushes then a flush
            x = datagen.gen(rng, 1 << 20)[1]
            x = (x * (1 + (1 << 20) // max(1, len(x))))[: rng.choice([1 << 20, 1500000])]
            p = {100: rng.choice([15, 17, 19]), 400: 1, 401: 524288, 101: rng.choice([17, 18])}
            ins = rng.choice(["1048576", "524288,524288", "700000,300000,100"]); outs = "10000000"; dirs = rng.choice(["cf", "ccf", "cfe"])
        else:
            kind, x = datagen.gen(rng, 400000 if i % 5 == 0 else 30000)
            p = frames.param_vector(rng, True, allow_fmt=False)
            if mt:
                p[400] = rng.randint(1, 3)
                if rng.random() < 0.5: p[401] = 524288
            ins = ",".join(str(rng.choice([1, 7, 100, 4096, 65536, 131072, 200000, 1000000])) for _ in range(rng.randint(1, 4)))
            outs = ",".join(str(rng.choice([1, 50, 4096, 131072, 1000000])) for _ in range(rng.randint(1, 3)))
            dirs = "".join(rng.choice("ccfffe") for _ in range(rng.randint(1, 6)))
        if i % 25 == 6:
            # worker threads, many small flushes while the caller offers NO output room (jobs pile up until the job table is full), then room
            kind, x = datagen.gen(rng, rng.choice([60000, 120000, 200000]))
            x = (x * (1 + 60000 // max(1, len(x))))[:200000]
            p = {100: rng.choice([1, 1, 3]), 400: rng.choice([1, 1, 2, 3])}
            if rng.random() < 0.3: p[201] = 1
            ins = str(rng.choice([1000, 4000, 4000, 9000])); k_ = rng.choice([4, 5, 6, 7, 9, 12])
            outs = ",".join(["0"] * k_ + [rng.choice(["1000000", "1000000", "512"])]); dirs = "f"; mt = True
        lines.append("cstream %s %s %s %s %s" % (frames.pstr(p), frames.hx(x), ins, outs, dirs)); cases.append(x)
    out = frames.parallel(lambda ch: frames.run_lines(exe, ch, timeout=1800)[1], frames.split_chunks(lines, 8))
    ev, nflush = 0, 0
    pl, pmeta = [], []
    frs = []
    for x, ln, o in zip(cases, lines, out):
        ev += 1
        rep = dict(kind="monitor", op=ln[:40000000], result=o[-300:])
        if o.startswith("err"):
            if "parameter" not in o:
                ctx.violation("streaming compression failed: %s" % o, rep)
            continue
        if o.startswith("TIMEOUT") or not o.split() or any(ch not in "0123456789abcdef-" for ch in o.split()[0]):
            ctx.violation("a streaming compression history did not finish (no return within the per-operation alarm): %s" % ln[:120], rep)
            continue
        f = o.split()[0]
        fb = bytes.fromhex(f) if f != "-" else b""
        frs.append((fb, x))
        tail = o[len(f):]
        if "noprogress=0" not in tail:
            ctx.violation("a compressStream2 call with consumable input and writable output neither consumed nor produced: %s" % tail[-120:], rep)
        if int(tail.split("calls=")[1].split()[0]) >= 3999999:
            ctx.violation("the stream did not finish within the call budget", rep)
        fl = tail.split("flushes=")[1].split()[0]
        pts = [] if fl == "-" else [tuple(map(int, z.split(":"))) for z in fl.split(";")]
        for (cons, prod) in sorted(set(pts))[:6]:
            pl.append((cons, prod, fb, x, ln)); nflush += 1
    # (b) flush points
    m = frames.parallel(lambda ch: frames.model_lines(ch), frames.split_chunks(["decprefix %d %s" % (c, frames.hx(fb[:pr])) for c, pr, fb, x, ln in pl], 16))
    cdec = frames.parallel(lambda ch: frames.run_lines(exe, ch)[1], frames.split_chunks(["decs %d %s 100000 100000" % (c, frames.hx(fb[:pr])) for c, pr, fb, x, ln in pl], 16))
    w = frames.parallel(lambda ch: frames.run_lines(exe, ch)[1], frames.split_chunks(["xxh " + frames.hx(x[:c]) for c, pr, fb, x, ln in pl], 16))
    for (c, pr, fb, x, ln), a, b, ww in zip(pl, m, cdec, w):
        ev += 2
        rep = dict(kind="monitor", op=ln[:40000000], consumed=c, produced=pr, lean_prefix_decoder=a, library_stream_decoder=b[:120], expected=ww)
        if " ".join(b.split()[:3]) != ww:
            ctx.violation("flush reported complete after %d input bytes but the %d bytes emitted so far decode (library) to %r, expected %r" % (c, pr, " ".join(b.split()[:3]), ww), rep)
        elif a != ww:
            ctx.violation("flush point: independent prefix decoder gives %r, expected %r" % (a, ww), dict(rep, kind="tie", correspondence="Frame.decompressPrefix vs library"), no_input=True)
        if len(ctx.violations) >= 5:
            break
    # (a) decoder progress + (c) hints on compositions
    comps = []
    for _ in range(min(len(frs), 200 if ctx.quick() else 3000)):
        parts, content = [], b""
        for _ in range(rng.randint(1, 3)):
            if rng.random() < 0.3:
                pl_ = datagen.randbytes(rng, rng.choice([0, 1, 2, 3, 40]))
                parts.append((0x184D2A50 + rng.randrange(16)).to_bytes(4, "little") + len(pl_).to_bytes(4, "little") + pl_)
            else:
                fb, x = rng.choice(frs)
                if len(fb) < 300000:
                    parts.append(fb); content += x
        if parts:
            comps.append((b"".join(parts), content))
    # (a third of them with decompression parameters set: checksum verification off, small block-size limit hint, ...: pacing must not change)
    hl = ["dechint %d %s %d%s" % (len(c), frames.hx(f), rng.choice([1 << 24, 7, 333, 4096, 40000, 131072]), rng.choice(["", "", " dp=1002=1", " dp=1002=1", " dp=1004=1"])) for f, c in comps]
    hres = frames.parallel(lambda ch: frames.run_lines(exe, ch, timeout=1800)[1], frames.split_chunks(hl, 16))
    hm = frames.parallel(lambda ch: frames.model_lines(ch), frames.split_chunks(["hintsm %d %s" % (len(c), frames.hx(f)) for f, c in comps], 16))
    hw = frames.parallel(lambda ch: frames.run_lines(exe, ch)[1], frames.split_chunks(["xxh " + frames.hx(c) for f, c in comps], 16))
    for (f, c), ln, r, mm, ww in zip(comps, hl, hres, hm, hw):
        ev += 1
        rep = dict(kind="monitor", op=ln[:40000000], result=r[:300], model_hints=mm)
        if not r.startswith("ok") or "overask=1" in r or ("consumed=%d " % len(f)) not in r or "lastret=0" not in r or " ".join(r.split()[:3]) != ww:
            ctx.violation("decoder fed exactly the sizes it asks for did not consume exactly the frames: %s (stream of %d bytes)" % (r[:200], len(f)), rep)
        elif (" %d" % (1 << 24)) in ln[-24:] and mm.startswith("ok"):
            got = r.split("hints=")[1].split()[0].split(",")
            exp = mm[3:].split(",")
            if got[:len(exp)] != exp[:len(got)]:
                ctx.violation("hint sequence %s differs from the pacing model %s" % (",".join(got), mm[3:]), dict(rep, kind="tie", correspondence="Stream.hints vs ZSTD_decompressStream return values"), no_input=True)
        if len(ctx.violations) >= 8:
            break
    # (c') a frame abandoned in the middle of a block (session reset / re-init), then another frame decoded by following the hints
    al, ameta = [], []
    big = [(fb, x) for fb, x in frs if 3000 < len(fb) < 300000]
    for _ in range(60 if ctx.quick() else 800):
        if not big:
            break
        fa, xa = rng.choice(big); fb2, xb = rng.choice(frs)
        if len(fb2) >= 300000:
            continue
        cut = rng.randrange(20, len(fa) - 1)
        al.append("decabandon %s %d %d %s %d" % (frames.hx(fa), cut, rng.randint(0, 1), frames.hx(fb2), rng.choice([1, 7, 100, 1000, 5000])))
        ameta.append(xb)
    ares = frames.parallel(lambda ch: frames.run_lines(exe, ch, timeout=1800)[1], frames.split_chunks(al, 16))
    aw = frames.parallel(lambda ch: frames.run_lines(exe, ch)[1], frames.split_chunks(["xxh " + frames.hx(x) for x in ameta], 16))
    for ln, r, ww in zip(al, ares, aw):
        ev += 1
        if " ".join(r.split()[:3]) != ww or "hintsBeyond=1" in r:
            ctx.violation("after an abandoned frame and a reset, a valid frame fed by following the decoder's requests: %s (expected %s)" % (r[:120], ww), dict(kind="monitor", op=ln[:40000000], result=r[:300]))
            break
    # deterministic model of ZSTD_decompressStream (Model/DStream.lean; theorems dstream_progress / dstream_no_livelock / dstream_calls_bounded):
    # per-call consumed / produced / exact return value (= the input hint) against the real code, hinted feeding included
    import ent_dstream
    nb_ = len(ctx.violations)
    dsr = ent_dstream.run(ctx)
    for v_ in ctx.violations[nb_:]:
        v_["replay"] = dict(v_.get("replay") or {}, ent="dstream")
    import ent_cstream
    nb_ = len(ctx.violations)
    csr = ent_cstream.run(ctx)
    for v_ in ctx.violations[nb_:]:
        v_["replay"] = dict(v_.get("replay") or {}, ent="cstream")

    return dict(dstream_model_tie=dsr, cstream_model_tie=csr, evaluations=ev, distinct_nontrivial=len({l[:150] + str(len(l)) for l in lines}),
                rule="compression call histories (single-threaded and 1-3 workers; a profile with one slow worker and job-sized pushes followed by flush) with every completed flush checked by the prefix decoder; "
                     "hint-following decoding of compositions with skippable frames at several output chunk sizes; distinct = distinct call lines",
                samples=[dict(op=" ".join(lines[0].split()[:2]) + " ... " + " ".join(lines[0].split()[3:]), result=out[0][-80:])], flush_points_checked=nflush, hint_runs=len(hl))


def replay(ctx, data):
    if data.get("ent") == "dstream":
        import ent_dstream
        return ent_dstream.replay(ctx, data)
    if data.get("ent") == "cstream":
        import ent_cstream
        return ent_cstream.replay(ctx, data)
    exe = frames.harness()
    rc, out, err = frames.run_lines(exe, [data["op"]])
    return dict(violates=True, note="re-executed", result=[o[-300:] for o in out])
