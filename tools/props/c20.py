"""C20 — seekable format.  Archives built by the real seekable compressor under call histories (chunking, explicit endFrame points, tiny
output buffers so that endFrame / the seek-table writer resume mid-way, maxFrameSize 1..2^20, checksums on/off, > 21845 frames) are
(1) decoded whole by the library and by the independent Lean decoder (frames + skippable table), (2) loaded by the real reader and by
the Lean model Seekable.load: accessors at indices 0..n+1 and offsetToFrameIndex at boundary positions must agree, (3) read through
memory / FILE* / callback access at random, sequential, backwards, boundary-straddling, zero-length and end-of-content ranges: every
read must return exactly those bytes; (4) corrupted archives in the ASan+UBSan build: error or checksum-detected, never a crash.
(5) checksum column: the entries of every archive's table, read from the raw bytes, against Seekable.expectedChecksums (the low 32 bits of XXH64 over each frame's
share of the SOURCE, derived from the table's cut alone: no call history in it), and each frame decoded on its own by a regular decoder and by
ZSTD_seekable_decompressFrame (cks).  Directed family partial_consumption_ops: frames longer than one 128 KiB block written through output windows far smaller than a
compressed block, so that the inner ZSTD_compressStream takes LESS than the chunk it is offered and the caller re-presents the rest (counted by the harness:
partial=<calls>); every input chunking, checksums on, frame sizes 128 KiB+1 .. 2^30 / default, explicit endFrame points."""
import os
import build, zv, frames, datagen

ASSUMPTIONS = ["reads with offset+length beyond the content are outside the property's quantifier (they are clamped by the reader); only verdicts are compared on corrupted archives",
               "the seek-table WRITER model is tied byte for byte: Seekable.serialize of the loaded entries must equal the tail of every archive the real writer produced (tblser)"]
SRC = ["zvh_seek.c", os.path.join(build.REPO, "contrib/seekable_format/zstdseek_compress.c"), os.path.join(build.REPO, "contrib/seekable_format/zstdseek_decompress.c")]


def partial_consumption_ops(rng, quick):
    """Archives whose frames are longer than one block (the seekable compressor always works with 128 KiB blocks once maxFrameSize > 128 KiB), written through output
    windows of 1..4096 bytes: when a block fills up in the middle of an offered chunk, the inner ZSTD_compressStream compresses it, cannot flush it and returns having
    taken only a part of the chunk; the caller re-presents the rest (ZSTD_seekable_compressStream's contract: input->pos says how much was read).  Sizes, frame cut and
    checksums logged for the frame must describe what was consumed.  Incompressible and compressible contents (compressed block larger / smaller than 4 KiB), every
    chunking (whole input at once .. 7-byte chunks: any chunk that straddles a block boundary is cut), frame sizes from one byte above the block size to the maximum and the
    default, with and without explicit endFrame points, checksums on (one in five off)."""
    out = []
    n = 8 if quick else 80
    for j in range(n):
        size = rng.choice([133000, 150000, 200000, 270000, 330000]) + rng.randrange(4000)
        if j % 2 == 0:
            x = datagen.randbytes(rng, size)
        elif j % 4 == 1:
            x = datagen.text(rng, size)
        else:
            x = datagen.gen(rng, size)[1]
            if len(x) < 133000:
                x = x + datagen.randbytes(rng, size - len(x))
        mfs = rng.choice([0, 0, 131073, 140000, 262144, 1 << 20, 1 << 30])
        ck = 0 if j % 5 == 4 else 1
        ins = rng.choice(["1000000", "100000", "150000,7", "4096", "1,100000", "65536,7,100"])
        outs = ",".join(str(rng.choice([1, 2, 3, 9, 64, 1000, 4096])) for _ in range(rng.randint(1, 3)))
        every = rng.choice([0, 0, 0, 140000, 200000])
        out.append(("mk %d %d %d %s %s %s %d %d stat" % (rng.choice([1, 1, 3]), mfs, ck, frames.hx(x), ins, outs, every, rng.choice([0, 0, 300])), x, mfs, ck))
    return out


def correspondence(ctx):
    rng = ctx.rng
    exe = build.link("zvh_seek", SRC, "san")
    dec = frames.harness("plain")
    ev = 0
    lines, meta = [], []
    n = 40 if ctx.quick() else 600
    for i in range(n):
        if i == 0:
            x = datagen.text(rng, 22500); mfs, ck = 1, 1          # > 21845 frames with checksums: the table needs a third buffer refill
        elif i == 1:
            x = datagen.text(rng, 40000); mfs, ck = 2, 0
        else:
            kind, x = datagen.gen(rng, 300000 if i % 5 == 0 else 30000)
            mfs = rng.choice([1, 2, 7, 100, 1000, 1024, 4096, 131071, 131072, 131073, 1 << 20, 0])
            if mfs and len(x) // mfs > 30000:
                mfs = max(mfs, len(x) // 3000 + 1)
            ck = rng.randint(0, 1)
        ins = ",".join(str(rng.choice([1, 7, 100, 4096, 100000, 1000000])) for _ in range(rng.randint(1, 3)))
        outs = ",".join(str(rng.choice([1, 2, 3, 9, 64, 4096, 1000000])) for _ in range(rng.randint(1, 3)))
        if i < 2:
            ins, outs = "100000", "1000000"
        every = rng.choice([0, 0, 1, 50, 3000, 100000])
        prior = rng.choice([0, 0, 1, 300, 5000]) if len(x) else 0        # abandoned earlier session on the same compression object
        lines.append("mk %d %d %d %s %s %s %d %d stat" % (rng.choice([1, 3, 3, 9]), mfs, ck, frames.hx(x), ins, outs, every, prior)); meta.append((x, mfs, ck))
    pc_lines = partial_consumption_ops(rng, ctx.quick())
    for ln_, x_, mfs_, ck_ in pc_lines:
        lines.append(ln_); meta.append((x_, mfs_, ck_))
    pc_set = {ln_ for ln_, _, _, _ in pc_lines}
    outs_ = frames.parallel(lambda ch: [frames.run_lines(exe, ch, timeout=1800)], frames.split_chunks(lines, 16))
    arch = []
    for (rc, out, err), ch in zip(outs_, frames.split_chunks(lines, 16)):
        arch += out + ["err crash"] * (len(ch) - len(out))
        if rc != 0:
            ctx.violation("seekable compressor aborted in the sanitizer build: %s" % err[-500:], dict(kind="monitor", op=ch[min(len(out), len(ch) - 1)][:300000], stderr=err[-2000:]))
    ops, want, kinds, keep = [], [], [], []
    pstat = dict(archives_with_partial_consumption=0, partial_consumption_calls=0, directed_archives=len(pc_lines), directed_with_partial_consumption=0, checksummed_with_partial_consumption=0)
    for (x, mfs, ck), ln, a in zip(meta, lines, arch):
        ev += 1
        aw = a.split()
        if len(aw) == 3 and aw[1].startswith("partial=") and not a.startswith("err"):     # "<hex> partial=<p> calls=<c>" (mk ... stat)
            a = aw[0]; pc = int(aw[1][8:])
            pstat["partial_consumption_calls"] += pc
            if pc:
                pstat["archives_with_partial_consumption"] += 1
                pstat["checksummed_with_partial_consumption"] += 1 if ck else 0
                pstat["directed_with_partial_consumption"] += 1 if ln in pc_set else 0
        if a.startswith("err"):
            ctx.violation("seekable compression failed: %s" % a, dict(kind="monitor", op=ln[:300000])); continue
        n_ = len(x)
        # whole-archive decode by a regular decoder
        ops.append(("dec", "dec %d %s" % (n_, a))); want.append("xxh " + frames.hx(x)); keep.append((x, a, ln))
    res_dec = frames.parallel(lambda ch: frames.run_lines(dec, ch)[1], frames.split_chunks([o[1] for o in ops], 16))
    res_lean = frames.parallel(lambda ch: frames.model_lines(ch), frames.split_chunks([o[1] for o in ops], 16))
    res_want = frames.parallel(lambda ch: frames.run_lines(dec, ch)[1], frames.split_chunks(want, 16))
    for (x, a, ln), c, m, w in zip(keep, res_dec, res_lean, res_want):
        ev += 2
        rep = dict(kind="monitor", op=ln[:300000], archive=a[:300000])
        if c != w:
            ctx.violation("a regular decoder does not regenerate the content from the seekable archive: %r expected %r" % (c, w), rep)
        elif m != w:
            ctx.violation("independent Lean decoder disagrees on the archive: %r expected %r" % (m, w), dict(rep, kind="tie", correspondence="Model/Frame vs library on seekable archive"), no_input=True)
    # table + lookups + reads
    t_ops, r_ops, r_want = [], [], []
    for (x, a, ln) in keep:
        n_ = len(x)
        t_ops.append("tbl " + a)
        pos = sorted(set([0, 1, n_ - 1, n_, n_ + 1, n_ // 2] + [rng.randrange(0, n_ + 2) for _ in range(20)]))
        t_ops.append("idx %s %s" % (a, ",".join(str(p) for p in pos if p >= 0)))
        reads = []
        for _ in range(25 if ctx.quick() else 60):
            k = rng.random()
            if n_ == 0:
                reads.append((0, 0)); continue
            if k < 0.3:
                off = rng.randrange(n_); ln_ = rng.randint(0, min(n_ - off, 5000))
            elif k < 0.5:
                off = rng.randrange(n_); ln_ = n_ - off
            elif k < 0.6:
                off = 0; ln_ = n_
            elif k < 0.7:
                off = rng.randrange(n_); ln_ = 0
            else:
                b = rng.randrange(n_); off = max(0, b - rng.randint(0, 300)); ln_ = min(n_ - off, rng.randint(1, 70000))
            reads.append((off, ln_))
        # backwards + sequential runs
        step = max(1, n_ // 7)
        reads += [(o, min(step, n_ - o)) for o in range(0, n_, step)][:8]
        reads += [(o, min(step, n_ - o)) for o in range(n_ - 1, -1, -step)][:8] if n_ else []
        rs = ",".join("%d:%d" % r for r in reads)
        for mode in "bfc":
            r_ops.append("rd %s %s %s" % (mode, a, rs))
            r_want.append("xxhr %s %s" % (frames.hx(x), rs))
    # writer model byte for byte: serialize(load(archive)) must be the tail of the archive the real writer produced (theorem seektable_roundtrip
    # is about this serializer)
    s_ops = sorted({"tblser " + op_.split()[1] for op_ in t_ops if op_.startswith("tbl ")})
    sm = frames.parallel(lambda ch: frames.model_lines(ch, timeout=3600), frames.split_chunks(s_ops, 16))
    for op_, m in zip(s_ops, sm):
        ev += 1
        if m != "same":
            ctx.violation("seek-table writer model differs from the bytes ZSTD_seekable_writeSeekTable emitted: %s" % m, dict(kind="tie", correspondence="Seekable.serialize vs zstdseek_compress.c", op=op_[:300000], model=m), no_input=True)
            break
    # (5) checksum column: the table's entries as written (raw bytes) against the model's frame log for this source and this cut; every frame decoded on its own by a
    # regular decoder (content of dSize bytes whose XXH64 is the stored checksum) and by the seekable reader's own checksum-verifying ZSTD_seekable_decompressFrame
    k_c = ["cks " + a for (x, a, ln) in keep]
    k_m = ["cks %s %s" % (a, frames.hx(x)) for (x, a, ln) in keep]
    kc = frames.parallel(lambda ch: [frames.run_lines(exe, ch, timeout=1800)], frames.split_chunks(k_c, 16))
    kcf = []
    for (rc, out, err), ch in zip(kc, frames.split_chunks(k_c, 16)):
        kcf += out + ["crash"] * (len(ch) - len(out))
        if rc != 0:
            ctx.violation("frame-by-frame decoding of an archive the seekable compressor wrote crashed (sanitizer build): %s" % err[-500:], dict(kind="monitor", op=ch[min(len(out), len(ch) - 1)][:300000], stderr=err[-2000:]))
    km = frames.parallel(lambda ch: frames.model_lines(ch, timeout=3600), frames.split_chunks(k_m, 16))
    nck = 0
    for (x, a, ln), c, m in zip(keep, kcf, km):
        ev += 1
        rep = dict(kind="monitor", op=ln[:300000], archive=a[:300000])
        cw = c.split()
        if len(cw) != 6 or cw[0] != "ok":
            if c != "crash":
                ctx.violation("the archive's seek table cannot be walked frame by frame: %s" % c[:200], rep)
            continue
        nck += int(cw[1][2:]) if cw[2] == "ck=1" else 0
        if cw[4] != "bad=0":
            ctx.violation("%s of %s frame(s): the frame's compressed slice does not decode to the table's decompressed size, or the table's checksum is not XXH64 (low 32 bits) of the frame's content [%s]" % (cw[4][4:], cw[1][2:], " ".join(ln.split()[:4] + ["<src>"] + ln.split()[5:])), rep)
        elif cw[5] != "rdbad=0":
            ctx.violation("%s of %s frame(s) are refused / returned differently by ZSTD_seekable_decompressFrame although the archive is what the seekable compressor wrote [%s]" % (cw[5][6:], cw[1][2:], " ".join(ln.split()[:4] + ["<src>"] + ln.split()[5:])), rep)
        if " ".join(cw[:4]) != m:
            ce, me = cw[3][2:].split(","), (m.split()[3][2:].split(",") if m.startswith("ok") and len(m.split()) == 4 else [])
            k = next((i for i in range(min(len(ce), len(me))) if ce[i] != me[i]), None)
            what = "frame %d: table holds dSize:checksum %s, the model %s" % (k, ce[k], me[k]) if k is not None else "impl %r model %r" % (" ".join(cw[:3]), m[:80])
            ctx.violation("checksum column of the seek table differs from the model's frame log (low 32 bits of XXH64 over each frame's share of the source): %s [%s]" % (what, " ".join(ln.split()[:4] + ["<src>"] + ln.split()[5:])),
                          dict(rep, correspondence="Seekable.expectedChecksums vs ZSTD_seekable_compressStream / endFrame / logFrame", model=m[:2000], impl=c[:2000]))
        if len(ctx.violations) >= 8:
            break
    tc = frames.parallel(lambda ch: frames.run_lines(exe, ch, timeout=1800)[1], frames.split_chunks(t_ops, 16))
    tm = frames.parallel(lambda ch: frames.model_lines(ch, timeout=3600), frames.split_chunks(t_ops, 16))
    for op_, c, m in zip(t_ops, tc, tm):
        ev += 1
        if c != m:
            ctx.violation("seek table as loaded by the reader differs from the model loader / lookup: impl %r model %r" % (c[:160], m[:160]),
                          dict(kind="tie", correspondence="Seekable.load / offsetToFrameIndex vs zstdseek_decompress.c", op=op_[:300000], impl=c[:2000], model=m[:2000]), no_input=True)
            if len(ctx.violations) >= 6:
                break
    rc_ = frames.parallel(lambda ch: frames.run_lines(exe, ch, timeout=1800)[1], frames.split_chunks(r_ops, 16))
    rw = frames.parallel(lambda ch: frames.run_lines(exe, ch, timeout=1800)[1], frames.split_chunks(r_want, 16))
    nreads = 0
    for op_, c, w in zip(r_ops, rc_, rw):
        ev += 1
        nreads += len(w.split()) - 1
        if c != w:
            cs, ws = c.split(), w.split()
            k = next((i for i in range(1, min(len(cs), len(ws))) if cs[i] != ws[i]), 0)
            rng_txt = op_.split()[-1].split(",")[k - 1] if k else "?"
            ctx.violation("range read (%s access) returned %s, expected %s for range off:len = %s" % ({"b": "memory", "f": "FILE*", "c": "callback"}[op_.split()[1]], cs[k] if k else c[:60], ws[k] if k else w[:60], rng_txt),
                          dict(kind="monitor", op=op_[:300000], got=c[:3000], expected=w[:3000]))
            if len(ctx.violations) >= 8:
                break
    # (4) corruptions
    cops = []
    for (x, a, ln) in keep[:60 if ctx.quick() else 600]:
        ab = bytearray(bytes.fromhex(a))
        if len(ab) < 20 or len(ab) > 200000:
            continue
        for _ in range(6):
            b = bytearray(ab)
            k = rng.random()
            if k < 0.5:
                i = len(b) - 1 - rng.randrange(min(len(b), 60)); b[i] ^= 1 << rng.randrange(8)
            elif k < 0.7:
                i = rng.randrange(len(b)); b[i] = rng.getrandbits(8)
            elif k < 0.85:
                b = b[:rng.randrange(len(b))]
            else:
                b[-9:-5] = rng.choice([0xFFFFFFFF, 0x80000000, 0x15555556, 0x20000000, 1 << 27]).to_bytes(4, "little")   # numFrames lies (U32 overflow of numFrames * entrySize)
            hxb = frames.hx(bytes(b))
            cops.append("tbl " + hxb)
            cops.append("rd b %s 0:%d,%d:10" % (hxb, min(len(x), 4000), max(0, len(x) // 2)))
    # directed: the buffer is only the TAIL of a valid archive (the footer then claims a seek table that starts before the buffer), buffers shorter
    # than the 9-byte footer, and frame counts corrupted upward by small amounts (table a few entries longer than what the buffer holds)
    for (x, a, ln) in keep[:25 if ctx.quick() else 300]:
        ab = bytes.fromhex(a)
        if len(ab) < 30 or len(ab) > 200000:
            continue
        nf = int.from_bytes(ab[-9:-5], "little"); esz = 12 if ab[-5] & 0x80 else 8
        tsz = 8 + nf * esz + 9
        tails = sorted(set([1, 4, 8, 9, 10, 12, 17, max(9, tsz - 1), max(9, tsz - esz), max(9, tsz // 2), rng.randint(9, max(10, min(len(ab), tsz + 20)))]))
        for t in tails:
            if t < len(ab):
                hxb = frames.hx(ab[len(ab) - t:])
                cops.append("tbl " + hxb); cops.append("rd b %s 0:%d" % (hxb, min(len(x), 300)))
        for up in (1, 2, 3, rng.randint(4, 2000), len(ab) // esz + 1):
            b = bytearray(ab); b[-9:-5] = ((nf + up) & 0xFFFFFFFF).to_bytes(4, "little")
            hxb = frames.hx(bytes(b))
            cops.append("tbl " + hxb); cops.append("rd b %s 0:%d" % (hxb, min(len(x), 300)))
    cr = frames.parallel(lambda ch: [frames.run_lines(exe, ch, timeout=1800)], frames.split_chunks(cops, 16))
    cflat = []
    for (rc, out, err), ch in zip(cr, frames.split_chunks(cops, 16)):
        cflat += out + ["crash"] * (len(ch) - len(out))
        if rc != 0:
            ctx.violation("seekable reader crashed / hung on a corrupted archive (sanitizer build): %s" % err[-500:], dict(kind="monitor", op=ch[min(len(out), len(ch) - 1)][:300000], stderr=err[-2000:]))
    cm = frames.parallel(lambda ch: frames.model_lines(ch), frames.split_chunks([c for c in cops if c.startswith("tbl")], 16))
    mi = 0
    for op_, c in zip(cops, cflat):
        ev += 1
        if op_.startswith("tbl") and c != "crash":
            m = cm[mi]; mi += 1
            if c.startswith("ok") != m.startswith("ok"):
                ctx.violation("corrupted seek table: reader verdict %r vs model verdict %r" % (c[:60], m[:60]),
                              dict(kind="tie", correspondence="Seekable.load verdict vs ZSTD_seekable_loadSeekTable", op=op_[:300000], impl=c[:500], model=m[:500]), no_input=True)
        elif op_.startswith("tbl"):
            mi += 1
        if len(ctx.violations) >= 10:
            break
    return dict(evaluations=ev, distinct_nontrivial=len({a for _, a, _ in keep}),
                rule="archives from the real seekable compressor: contents x maxFrameSize in {1,2,7,100,1000,1024,4096,128Ki-1,128Ki,128Ki+1,1Mi,default} x checksum x call histories (input chunks, 1..9-byte output windows, explicit "
                     "endFrame every k bytes) incl. > 21845 frames; whole decode, loader + accessors + lookups vs the Lean model, range reads in memory / FILE* / callback mode vs the source bytes, corrupted archives; distinct = distinct archives",
                samples=[dict(op=" ".join(lines[2].split()[:4]) + " <src> " + " ".join(lines[2].split()[5:]), table=tc[4][:120] if len(tc) > 4 else "")], archives=len(keep), range_reads=nreads, corrupted=len(cops),
                checksummed_frames_tied=nck, **pstat)


def replay(ctx, data):
    exe = build.link("zvh_seek", SRC, "san")
    rc, out, err = frames.run_lines(exe, [data["op"]])
    return dict(violates=True, note="re-executed", result=[o[:300] for o in out], rc=rc, stderr=err[-600:])
