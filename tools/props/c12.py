"""C12 — thread pool.  Tie = trace inclusion: the real pool.c (primitives interposed) runs client programs under
perturbed schedules; every observed critical section (thread, condition-variable actions, snapshot of all shared
fields) must be exactly the step the Lean LTS takes for that thread.  Monitors evaluated by the harness alone:
exactly-once execution, joinJobs postcondition, no hang."""
import os, re
import build, zv

ASSUMPTIONS = [
    "pthread mutex / condition variables behave as modelled (wait releases atomically; signal wakes >= 1 blocked waiter if any; spurious wake-ups possible)",
    "the OS scheduler is sampled (perturbed by seeded yields/sleeps), not enumerated; 'every schedule' is carried by the Lean theorems over the LTS",
    "POOL_free is called when no thread other than the pool's own workers uses the pool; a job still running on a worker may post while POOL_free shuts the pool down "
    "(pool.c provides for it: both POOL_add's wait loop and POOL_add_internal test the shutdown flag) - such a post is dropped and must not be reported as accepted",
]

# scenario corpus: schedules forced with sleeps; they run first on every check
CORPUS = [
    ("joiner+blocked adder (lost wake-up fixed by 775354b)", "pool 1 0\nclient add:1 sleep:100 join sleep:200 barrier join free\nclient sleep:300 add:2\nbody 1 sleep:600\n"),
    ("two joiners + adder", "pool 1 0\nclient add:1 sleep:100 join barrier join free\nclient sleep:200 join\nclient sleep:300 add:2\nbody 1 sleep:600\n"),
    ("resize un-fills hand-off pool (fixed by 7f9b1e5)", "pool 1 0\nclient add:1 sleep:200 resize:2 sleep:300 barrier join free\nbody 1 add:2\n"),
    ("shrink then grow with a queued job that the running job waits for", "pool 2 1\nclient resize:1 add:1 add:2 sleep:200 resize:2 barrier join free\nbody 1 waitdone:2\n"),
    ("jobs posting jobs, full queue", "pool 2 2\nclient add:1 add:2 add:3 add:4 add:5 barrier join free\nbody 1 tryadd:10 tryadd:11\nbody 2 add:12\n"),
    ("free with queued jobs", "pool 1 2\nclient add:1 add:2 add:3 free\nbody 1 sleep:50\n"),
    ("resize 0 is refused", "pool 2 0\nclient resize:0 add:1 resize:3 add:2 resize:1 add:3 barrier join free\n"),
    ("shrink, then grow beyond the original capacity, jobs in flight at free", "pool 3 1\nclient resize:1 add:1 resize:4 add:2 add:3 add:4 add:5 free\nbody 2 sleep:80\nbody 3 sleep:80\nbody 4 sleep:80\n"),
    ("shrink then grow, idle pool", "pool 3 0\nclient resize:1 resize:4 free\n"),
    ("a running job posts with tryAdd while POOL_free shuts the pool down (a dropped post must be answered 0)", "pool 1 2\nclient add:1 free\nbody 1 waitfree tryadd:2 tryadd:3\n"),
    ("two jobs post (tryAdd and add) during POOL_free, a third one is still queued behind them", "pool 2 1\nclient add:1 add:2 tryadd:3 free\nbody 1 waitfree tryadd:4 add:5\nbody 2 tryadd:8 waitfree tryadd:6\nbody 4 tryadd:7\n"),
    ("shrink twice, grow, join, free", "pool 3 2\nclient resize:2 add:1 resize:1 add:2 resize:4 add:3 add:4 barrier join free\nbody 1 sleep:30\n"),
]


def harness(variant="plain"):
    return build.link("zvh_pool", ["zvh_pool.c"], variant, exclude=("pool.c",))


def gen_program(rng, thorough=False):
    t = rng.randint(1, 4 if thorough else 3)
    q = rng.randint(0, 3 if thorough else 2)
    nclients = rng.randint(1, 3)
    jid = [0]
    def newjob():
        jid[0] += 1
        return jid[0]
    resizes = []
    clients = []
    for c in range(nclients):
        ops = []
        for _ in range(rng.randint(1, 8)):
            k = rng.random()
            if k < 0.45:
                ops.append("add:%d" % newjob())
            elif k < 0.65:
                ops.append("tryadd:%d" % newjob())
            elif k < 0.80:
                ops.append("join")
            elif k < 0.92 and c == 0:
                n = rng.randint(0, 4); resizes.append(n); ops.append("resize:%d" % n)
            else:
                ops.append("sleep:%d" % rng.randint(0, 3))
        clients.append(ops)
    minlimit = min([t] + [r for r in resizes if r >= 1])
    njobs = jid[0]
    bodies = {}
    blocking = 0
    for j in range(1, njobs + 1):
        if rng.random() < 0.3:
            ops = []
            for _ in range(rng.randint(1, 2)):
                if rng.random() < 0.4 and blocking + 1 < minlimit:
                    ops.append("add:%d" % newjob()); blocking += 1
                elif rng.random() < 0.8:
                    ops.append("tryadd:%d" % newjob())
                else:
                    ops.append("sleep:%d" % rng.randint(0, 2))
            bodies[j] = ops
    end = rng.random()
    clients[0] += ["barrier", "join", "free"] if end < 0.8 else (["free"] if end < 0.9 and not bodies else ["barrier", "join"])
    txt = "pool %d %d\n" % (t, q) + "".join("client %s\n" % " ".join(o) for o in clients) + "".join("body %d %s\n" % (j, " ".join(o)) for j, o in sorted(bodies.items()))
    return txt


def gen_free_program(rng, thorough=False):
    """family: POOL_free is entered while jobs are still running on the workers, and those jobs post follow-up work (tryAdd / add) during the
    shutdown.  One client (the others would have to be joined first); once the first waiting job is posted the client only uses tryAdd, so it
    can never block behind a job that waits for the free.  Every post answered 1 must have run by the time POOL_free returns."""
    t = rng.randint(1, 4 if thorough else 3)
    q = rng.randint(0, 3 if thorough else 2)
    jid = [0]
    def newjob():
        jid[0] += 1
        return jid[0]
    ops, bodies = [], {}
    for _ in range(rng.randint(0, 3)):                      # plain jobs first
        j = newjob(); ops.append("add:%d" % j)
        if rng.random() < 0.4:
            bodies[j] = ["sleep:%d" % rng.randint(0, 2)]
    waiters = [newjob()]
    ops.append("add:%d" % waiters[0])
    for _ in range(rng.randint(0, 2)):
        j = newjob(); ops.append("tryadd:%d" % j)
        if rng.random() < 0.6:
            waiters.append(j)
    if rng.random() < 0.5:
        ops.append("sleep:%d" % rng.randint(0, 3))
    ops.append("free")
    for w in waiters:
        b = []
        if rng.random() < 0.3:
            b.append("tryadd:%d" % newjob())                 # before the shutdown
        b.append("waitfree")
        for _ in range(rng.randint(1, 3)):
            c = newjob()
            b.append(("tryadd:%d" if rng.random() < 0.7 else "add:%d") % c)
            if rng.random() < 0.3:
                bodies[c] = ["tryadd:%d" % newjob()]
        bodies[w] = b
    return "pool %d %d\nclient %s\n" % (t, q, " ".join(ops)) + "".join("body %d %s\n" % (j, " ".join(o)) for j, o in sorted(bodies.items()))


def run_one(exe, prog, seed, perturb, timeout=60):
    rc, out, err = zv.run([exe], prog + "run %d %d\n" % (seed, perturb), timeout=timeout)
    full = prog + out
    mrc, mout, merr = zv.run([zv.driver_exe(), "pool"], full, timeout=60)
    impl = [l for l in full.split("\n") if l]
    model = [re.sub(r" #model.*$", "", l) for l in mout.split("\n") if l]
    mon = [l for l in impl if l.startswith("monitor")]
    return dict(rc=rc, impl=impl, model=model, monitor=(mon[-1] if mon else "monitor MISSING (exit %d) %s" % (rc, err[-300:])),
                modelstat=(re.findall(r"#model.*$", mout) or [""])[-1])


def examine(ctx, name, prog, seed, perturb, exe, stats):
    r = run_one(exe, prog, seed, perturb)
    stats["runs"] += 1
    stats["sections"] += sum(1 for l in r["impl"] if l.startswith("sec "))
    replay = dict(program=prog, run_seed=seed, perturb=perturb, scenario=name)
    if not r["monitor"].startswith("monitor ok"):
        ctx.violation("C12 monitor on the real pool: %s [%s]" % (r["monitor"], name), dict(kind="monitor", impl_trace=r["impl"][-40:], **replay))
        return False
    d = zv.first_diff(r["impl"], r["model"])
    if d is not None:
        stats["disagreements"].append(dict(first_diff=d, impl=(r["impl"] + ["<missing>"])[d], model=(r["model"] + ["<missing>"])[d], **replay))
        return False
    return True


def correspondence(ctx):
    exe = harness()
    stats = dict(runs=0, sections=0, disagreements=[], families={})
    progs = set()
    # corpus first, several schedules each
    for name, prog in CORPUS:
        for k in range(3 if ctx.quick() else 20):
            examine(ctx, name, prog, ctx.seed * 100 + k, 1 if k else 0, exe, stats)
        progs.add(prog)
    n = 500 if ctx.quick() else 6000
    samples = []
    for i in range(n):
        fam = "free during posts" if i % 7 == 3 else "random program"
        prog = gen_free_program(ctx.rng, not ctx.quick()) if i % 7 == 3 else gen_program(ctx.rng, not ctx.quick())
        progs.add(prog)
        stats["families"][fam] = stats["families"].get(fam, 0) + 1
        ok = examine(ctx, fam, prog, ctx.rng.randint(1, 10**6), 1, exe, stats)
        if i < 2:
            samples.append(dict(program=prog.split("\n"), agreed=ok))
        if len(ctx.violations) >= 3 or len(stats["disagreements"]) >= 3 or ctx.elapsed() > (100 if ctx.quick() else 1500):
            break
    if not ctx.quick():
        # ASan/TSan builds of the same harness on the corpus (use-after-free on free, data races)
        for variant in ("san", "tsan"):
            exv = harness(variant)
            for name, prog in CORPUS:
                rc, out, err = zv.run([exv], prog + "run %d 1\n" % ctx.seed, timeout=120)
                stats["runs"] += 1
                if rc != 0 or "ERROR: AddressSanitizer" in err or "WARNING: ThreadSanitizer" in err or "runtime error" in err:
                    ctx.violation("C12 %s build reports on scenario %s: %s" % (variant, name, err[-600:]), dict(kind="sanitizer", variant=variant, program=prog))
    for d in stats["disagreements"][:3]:
        # tie broken: search for a concrete property failure around it (same program, many schedules; then the corpus)
        found = False
        for k in range(30):
            r = run_one(exe, d["program"], 7000 + k, 1)
            if not r["monitor"].startswith("monitor ok"):
                ctx.violation("trace disagrees with the model AND the monitor fails under another schedule: %s" % r["monitor"],
                              dict(kind="monitor", program=d["program"], run_seed=7000 + k, perturb=1, impl_trace=r["impl"][-40:]))
                found = True
                break
        if not found:
            ctx.violation("critical section differs from the Pool LTS at trace line %d: impl=%r model=%r (scenario %s); no monitor failure found on this program under 30 more schedules"
                          % (d["first_diff"], d["impl"], d["model"], d["scenario"]), dict(kind="tie", correspondence="zvh_pool trace vs Model/Pool.lean", **d), no_input=True)
    return dict(evaluations=stats["runs"], distinct_nontrivial=len(progs),
                rule="client programs from the grammar {add,tryAdd,joinJobs,resize,free} x jobs that post jobs, threads 1..3(4), queue 0..2(3), 1..3 client threads "
                     "(every 7th program: POOL_free entered while running jobs post follow-up work with tryAdd / add during the shutdown), "
                     "each under a seeded perturbed schedule, plus a corpus of sleep-forced schedules; distinct = distinct program texts; every critical section of every run is replayed through the Lean LTS",
                samples=samples, families=stats["families"], critical_sections_replayed=stats["sections"], trace_disagreements=len(stats["disagreements"]))


def replay(ctx, data):
    exe = harness()
    prog = data.get("program")
    if not prog:
        return dict(violates=False, note="no program in replay file", broken=data.get("broken"))
    r = run_one(exe, prog, data.get("run_seed", 1), data.get("perturb", 1))
    d = zv.first_diff(r["impl"], r["model"])
    return dict(violates=(not r["monitor"].startswith("monitor ok")) or d is not None, monitor=r["monitor"], first_diff=d,
                impl=(r["impl"] + [""])[d] if d is not None else None, model=(r["model"] + [""])[d] if d is not None else None)
