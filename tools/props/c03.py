"""C03 — decoding untrusted bytes is memory-safe, bounded and terminating.  Structure-aware mutants of valid frames, random bytes behind
valid magics, arbitrary bytes as dictionaries, multi-DDict lookups with attacker-chosen dictIDs, legacy-format bytes: every decoding
and inspection entry point runs in the ASan+UBSan build on exact-size buffers under a per-operation alarm; verdict and bytes of the
current-format decoder are compared with the independent Lean decoder (Model/Frame.lean).  settings_and_histories: truncation sweeps under
every decompression-parameter setting and histories of frames through static decoding contexts (harness/zvh_c03.c)."""
import build, zv, frames, datagen

ASSUMPTIONS = ["legacy decoders v0.5-v0.7 are not modelled: for legacy magics only the monitors apply (sanitizer, alarm, result <= capacity) - that part is fuzzing and labelled as such",
               "model verdicts tagged lax:* (frames the specification rejects but some library paths tolerate, DESIGN Appendix A) are not compared"]

MAGICS = [b"\x28\xb5\x2f\xfd", b"\x50\x2a\x4d\x18", b"\x27\xb5\x2f\xfd", b"\x26\xb5\x2f\xfd", b"\x25\xb5\x2f\xfd", b"\x37\xa4\x30\xec"]


def mutate(rng, f, others):
    f = bytearray(f)
    k = rng.random()
    if not f:
        return bytes(rng.choice(MAGICS))
    if k < 0.30:
        for _ in range(rng.choice([1, 1, 1, 2, 3])):
            i = rng.randrange(len(f)) if rng.random() < 0.5 else rng.randrange(min(len(f), 40))
            f[i] ^= 1 << rng.randrange(8)
    elif k < 0.45:
        i = rng.randrange(min(len(f), 64)); f[i] = rng.choice([0, 1, 0x7F, 0x80, 0xFF, rng.getrandbits(8)])
    elif k < 0.55:
        f = f[:rng.randrange(len(f))]
    elif k < 0.65:
        i = rng.randrange(len(f)); j = min(len(f), i + rng.randint(1, 40)); f[i:j] = datagen.randbytes(rng, j - i)
    elif k < 0.72:
        i = rng.randrange(len(f)); j = min(len(f), i + rng.randint(1, 300)); del f[i:j]
    elif k < 0.80:
        i = rng.randrange(len(f)); j = min(len(f), i + rng.randint(1, 300)); f[i:i] = f[i:j]
    elif k < 0.90 and others:
        o = rng.choice(others); i = rng.randrange(len(f)); j = rng.randrange(len(o) + 1); f = f[:i] + bytearray(o[j:])
    else:
        f = bytearray(rng.choice(MAGICS) + datagen.randbytes(rng, rng.choice([0, 1, 5, 9, 20, 200, 3000])))
    return bytes(f)


def _data(rng, n):
    return rng.choice(datagen.KINDS + [datagen.mixed, datagen.mixed, datagen.text, datagen.longcopies, datagen.noisecopies])(rng, n)


def announce(f, wlog):
    """the same frame with a larger window announced in its header (window descriptor byte; None when the frame has none): still a valid frame"""
    if len(f) < 6 or f[:4] != MAGICS[0] or (f[4] & 0x20):
        return None
    return f[:5] + bytes([(wlog - 10) << 3]) + f[6:]


def settings_and_histories(ctx, plain):
    """Directed families over decoder SETTINGS and HISTORIES (the random mutants above run with default settings on a fresh session).
    (1) trsweep: every truncation of valid (checksummed / unchecksummed, single / multi-block, concatenated, skippable-separated, magicless, dictionary)
        frames x the cross product of the decompression parameters x {one-shot, DDict one-shot, streaming}, the truncated input ending exactly at the
        end of a heap block (ASan); prefixes that an entry point took for complete are put to the Lean decoder.
    (2) sdhist: static decoding contexts (caller-owned area, exact-size heap block under ASan and canary-surrounded arena) of sizes around the
        estimate, used for histories of frames that need more / exactly / less than the area holds, with every kind of reset between them:
        no access outside the area, and after a reset the verdict equals that of a fresh static context of the same size."""
    import time
    t0 = time.time()
    rng = zv.Rng(ctx.seed * 7919 + 303)
    exe = build.link("zvh_c03", ["zvh_c03.c"], "san")
    q = ctx.quick()
    # ---- (1) frames for the truncation x settings sweep
    cl, meta = [], []
    sizes = [0, 1, 2, 5, 17, 60, 200, 300, 700, 1500, 2500, 4000, 9000, 20000, 20000, 150000] * (2 if q else 12)
    for i, n in enumerate(sizes):
        k = rng.random()
        x = datagen.randbytes(rng, n) if k < 0.25 else _data(rng, n)
        p = {frames.P["level"]: rng.choice([-1, 1, 3, 3, 5, 9]), frames.P["checksum"]: 0 if i % 4 == 3 else 1}
        if rng.random() < 0.4: p[frames.P["contentSize"]] = 0
        if rng.random() < 0.3: p[frames.P["windowLog"]] = rng.choice([10, 11, 14])
        if rng.random() < 0.25: p[frames.P["maxBlockSize"]] = rng.choice([1024, 1024, 4096])
        if rng.random() < 0.2: p[frames.P["litMode"]] = rng.choice([1, 2])
        fmt = 1 if i % 5 == 4 else 0
        if fmt: p[frames.P["fmt"]] = 1
        d = datagen.text(rng, rng.choice([40, 300, 2000])) if i % 6 == 5 else None
        cl.append("comp2 c2 %s %s%s" % (frames.pstr(p), frames.hx(x), (" " + frames.hx(d)) if d else "")); meta.append((x, fmt, d))
    frs = frames.run_lines(plain, cl)[1]
    cases = [(bytes.fromhex(f) if f != "-" else b"", x, fmt, d) for f, (x, fmt, d) in zip(frs, meta) if not f.startswith("err")]
    plainf = [c for c in cases if c[2] == 0 and c[3] is None and len(c[0]) < 3000]
    for _ in range(10 if q else 60):      # concatenations, skippable frames between / behind them
        parts, xs = [], b""
        for j in range(rng.choice([2, 2, 3])):
            f, x, _, _ = rng.choice(plainf); parts.append(f); xs += x
            if rng.random() < 0.4:
                sk = datagen.randbytes(rng, rng.choice([0, 1, 3, 9])); parts.append(bytes([0x50 + rng.randrange(16), 0x2A, 0x4D, 0x18]) + len(sk).to_bytes(4, "little") + sk)
        cases.append((b"".join(parts), xs, 0, None))
    tops = ["trsweep %d %d %s%s" % (fmt, rng.choice([len(x), len(x), len(x) + 64]), frames.hx(f), (" " + frames.hx(d)) if d else "") for f, x, fmt, d in cases]
    # ---- (2) static-context histories
    bl, bx = [], []
    for i in range(12 if q else 60):
        n = rng.choice([3000, 9000, 20000, 40000]) if i % 4 else 150000
        k = rng.random()
        x = _data(rng, n) if k < 0.7 else (datagen.randbytes(rng, n // 2) + datagen.text(rng, n - n // 2))
        p = {frames.P["level"]: rng.choice([1, 3, 5]), frames.P["windowLog"]: (rng.choice([10, 10, 11, 12, 13]) if i % 4 else 17), frames.P["checksum"]: rng.randrange(2)}
        if i % 3: p[frames.P["contentSize"]] = 0
        bl.append("comp2 c2 %s %s" % (frames.pstr(p), frames.hx(x))); bx.append((x, p[frames.P["windowLog"]]))
    bfr = [(bytes.fromhex(f), x, wl) for f, (x, wl) in zip(frames.run_lines(plain, bl)[1], bx) if not f.startswith("err") and f != "-"]
    sops, sinfo = [], []
    for i in range(140 if q else 1400):
        B, x, wl = bfr[i % len(bfr)]
        big = rng.choice([w_ for w_ in (wl + 1, wl + 2, 15, 17, 17, 20, 27) if w_ > wl])
        A = announce(B, big) or B                                                     # valid: a window larger than the frame needs
        fl = [(A, len(x)), (B, len(x))]
        if rng.random() < 0.5:
            B2, x2, wl2 = rng.choice(bfr); fl.append((B2, len(x2)))
        nvalid = len(fl)
        if rng.random() < 0.4:                                                         # untrusted: a mutant, or a window smaller than the frame uses
            fl.append(((announce(B, rng.randint(10, wl - 1)) if wl > 10 and rng.random() < 0.3 else None) or mutate(rng, rng.choice([A, B]), []), len(x)))
        spec = rng.choice(["W%d" % wl, "W%d-8" % wl, "W%d-1" % wl, "W%d-%d" % (wl, rng.randint(1, 3000)), "W%d+%d" % (wl, rng.randint(1, 40)), "W10", "W10-8", "W%d" % max(10, wl - 1),
                           "D+0", "D+%d" % rng.randint(1, 5000), "F1", "F1-8", "F1-%d" % rng.randint(1, 600), "F0-8", "F0-%d" % rng.randint(1, 70000)])
        dp = rng.choice(["-", "-", "-", "-", "1001=1", "100=%d" % rng.choice([10, 11, 17]), "1005=1024", "1002=1", "1004=1"])
        steps = []
        for j in range(rng.randint(3, 7)):
            fi = (j % 2) if j < 3 else rng.randrange(len(fl))                          # begins A, B, A: a frame that does not fit, one that may, again
            rk = "n" if j == 0 else rng.choice("sssiipnno")
            steps.append("%d:%s:%d:%d" % (fi, rk, rng.choice([1000, 1000, 7, 333, 100000, 5000]), rng.choice([4096, 100000, 1000, 65536])))
        for mode in "ea":
            sops.append("sdhist %s %s %s %s %s" % (mode, spec, dp, ",".join(steps), " ".join("%d:%s" % (c, frames.hx(f)) for f, c in fl))); sinfo.append((steps, fl[:nvalid], dp == "-"))
    allops = tops + sops
    def run(idx):
        rc, out, err = frames.run_lines(exe, [allops[i] for i in idx], timeout=900)
        return [(rc, out, err, idx)]
    order = list(range(len(allops))); rng.shuffle(order)
    res = {}
    for rc, out, err, idx in frames.parallel(run, frames.split_chunks(order, 16)):
        for i, o in zip(idx, out):
            res[i] = o
        if rc != 0:
            bad = idx[min(len(out), len(idx) - 1)]
            if out and out[-1] == "TIMEOUT":
                bad = idx[len(out) - 1]
            what = "did not return within its alarm (hang)" if "TIMEOUT" in out else "aborted (sanitizer report / crash)"
            k = err.find("ERROR:")
            ctx.violation("decoding under non-default settings / on a static context %s: %s :: %s" % (what, allops[bad][:100], (err[k:k + 900] if k >= 0 else err[-700:])),
                          dict(kind="monitor", harness="zvh_c03", op=allops[bad][:40000000], stderr=err[-3000:]))
    ev = dict(trsweep_ops=len(tops), trsweep_evals=0, trsweep_accepted_prefixes=0, sdhist_ops=len(sops), sdhist_steps=0, sdhist_steps_compared=0, sdhist_mem_errors=0, sdhist_ok=0)
    # (1) monitors + tie of accepted prefixes
    mlines, mwhat = [], []
    for i, (f, x, fmt, d) in enumerate(cases):
        o = res.get(i)
        if not o or not o.startswith("trsweep n="):
            continue
        kv = dict(w.split("=", 1) for w in o.split()[1:])
        ev["trsweep_evals"] += int(kv["evals"])
        if kv["over"] != "0":
            ctx.violation("a decoding entry point under non-default settings reported more bytes than the capacity it was given", dict(kind="monitor", harness="zvh_c03", op=tops[i][:40000000], result=o))
        if kv["accepted"] != "-":
            for cut in sorted({int(a.split("/")[2]) for a in kv["accepted"].split(",")}):
                cap = len(x) + 64
                mlines.append(("decf 1 %d %s" % (cap, frames.hx(f[:cut]))) if fmt else ("dec %d %s%s" % (cap, frames.hx(f[:cut]), (" " + frames.hx(d)) if d else "")))
                mwhat.append((i, cut, o))
    if mlines:
        for (i, cut, o), mm in zip(mwhat, frames.model_lines(mlines)):
            ev["trsweep_accepted_prefixes"] += 1
            if mm.startswith("err") and not mm.startswith("err lax"):
                ctx.violation("the first %d bytes of a %d-byte valid input were taken for a complete input under some decoder setting (%s); the Lean decoder rejects them: %s" % (cut, len(cases[i][0]), o.split("accepted=")[1], mm),
                              dict(kind="tie", correspondence="decoding entry points under decompression parameters vs Model/Frame.decompressAll", harness="zvh_c03", op=tops[i][:40000000], cut=cut, impl=o, model=mm))
    # (2) monitors of the static-context histories
    # the room test of a static area as the model states it (Model/DBuf.lean: single pass / buffered with max(blockSizeMax,4) + ring, default window limit):
    # valid frames, default settings; asked per step because the single-pass decision depends on the step's chunk sizes
    tl, tkey = [], []
    for j, (steps, vfl, dflt) in enumerate(sinfo):
        for k, st in enumerate(steps):
            fi, rk, ic, oc = st.split(":")
            if dflt and rk != "o" and int(fi) < len(vfl):
                f, cap = vfl[int(fi)]
                tl.append("dhdr %s %d %d %d" % (frames.hx(f[:24]), (1 << 27) + 1, min(int(oc), cap), 1 if int(ic) >= len(f) else 0)); tkey.append((j, k))
    rcm, mout, merr = zv.run([zv.driver_exe(), "mem"], "\n".join(tl) + "\n", timeout=600)
    if rcm != 0 or len(mout.split("\n")) < len(tl):
        raise RuntimeError("lean driver mem (dhdr) failed: " + merr[-400:])
    room = dict(zip(tkey, mout.split("\n")))
    ev["sdhist_steps_vs_model"] = 0
    for j, (steps, vfl, dflt) in enumerate(sinfo):
        o = res.get(len(tops) + j)
        if not o or not o.startswith("sdhist size="):
            continue
        w = o.split()
        if w[3] == "init-null":
            continue
        pairs = w[3:3 + len(steps)]
        tail = dict(t.split("=", 1) for t in w[3 + len(steps):])
        op = sops[j][:40000000]
        if tail.get("canary") != "ok":
            ctx.violation("a static decoding context wrote outside the area it was given (%s = step:offset from the end of the area): %s" % (tail.get("canary"), o[:300]), dict(kind="monitor", harness="zvh_c03", op=op, result=o))
        if tail.get("overcap") != "0":
            ctx.violation("a static decoding context reported positions beyond the buffers it was given: %s" % o[:300], dict(kind="monitor", harness="zvh_c03", op=op, result=o))
        prev_ok = True
        if len(ctx.violations) >= 6:
            break
        avail = int(w[1].split("=")[1]) - int(w[2].split("=")[1])      # area minus the context proper
        for k, (st, pr) in enumerate(zip(steps, pairs)):
            h, f = pr.split("|")
            rk = st.split(":")[1]
            mv = room.get((j, k))
            if mv and (rk != "n" or prev_ok) and mv.startswith("verdict=") and "held=" in mv:
                mkv = dict(t.split("=", 1) for t in mv.split())
                want = "ok" if mkv["verdict"] == "single" or (mkv["verdict"] == "buffered" and int(mkv["held"]) <= avail) else "err:memory_allocation" if mkv["verdict"] == "buffered" else "err"
                ev["sdhist_steps_vs_model"] += 1
                if not h.startswith(want):
                    ctx.violation("static decoding context with %d bytes behind the context proper, step %s of the history: the implementation says %s, the model of the room test (%s) says %s: %s" % (avail, st, h, mv, want, o[:200]),
                                  dict(kind="tie", correspondence="zdss_loadHeader room test of a static context vs Model/DBuf.loadHeader", harness="zvh_c03", op=op, result=o, step=st, model=mv), no_input=not h.startswith("ok"))
                    break
            ev["sdhist_steps"] += 1
            ev["sdhist_mem_errors"] += h == "err:memory_allocation"; ev["sdhist_ok"] += h.startswith("ok")
            # after a reset, after a completed frame, or the one-shot entry point (which does not look at the streaming state); valid frames only: what
            # an INVALID frame runs into may depend on the buffers left by earlier frames (offsets are checked against the history present, not the announced window)
            if (rk != "n" or prev_ok) and int(st.split(":")[0]) < len(vfl):
                ev["sdhist_steps_compared"] += 1
                if h != f:
                    ctx.violation("a static decoding context answers a frame differently after a history than a fresh context of the same size and settings does (step %s: history %s, fresh %s) - "
                                  "the room test of the static area depends on earlier frames: %s" % (st, h, f, o[:300]), dict(kind="monitor", harness="zvh_c03", op=op, result=o, step=st, nvalid=len(vfl)))
                    break
            if rk != "o":
                prev_ok = h.startswith("ok")      # the streaming session is at a frame boundary
    ev["wall_s"] = round(time.time() - t0, 1)
    return ev


def correspondence(ctx):
    exe = frames.harness("san")
    plain = frames.harness("plain")
    rng = ctx.rng
    # seed frames
    seeds = []
    lines = []
    src = []
    for i in range(60 if ctx.quick() else 400):
        kind, x = datagen.gen(rng, 4000 if i % 4 else 150000)
        p = frames.param_vector(rng, True, allow_fmt=False)
        lines.append("comp2 c2 %s %s" % (frames.pstr(p), frames.hx(x))); src.append(x)
    frs = frames.run_lines(plain, lines)[1]
    seeds = [(bytes.fromhex(f) if f != "-" else b"", x) for f, x in zip(frs, src) if not f.startswith("err")]
    # legacy-format seeds (raw-block frames of v0.5 / v0.6 / v0.7, small windows): their mutants reach the legacy decoders' block loops
    import synth
    legacy = [synth.legacy_frame(rng) for _ in range(12 if ctx.quick() else 80)]
    nlegacy = len(legacy)
    seeds = seeds + legacy
    def batch(nmut, nraw, nbig, nover, first):
        """one batch of mutants + directed inputs: generated, run, compared, scored and dropped (the thorough tier's 600000 mutants with their hex forms do not
        fit in memory at once)"""
        ops, info = [], []
        for i in range(nmut):
            f, x = rng.choice(seeds) if i % 8 else rng.choice(legacy)
            m = mutate(rng, f, [s[0] for s in seeds[:20]])
            cap = rng.choice([len(x), len(x), len(x) + 100, max(0, len(x) - 1), 0, 1 << 20])
            hx = frames.hx(m)
            r = rng.random()
            if r < 0.45:
                ops.append("dec %d %s" % (cap, hx)); info.append(("dec", m, cap))
            elif r < 0.70:
                ops.append("decs %d %s %s %s" % (cap, hx, rng.choice(["1", "3,1,100", "100000", "7", "2000"]), rng.choice(["100000", "1", "64,5"]))); info.append(("decs", m, cap))
            elif r < 0.80:
                ops.append("bufless %d %s" % (cap, hx)); info.append(("bufless", m, cap))
            elif r < 0.88:
                ops.append("insp " + hx); info.append(("insp", m, cap))
            elif r < 0.93:
                ops.append("fsize " + hx); info.append(("fsize", m, cap))
            else:
                d = rng.choice(MAGICS[-1:] + [b""]) + datagen.randbytes(rng, rng.choice([0, 4, 8, 40, 300])) + (f[:rng.randint(0, 200)])
                ops.append("ddict " + frames.hx(d)); info.append(("ddict", d, 0))
        # directed VALID inputs (untrusted input includes perfectly valid frames): raw literals referenced in place inside the last block of an
        # exact-size input, short sequences section behind them, long literal runs ending at the end of the literals (over-reading copies)
        nvalid = 0
        for i in range(nraw):
            f, x = synth.rawlit_tail(rng)
            hx = frames.hx(f)
            cap = rng.choice([len(x) + 32, len(x) + 64, len(x) + 1000, len(x), 1 << 20])
            r = i % 4
            if r < 2:
                ops.append("dec %d %s" % (cap, hx)); info.append(("dec", f, cap))
            elif r == 2:
                ops.append("decs %d %s %s %s" % (cap, hx, rng.choice(["100000", "100000", "7,100000"]), "100000")); info.append(("decs", f, cap))
            else:
                ops.append("bufless %d %s" % (cap, hx)); info.append(("bufless", f, cap))
            nvalid += 1
        for n, fid in ((1, 1000), (1, 7), (16, 1003), (17, 5), (48, 1), (63, 99), (64, 200), (65, 1064), (130, 77)):
            ops.append("multidd %d %d" % (n, fid)); info.append(("multidd", b"", 0))
        chunks = frames.split_chunks(list(range(len(ops))), 16)
        def run(idx):
            rc, out, err = frames.run_lines(exe, [ops[i] for i in idx], timeout=900)
            return [(rc, out, err, idx)]
        res = frames.parallel(run, chunks)
        cres = {}
        for rc, out, err, idx in res:
            # multidd prints 2 lines
            k = 0
            for i in idx:
                nl = 2 if ops[i].startswith("multidd") else 1
                cres[i] = out[k:k + nl] if k + nl <= len(out) else None
                k += nl
            if rc != 0:
                # first op without complete output is the culprit
                bad = next((i for i in idx if cres[i] is None or (cres[i] and cres[i][-1] == "TIMEOUT")), idx[-1])
                what = "did not return within its alarm (hang)" if any(o == "TIMEOUT" for o in out) else "aborted (sanitizer report / crash)"
                ctx.violation("decoding entry point %s on untrusted input: %s %s" % (what, ops[bad][:80], err[-600:]),
                              dict(kind="monitor", op=ops[bad][:40000000], stderr=err[-3000:]))
        ev_settings = settings_and_histories(ctx, plain) if first else None
        # the prefetching ("long") sequence decoder, normally reached only behind a cold dictionary or > 16 MiB of history: the sanitizer build with
        # that decoder forced decodes frames with > 64 KiB of literals and a few very long matches (split literal buffer, hand-over among the last
        # sequences) into exact, slightly too small and far too small capacities, plus mutants of those frames and a sample of the other operations
        lexe = frames.harness("seqlongsan")
        lops = []
        for i in range(nbig):
            f, x, hand = synth.biglit_frame(rng, True)
            if i % 3 == 2:
                f = mutate(rng, f, [])
            cap = rng.choice([len(x), len(x) - 1, len(x) - rng.randint(2, 600), len(x) - rng.randint(600, 6000), rng.randrange(0, len(x)), len(x) + 64])
            if hand and hand[1] > 0 and i % 2 == 0:
                # the destination ends inside the literals that the hand-over sequence still has to copy out of the destination-resident part
                cap = hand[0] + rng.randrange(0, hand[1])
            lops.append(rng.choice(["dec %d %s", "dec %d %s", "bufless %d %s"]) % (max(0, cap), frames.hx(f)) if i % 4 else "decs %d %s %s %s" % (max(0, cap), frames.hx(f), rng.choice(["100000", "1000", "7,100000"]), rng.choice(["100000", "1000"])))
        for i in range(nover):
            # invalid frames: the first match fills the destination to a few bytes before its end, the next literal run crosses the hand-over point
            f, cap = synth.overfull_frame(rng)
            lops.append(rng.choice(["dec %d %s", "dec %d %s", "bufless %d %s"]) % (cap, frames.hx(f)) if i % 4 else "decs %d %s %s %s" % (cap, frames.hx(f), "100000", "100000"))
        lops += [ops[i] for i in range(0, len(ops), 25) if ops[i].split()[0] in ("dec", "decs", "bufless")]
        def lrun(idx):
            rc, out, err = frames.run_lines(lexe, [lops[i] for i in idx], timeout=900)
            return [(rc, out, err, idx)]
        for rc, out, err, idx in frames.parallel(lrun, frames.split_chunks(list(range(len(lops))), 16)):
            ev_long = len(out)
            if rc != 0:
                bad = idx[min(len(out), len(idx) - 1)]
                ctx.violation("decoding entry point aborted (sanitizer report / crash) in the build with the prefetching sequence decoder forced: %s %s" % (lops[bad][:80], err[-600:]),
                              dict(kind="monitor", op=lops[bad][:40000000], variant="seqlongsan", stderr=err[-3000:]))
            for i, o in zip(idx, out):
                w = lops[i].split()
                if o.startswith("ok") and w[0] in ("dec", "decs", "bufless") and int(o.split()[1]) > int(w[1]):
                    ctx.violation("%s (prefetching decoder) returned %s bytes for capacity %s" % (w[0], o.split()[1], w[1]), dict(kind="monitor", op=lops[i][:40000000], variant="seqlongsan", result=o))
        # model comparison for one-shot decode + frame size
        mi = [i for i in range(len(ops)) if info[i][0] in ("dec", "fsize")]
        mres = dict(zip(mi, frames.parallel(lambda ch: frames.model_lines(ch), frames.split_chunks([ops[i] for i in mi], 16))))
        verd = {"ok/ok": 0, "err/err": 0, "lax": 0, "legacy": 0}
        ev = 0
        for i in range(len(ops)):
            c = cres.get(i)
            if not c:
                continue
            ev += 1
            kind, m, cap = info[i]
            c0 = c[0]
            if kind in ("dec", "decs", "bufless") and c0.startswith("ok"):
                n = int(c0.split()[1])
                if n > cap:
                    ctx.violation("%s returned %d bytes for capacity %d" % (kind, n, cap), dict(kind="monitor", op=ops[i][:40000000], result=c0))
            if kind == "decs" and "calls=" in c0 and int(c0.split("calls=")[1].split()[0]) >= 1999999:
                ctx.violation("streaming decoder looped without progress", dict(kind="monitor", op=ops[i][:40000000], result=c0))
            if i in mres:
                mm = mres[i]
                if mm.startswith("err lax") :
                    verd["lax"] += 1; continue
                if mm.startswith("err legacy"):
                    verd["legacy"] += 1; continue
                if kind == "fsize":
                    agree = (c0 == mm) or (c0.startswith("err") and mm.startswith("err"))
                else:
                    agree = (c0 == mm) if (c0.startswith("ok") or mm.startswith("ok")) else True
                if agree:
                    verd["ok/ok" if c0.startswith("ok") else "err/err"] += 1
                else:
                    ctx.violation("decoder verdict differs from the independent Lean decoder on a mutated frame: impl=%r model=%r" % (c0, mm),
                                  dict(kind="tie", correspondence="ZSTD_decompress vs Model/Frame.decompressAll", op=ops[i][:40000000], impl=c0, model=mm), no_input=True)
            if kind == "ddict" and "ROUNDTRIP-FAIL" in " ".join(c):
                ctx.violation("a dictionary accepted by both loaders does not round-trip", dict(kind="monitor", op=ops[i][:40000000], result=c))
            if len(ctx.violations) >= 6:
                break
        kinds = {}
        for k, _, _ in info:
            kinds[k] = kinds.get(k, 0) + 1
        return dict(ev=ev, verd=verd, kinds=kinds, distinct={hash(m) for k, m, c in info if len(m) > 8}, settings=ev_settings,
                    samples=[dict(op=ops[j][:90], impl=(cres.get(j) or ["?"])[0][:80], model=mres.get(j, "-")[:60]) for j in (0, 1, 2)])
    if ctx.quick():
        parts = [batch(30000, 400, 120, 60, True)]
    else:
        parts = []
        for bi in range(20):
            parts.append(batch(30000, 300, 100, 50, bi == 0))
            if len(ctx.violations) >= 6:
                break
    ev = sum(p_["ev"] for p_ in parts)
    ev_settings = parts[0]["settings"]
    verd, kinds, distinct = {}, {}, set()
    for p_ in parts:
        for k, v in p_["verd"].items(): verd[k] = verd.get(k, 0) + v
        for k, v in p_["kinds"].items(): kinds[k] = kinds.get(k, 0) + v
        distinct |= p_["distinct"]
    return dict(evaluations=ev + ev_settings["trsweep_evals"] + ev_settings["sdhist_steps"], distinct_nontrivial=len(distinct),
                rule="structure-aware mutants (bit flips biased to headers, byte replacement, truncation, range overwrite / delete / duplicate, splices, random bytes behind zstd / skippable / legacy / dictionary magics) of frames "
                     "from the real compressor; each through one entry point among {decompress, decompressStream under a segmentation, buffer-less decompressContinue, frame inspectors, findFrameCompressedSize, dictionary loaders on both sides} "
                     "plus multi-DDict lookups with unregistered dictIDs at table sizes around the expansion points; ASan+UBSan build, exact-size buffers, 60 s alarm per operation; distinct = distinct mutant bytes > 8; "
                     "plus (settings_and_histories) every truncation of valid frames x the cross product of the decompression parameters x {one-shot, DDict, streaming} from exact-size inputs, and histories of frames through static "
                     "decoding contexts of sizes around the estimate (exact-size heap block and canary arena; verdict after a reset = verdict of a fresh context = room test of Model/DBuf)",
                samples=parts[0]["samples"],
                entry_points=kinds, verdict_agreement=verd, settings_and_histories=ev_settings)


def replay(ctx, data):
    exe = build.link("zvh_c03", ["zvh_c03.c"], "san") if data.get("harness") == "zvh_c03" else frames.harness(data.get("variant") or "san")
    rc, out, err = frames.run_lines(exe, [data["op"]])
    if data.get("harness") == "zvh_c03":
        bad = rc != 0 or not out
        for o in out:
            if "canary=DAMAGED" in o or "overcap=1" in o or "over=1" in o:
                bad = True
            if o.startswith("sdhist"):
                steps = data["op"].split()[4].split(","); prev_ok = True
                for st, pr in zip(steps, o.split()[3:3 + len(steps)]):
                    if "|" not in pr:
                        break
                    h, f = pr.split("|")
                    if (st.split(":")[1] != "n" or prev_ok) and h != f and int(st.split(":")[0]) < data.get("nvalid", 2):
                        bad = True
                    if st.split(":")[1] != "o":
                        prev_ok = h.startswith("ok")
            if o.startswith("trsweep") and data.get("kind") == "tie":
                w = data["op"].split(); f = bytes.fromhex(w[3]) if w[3] != "-" else b""
                for cut in sorted({int(a.split("/")[2]) for a in o.split("accepted=")[1].split(",") if a != "-"}):
                    ml = ("decf 1 %d %s" % (int(w[2]) + 64, frames.hx(f[:cut]))) if w[1] == "1" else ("dec %d %s%s" % (int(w[2]) + 64, frames.hx(f[:cut]), (" " + w[4]) if len(w) > 4 else ""))
                    mm = frames.model_lines([ml])[0]
                    if mm.startswith("err") and not mm.startswith("err lax"):
                        bad = True
        return dict(violates=bad, rc=rc, impl=out, stderr=err[-1500:])
    m = frames.model_lines([data["op"]]) if data["op"].split()[0] in ("dec", "fsize") else None
    return dict(violates=rc != 0 or (m is not None and m[0] != out[0] and (out[0].startswith("ok") or m[0].startswith("ok")) and not m[0].startswith("err lax")), rc=rc, impl=out, model=m, stderr=err[-1500:])
