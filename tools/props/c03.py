"""C03 — decoding untrusted bytes is memory-safe, bounded and terminating.  Structure-aware mutants of valid frames, random bytes behind
valid magics, arbitrary bytes as dictionaries, multi-DDict lookups with attacker-chosen dictIDs, legacy-format bytes: every decoding
and inspection entry point runs in the ASan+UBSan build on exact-size buffers under a per-operation alarm; verdict and bytes of the
current-format decoder are compared with the independent Lean decoder (Model/Frame.lean)."""
import build, zv, frames, datagen

ASSUMPTIONS = ["legacy decoders v0.5-v0.7 are not modelled: for legacy magics only the monitors apply (sanitizer, alarm, result <= capacity) - that part is fuzzing and labelled as such",
               "model verdicts tagged lax:* (frames the specification rejects but some library paths tolerate, DESIGN Appendix A) are not compared"]

MAGICS = [b"\x28\xb5\x2f\xfd", b"\x50\x2a\x4d\x18", b"\x27\xb5\x2f\xfd", b"\x26\xb5\x2f\xfd", b"\x25\xb5\x2f\xfd", b"\x37\xa4\x30\xec"]


def mutate(rng, f, others):
    f = bytearray(f)
    k = rng.random()
    if not f:
        return bytes(rng.choice(MAGICS))
    if k < 0.30:
        for _ in range(rng.choice([1, 1, 1, 2, 3])):
            i = rng.randrange(len(f)) if rng.random() < 0.5 else rng.randrange(min(len(f), 40))
            f[i] ^= 1 << rng.randrange(8)
    elif k < 0.45:
        i = rng.randrange(min(len(f), 64)); f[i] = rng.choice([0, 1, 0x7F, 0x80, 0xFF, rng.getrandbits(8)])
    elif k < 0.55:
        f = f[:rng.randrange(len(f))]
    elif k < 0.65:
        i = rng.randrange(len(f)); j = min(len(f), i + rng.randint(1, 40)); f[i:j] = datagen.randbytes(rng, j - i)
    elif k < 0.72:
        i = rng.randrange(len(f)); j = min(len(f), i + rng.randint(1, 300)); del f[i:j]
    elif k < 0.80:
        i = rng.randrange(len(f)); j = min(len(f), i + rng.randint(1, 300)); f[i:i] = f[i:j]
    elif k < 0.90 and others:
        o = rng.choice(others); i = rng.randrange(len(f)); j = rng.randrange(len(o) + 1); f = f[:i] + bytearray(o[j:])
    else:
        f = bytearray(rng.choice(MAGICS) + datagen.randbytes(rng, rng.choice([0, 1, 5, 9, 20, 200, 3000])))
    return bytes(f)


def correspondence(ctx):
    exe = frames.harness("san")
    plain = frames.harness("plain")
    rng = ctx.rng
    # seed frames
    seeds = []
    lines = []
    src = []
    for i in range(60 if ctx.quick() else 400):
        kind, x = datagen.gen(rng, 4000 if i % 4 else 150000)
        p = frames.param_vector(rng, True, allow_fmt=False)
        lines.append("comp2 c2 %s %s" % (frames.pstr(p), frames.hx(x))); src.append(x)
    frs = frames.run_lines(plain, lines)[1]
    seeds = [(bytes.fromhex(f) if f != "-" else b"", x) for f, x in zip(frs, src) if not f.startswith("err")]
    # legacy-format seeds (raw-block frames of v0.5 / v0.6 / v0.7, small windows): their mutants reach the legacy decoders' block loops
    import synth
    legacy = [synth.legacy_frame(rng) for _ in range(12 if ctx.quick() else 80)]
    nlegacy = len(legacy)
    seeds = seeds + legacy
    nmut = 30000 if ctx.quick() else 600000
    ops, info = [], []
    for i in range(nmut):
        f, x = rng.choice(seeds) if i % 8 else rng.choice(legacy)
        m = mutate(rng, f, [s[0] for s in seeds[:20]])
        cap = rng.choice([len(x), len(x), len(x) + 100, max(0, len(x) - 1), 0, 1 << 20])
        hx = frames.hx(m)
        r = rng.random()
        if r < 0.45:
            ops.append("dec %d %s" % (cap, hx)); info.append(("dec", m, cap))
        elif r < 0.70:
            ops.append("decs %d %s %s %s" % (cap, hx, rng.choice(["1", "3,1,100", "100000", "7", "2000"]), rng.choice(["100000", "1", "64,5"]))); info.append(("decs", m, cap))
        elif r < 0.80:
            ops.append("bufless %d %s" % (cap, hx)); info.append(("bufless", m, cap))
        elif r < 0.88:
            ops.append("insp " + hx); info.append(("insp", m, cap))
        elif r < 0.93:
            ops.append("fsize " + hx); info.append(("fsize", m, cap))
        else:
            d = rng.choice(MAGICS[-1:] + [b""]) + datagen.randbytes(rng, rng.choice([0, 4, 8, 40, 300])) + (f[:rng.randint(0, 200)])
            ops.append("ddict " + frames.hx(d)); info.append(("ddict", d, 0))
    # directed VALID inputs (untrusted input includes perfectly valid frames): raw literals referenced in place inside the last block of an
    # exact-size input, short sequences section behind them, long literal runs ending at the end of the literals (over-reading copies)
    nvalid = 0
    for i in range(400 if ctx.quick() else 6000):
        f, x = synth.rawlit_tail(rng)
        hx = frames.hx(f)
        cap = rng.choice([len(x) + 32, len(x) + 64, len(x) + 1000, len(x), 1 << 20])
        r = i % 4
        if r < 2:
            ops.append("dec %d %s" % (cap, hx)); info.append(("dec", f, cap))
        elif r == 2:
            ops.append("decs %d %s %s %s" % (cap, hx, rng.choice(["100000", "100000", "7,100000"]), "100000")); info.append(("decs", f, cap))
        else:
            ops.append("bufless %d %s" % (cap, hx)); info.append(("bufless", f, cap))
        nvalid += 1
    for n, fid in ((1, 1000), (1, 7), (16, 1003), (17, 5), (48, 1), (63, 99), (64, 200), (65, 1064), (130, 77)):
        ops.append("multidd %d %d" % (n, fid)); info.append(("multidd", b"", 0))
    chunks = frames.split_chunks(list(range(len(ops))), 16)
    def run(idx):
        rc, out, err = frames.run_lines(exe, [ops[i] for i in idx], timeout=900)
        return [(rc, out, err, idx)]
    res = frames.parallel(run, chunks)
    cres = {}
    for rc, out, err, idx in res:
        # multidd prints 2 lines
        k = 0
        for i in idx:
            nl = 2 if ops[i].startswith("multidd") else 1
            cres[i] = out[k:k + nl] if k + nl <= len(out) else None
            k += nl
        if rc != 0:
            # first op without complete output is the culprit
            bad = next((i for i in idx if cres[i] is None or (cres[i] and cres[i][-1] == "TIMEOUT")), idx[-1])
            what = "did not return within its alarm (hang)" if any(o == "TIMEOUT" for o in out) else "aborted (sanitizer report / crash)"
            ctx.violation("decoding entry point %s on untrusted input: %s %s" % (what, ops[bad][:80], err[-600:]),
                          dict(kind="monitor", op=ops[bad][:400000], stderr=err[-3000:]))
    # the prefetching ("long") sequence decoder, normally reached only behind a cold dictionary or > 16 MiB of history: the sanitizer build with
    # that decoder forced decodes frames with > 64 KiB of literals and a few very long matches (split literal buffer, hand-over among the last
    # sequences) into exact, slightly too small and far too small capacities, plus mutants of those frames and a sample of the other operations
    lexe = frames.harness("seqlongsan")
    lops = []
    for i in range(120 if ctx.quick() else 2000):
        f, x, hand = synth.biglit_frame(rng, True)
        if i % 3 == 2:
            f = mutate(rng, f, [])
        cap = rng.choice([len(x), len(x) - 1, len(x) - rng.randint(2, 600), len(x) - rng.randint(600, 6000), rng.randrange(0, len(x)), len(x) + 64])
        if hand and hand[1] > 0 and i % 2 == 0:
            # the destination ends inside the literals that the hand-over sequence still has to copy out of the destination-resident part
            cap = hand[0] + rng.randrange(0, hand[1])
        lops.append(rng.choice(["dec %d %s", "dec %d %s", "bufless %d %s"]) % (max(0, cap), frames.hx(f)) if i % 4 else "decs %d %s %s %s" % (max(0, cap), frames.hx(f), rng.choice(["100000", "1000", "7,100000"]), rng.choice(["100000", "1000"])))
    for i in range(60 if ctx.quick() else 1000):
        # invalid frames: the first match fills the destination to a few bytes before its end, the next literal run crosses the hand-over point
        f, cap = synth.overfull_frame(rng)
        lops.append(rng.choice(["dec %d %s", "dec %d %s", "bufless %d %s"]) % (cap, frames.hx(f)) if i % 4 else "decs %d %s %s %s" % (cap, frames.hx(f), "100000", "100000"))
    lops += [ops[i] for i in range(0, len(ops), 25) if ops[i].split()[0] in ("dec", "decs", "bufless")]
    def lrun(idx):
        rc, out, err = frames.run_lines(lexe, [lops[i] for i in idx], timeout=900)
        return [(rc, out, err, idx)]
    for rc, out, err, idx in frames.parallel(lrun, frames.split_chunks(list(range(len(lops))), 16)):
        ev_long = len(out)
        if rc != 0:
            bad = idx[min(len(out), len(idx) - 1)]
            ctx.violation("decoding entry point aborted (sanitizer report / crash) in the build with the prefetching sequence decoder forced: %s %s" % (lops[bad][:80], err[-600:]),
                          dict(kind="monitor", op=lops[bad][:400000], variant="seqlongsan", stderr=err[-3000:]))
        for i, o in zip(idx, out):
            w = lops[i].split()
            if o.startswith("ok") and w[0] in ("dec", "decs", "bufless") and int(o.split()[1]) > int(w[1]):
                ctx.violation("%s (prefetching decoder) returned %s bytes for capacity %s" % (w[0], o.split()[1], w[1]), dict(kind="monitor", op=lops[i][:400000], variant="seqlongsan", result=o))
    # model comparison for one-shot decode + frame size
    mi = [i for i in range(len(ops)) if info[i][0] in ("dec", "fsize")]
    mres = dict(zip(mi, frames.parallel(lambda ch: frames.model_lines(ch), frames.split_chunks([ops[i] for i in mi], 16))))
    verd = {"ok/ok": 0, "err/err": 0, "lax": 0, "legacy": 0}
    ev = 0
    for i in range(len(ops)):
        c = cres.get(i)
        if not c:
            continue
        ev += 1
        kind, m, cap = info[i]
        c0 = c[0]
        if kind in ("dec", "decs", "bufless") and c0.startswith("ok"):
            n = int(c0.split()[1])
            if n > cap:
                ctx.violation("%s returned %d bytes for capacity %d" % (kind, n, cap), dict(kind="monitor", op=ops[i][:400000], result=c0))
        if kind == "decs" and "calls=" in c0 and int(c0.split("calls=")[1].split()[0]) >= 1999999:
            ctx.violation("streaming decoder looped without progress", dict(kind="monitor", op=ops[i][:400000], result=c0))
        if i in mres:
            mm = mres[i]
            if mm.startswith("err lax") :
                verd["lax"] += 1; continue
            if mm.startswith("err legacy"):
                verd["legacy"] += 1; continue
            if kind == "fsize":
                agree = (c0 == mm) or (c0.startswith("err") and mm.startswith("err"))
            else:
                agree = (c0 == mm) if (c0.startswith("ok") or mm.startswith("ok")) else True
            if agree:
                verd["ok/ok" if c0.startswith("ok") else "err/err"] += 1
            else:
                ctx.violation("decoder verdict differs from the independent Lean decoder on a mutated frame: impl=%r model=%r" % (c0, mm),
                              dict(kind="tie", correspondence="ZSTD_decompress vs Model/Frame.decompressAll", op=ops[i][:400000], impl=c0, model=mm), no_input=True)
        if kind == "ddict" and "ROUNDTRIP-FAIL" in " ".join(c):
            ctx.violation("a dictionary accepted by both loaders does not round-trip", dict(kind="monitor", op=ops[i][:400000], result=c))
        if len(ctx.violations) >= 6:
            break
    kinds = {}
    for k, _, _ in info:
        kinds[k] = kinds.get(k, 0) + 1
    return dict(evaluations=ev, distinct_nontrivial=len({m for k, m, c in info if len(m) > 8}),
                rule="structure-aware mutants (bit flips biased to headers, byte replacement, truncation, range overwrite / delete / duplicate, splices, random bytes behind zstd / skippable / legacy / dictionary magics) of frames "
                     "from the real compressor; each through one entry point among {decompress, decompressStream under a segmentation, buffer-less decompressContinue, frame inspectors, findFrameCompressedSize, dictionary loaders on both sides} "
                     "plus multi-DDict lookups with unregistered dictIDs at table sizes around the expansion points; ASan+UBSan build, exact-size buffers, 60 s alarm per operation; distinct = distinct mutant bytes > 8",
                samples=[dict(op=ops[j][:90], impl=(cres.get(j) or ["?"])[0][:80], model=mres.get(j, "-")[:60]) for j in (0, 1, 2)],
                entry_points=kinds, verdict_agreement=verd)


def replay(ctx, data):
    exe = frames.harness(data.get("variant") or "san")
    rc, out, err = frames.run_lines(exe, [data["op"]])
    m = frames.model_lines([data["op"]]) if data["op"].split()[0] in ("dec", "fsize") else None
    return dict(violates=rc != 0 or (m is not None and m[0] != out[0] and (out[0].startswith("ok") or m[0].startswith("ok")) and not m[0].startswith("err lax")), rc=rc, impl=out, model=m, stderr=err[-1500:])
