"""C09 — truncation, size lies, checksum damage, pledged size.  Tie: Model/Walker.lean (frame extents, pledge bookkeeping) vs
ZSTD_findFrameCompressedSize / ZSTD_decompress / compressStream2; monitors: every cut of every frame stream through the
one-shot and streaming decoders, every bit of the stored checksum, FCS lies, pledges != supplied."""
import build, zv, frames, datagen

ASSUMPTIONS = ["block contents are not interpreted by the walker model (they can only add errors); the content-dependent verdicts come from the monitors",
               "cuts are exhaustive per frame stream for streams <= the size limit of the run"]


CORPUS = [
    ("28b52ffd2005010000", "content size 5 announced, single EMPTY last raw block (fixed in /repo: empty-last-block path lacked the size check)"),
    ("28b52ffd2401010000", "content size 1 announced, empty last block, checksum flag but no checksum bytes"),
    ("28b52ffd6000010100000000", "2-byte content size field 256+1, empty last block"),
]


def make_streams(ctx, exe):
    """list of (description, bytes) : single frames of every header layout, multi-frame, with skippable frames"""
    rng = ctx.rng
    lines, meta = [], []
    n = 60 if ctx.quick() else 250
    for i in range(n):
        kind, x = datagen.gen(rng, 3000 if ctx.quick() else 60000)
        flags = rng.randint(0, 3)
        lv = rng.choice([1, 3, 5, 19])
        lines.append("comp %d %d %s" % (lv, flags, frames.hx(x))); meta.append((kind, x, flags))
    rc, out, err = frames.run_lines(exe, lines)
    fr = [(m, bytes.fromhex(o) if o != "-" else b"") for m, o in zip(meta, out) if not o.startswith("err")]
    streams = []
    for (kind, x, flags), f in fr:
        streams.append(dict(desc="single %s flags=%d" % (kind, flags), data=f, content=x, bounds=[len(f)], checksum=bool(flags & 1), fcs=not (flags & 2)))
    # multi-frame and skippable compositions
    for _ in range(len(fr) // 3):
        parts, bounds, content, pos = [], [], b"", 0
        for _ in range(rng.randint(2, 4)):
            if rng.random() < 0.3:
                pl = datagen.randbytes(rng, rng.choice([0, 1, 2, 3, 10]))
                sk = (0x184D2A50 + rng.randint(0, 15)).to_bytes(4, "little") + len(pl).to_bytes(4, "little") + pl
                parts.append(sk); pos += len(sk); bounds.append(pos)
            else:
                (kind, x, flags), f = rng.choice(fr)
                parts.append(f); pos += len(f); bounds.append(pos); content += x
        streams.append(dict(desc="multi", data=b"".join(parts), content=content, bounds=bounds, checksum=False, fcs=False))
    return streams


def xharness():
    return build.link("zvh_c09x", ["zvh_c09x.c"], "plain")


def run_robust(exe, lines, nchunks=8, timeout=900):
    """answers aligned with the lines; None for a line on which the process hung (alarm) or died - the lines after it go to a fresh process"""
    def one(chunk):
        out, rest = [], list(chunk)
        while rest:
            rc, o, err = frames.run_lines(exe, rest, timeout=timeout)
            o = [x for x in o if x != "TIMEOUT"]
            if len(o) >= len(rest):
                out += o[:len(rest)]; break
            out += o + [None]
            rest = rest[len(o) + 1:]
        return out
    return frames.parallel(one, frames.split_chunks(lines, nchunks))


def pledge_histories(ctx):
    """pledged size against what is really supplied, over explicit call histories with flushes (a flush cuts a job at any size, so with worker
    threads no worker sees the whole frame), small inputs (0 .. 600 KB), pledges above and below, in one call and in chunks, new and legacy entry
    points; the verdict is tied to Walker.Pledge (driver op pledgeh) and a successful frame must announce and hold exactly what was supplied."""
    rng = zv.Rng(ctx.seed * 104729 + 909)
    exe = xharness()
    K = 524288
    hist = []       # (pledge, [(dir, n)], workers, jobSize, nofcs, api)

    def shapes(sup):
        h = sup // 2
        return [[("f", sup)], [("c", h), ("f", sup - h)], [("f", h), ("c", sup - h)], [("f", h), ("e", sup - h)], [("c", sup), ("f", 0)], [("f", sup), ("e", 0)],
                [("c", sup)], [("c", h), ("e", sup - h)], [("f", sup // 3), ("f", sup // 3), ("c", sup - 2 * (sup // 3))], [("e", sup)]]
    # directed grid: worker threads, pledge on both sides of the smallest job size, supplied 0 .. 600 KB
    for workers in (1, 2):
        for pl in (600000, K + 1, 700000, 2000000, K, 300000, 100):
            for sup in (0, 1, 2, 99, 300000, 400000, K, 600000):
                if pl == sup:
                    continue
                for sh in rng.sample(shapes(sup), 3 if ctx.quick() else 10):
                    hist.append((pl, sh, workers, rng.choice([0, K]), 0, 0))
    # exact pledges must keep working, pledges of the legacy initialiser, content-size flag off, unknown size
    for _ in range(60 if ctx.quick() else 1500):
        sup = rng.choice([0, 1, 7, 1000, 131072, 131073, 300000, 400000, K - 1, K, K + 1, 600000])
        pl = rng.choice([sup, sup, sup + 1, max(0, sup - 1), 2 * sup + 3, sup // 2, sup + K, 600000, 700000, K + 1, -1])
        sh = rng.choice(shapes(sup))
        if rng.random() < 0.3:
            sh = [(rng.choice("ccf"), n) for n in [rng.choice([0, 1, sup // 4, sup // 3]) for _ in range(rng.randint(1, 4))]]
            rest = sup - sum(n for d, n in sh)
            sh = sh + [(rng.choice("cfe"), rest)] if rest >= 0 else [("f", sup)]
        hist.append((pl, sh, rng.choice([0, 1, 1, 2, 3]), rng.choice([0, K]), int(rng.random() < 0.2), rng.choice([0, 0, 1, 2])))
    # a burst on one context: empty first jobs that fail in their worker, back to back with other frames (the context must stay usable: no hang, no crash)
    for i in range(120 if ctx.quick() else 1200):
        wk = 1 + i % 2
        hist.append([(600000, [("f", 0), ("e", 0)], wk, 0, 0, 0), (700000, [("c", 0), ("f", 0)], wk, K, 0, 0), (600000, [("f", 0), ("e", 1)], wk, K, 0, 0),
                     (-1, [("f", 0), ("e", 5)], wk, 0, 0, 0), (600000, [("f", 0)], wk, 0, 0, 2)][i % 5])

    def effective(sh, api):
        """the ZSTD_compressStream2 calls a history amounts to: the legacy entry points take input through ZSTD_compressStream only (no call at all for
        an empty input), ZSTD_flushStream / ZSTD_endStream carry none"""
        if api == 0:
            return list(sh)
        out = []
        for d, n in sh:
            if n > 0: out.append(("c", n))
            if d != "c": out.append((d, 0))
        return out
    lines, mlines, effs = [], [], []
    for pl, sh, workers, js, nofcs, api in hist:
        cs = ",".join("%s%d" % dn for dn in sh) or "-"
        eff = effective(sh, api); effs.append(eff)
        lines.append("pledgeh %d %s %d %d %d %d" % (pl, cs, workers, js, nofcs, api))
        mlines.append("pledgeh %d %s" % (-1 if (api == 1 and pl == 0) else pl, ",".join("%s%d" % dn for dn in eff) or "-"))      # ZSTD_initCStream_srcSize: 0 means unknown
    # frames abandoned while their last (possibly empty) job is running, then the context reset and used again: interleaved with the others
    # (an empty first job that fails in its worker, and an abandoned one, must both leave the context usable: a hang or a crash is a violation)
    for _ in range(12 if ctx.quick() else 200):
        k = rng.randrange(len(lines) + 1)
        sup = rng.choice([0, 0, 1, 300000]); wk = rng.choice([1, 1, 2])
        cs = rng.choice(["f0,a%d" % sup, "c0,a%d" % sup, "f%d,a0" % sup, "c%d,f0,a0" % sup])
        hist.insert(k, (rng.choice([600000, 700000, -1]), None, wk, rng.choice([0, K]), 0, 0)); effs.insert(k, None)
        lines.insert(k, "pledgeh %d %s %d %d 0 0" % (hist[k][0], cs, wk, hist[k][3])); mlines.insert(k, "pledgeh -1 -")
    cres = run_robust(exe, lines)
    mres = frames.model_lines(mlines)
    ev = 0
    for k_, (ln, c, m, eff, (pl, sh, workers, js, nofcs, api)) in enumerate(zip(lines, cres, mres, effs, hist)):
        ev += 1
        if c is None:
            ctx.violation("a pledged-size call history never returned, or the process died (worker threads=%d): %s ; lines before it on the same context: %s" % (workers, ln, " | ".join(lines[max(0, k_ - 3):k_])),
                          dict(kind="monitor", op=ln, previous=lines[max(0, k_ - 6):k_], xharness=True))
            continue
        if sh is None:
            if not c.startswith("abandoned") and not c.startswith("err"):
                ctx.violation("abandoned-frame history answered %r: %s" % (c, ln), dict(kind="monitor", op=ln, impl=c, xharness=True))
            continue
        sup = sum(n for d, n in sh)
        mpl = -1 if (api == 1 and pl == 0) else pl
        cok, mok = (c or "").startswith("ok"), m.startswith("ok")
        rep = dict(kind="monitor", op=ln, impl=c, model=m, xharness=True)
        first_is_end = (not eff) or eff[0][0] == "e"
        if not (cok or c.startswith("err")):
            ctx.violation("pledged-size history did not finish: %s -> %s" % (ln, c[:80]), rep); continue
        if cok and mpl >= 0 and mpl != sup:
            ctx.violation("pledged %d bytes, supplied %d (workers=%d, calls %s), compression succeeded: %s" % (pl, sup, workers, ln.split()[2], c), rep,
                          key="C09-pledge-overridden-when-first-call-is-end" if first_is_end else None)
        if cok:
            kv = dict(t.split("=", 1) for t in c.split()[1:])
            if kv["dec"] != "ok" or kv["fed"] != str(sup) or kv["fcs"] not in ("-1", str(sup)):
                ctx.violation("frame produced under a pledge does not hold / announce exactly what was supplied (%d bytes, workers=%d, calls %s): %s" % (sup, workers, ln.split()[2], c), rep)
        if cok != mok:
            ctx.violation("pledge bookkeeping: implementation %r vs model %r on %s" % (c, m, ln), dict(rep, kind="tie", correspondence="Walker.Pledge vs ZSTD_compressStream2"), no_input=True)
        if len(ctx.violations) >= 8:
            break
    return dict(evaluations=ev, histories=len(lines), sample=dict(op=lines[0], impl=cres[0], model=mres[0]))


def _hdr(f, magicless):
    """(window size, content size or None) of a frame header, None when it cannot be read in that format"""
    o = 0 if magicless else 4
    if len(f) < o + 2 or (not magicless and f[:4] != b"\x28\xb5\x2f\xfd"):
        return None
    fhd = f[o]; single = (fhd >> 5) & 1; fcsid = fhd >> 6; did = fhd & 3
    if fhd & 8:
        return None
    pos = o + 1
    win = None
    if not single:
        wd = f[pos]; pos += 1
        e, mnt = wd >> 3, wd & 7
        win = (1 << (10 + e)) + ((1 << (10 + e)) >> 3) * mnt
    pos += [0, 1, 2, 4][did]
    width = [1 if single else 0, 2, 4, 8][fcsid]
    fcs = int.from_bytes(f[pos:pos + width], "little") + (256 if width == 2 else 0) if width else None
    if single:
        win = fcs
    return win, fcs


def dctx_histories(ctx):
    """histories on one ZSTD_DCtx: decompression parameters set, ZSTD_DCtx_reset(session_only | parameters | session_and_parameters), then frames
    decoded.  After every operation ALL parameters are read back and compared with the parameter model (zvdriver params, rows and defaults regenerated
    from the tree); every decoding verdict is compared with what the model's parameter values imply: the independent decoder run with the options in
    force (format, checksum verification, block-size limit; zvdriver dec decopt) and, for streaming, the window limit.  In particular after a reset of
    the parameters a damaged checksum is reported again, a magicless frame is refused, a window above the default limit is refused."""
    rng = zv.Rng(ctx.seed * 15485863 + 77)
    exe = xharness(); dexe = frames.harness()
    dps = ctx.gen["dps"]
    idlist = [p["id"] for p in dps]
    # frames
    c1 = datagen.text(rng, rng.randint(2500, 6000)); c2 = datagen.randbytes(rng, rng.randint(1500, 5000))
    fo = frames.run_lines(dexe, ["comp 3 1 " + c1.hex(), "comp 1 1 " + c2.hex(), "comp 3 5 " + c1.hex(), "comp 3 0 " + c1.hex(), "xxh " + c2.hex(), "comp 1 5 " + c2.hex()])[1]
    if any(o.startswith("err") for o in fo):
        ctx.violation("could not prepare frames for the decoder histories: %r" % [o[:40] for o in fo], dict(kind="internal"), no_input=True)
        return dict(evaluations=0)
    G, R, M, N, MR = bytes.fromhex(fo[0]), bytes.fromhex(fo[1]), bytes.fromhex(fo[2]), bytes.fromhex(fo[3]), bytes.fromhex(fo[5])
    ck = (int(fo[4].split()[2], 16) & 0xFFFFFFFF).to_bytes(4, "little")

    def flipsum(f):
        return f[:-4] + (int.from_bytes(f[-4:], "little") ^ (1 << rng.randrange(32))).to_bytes(4, "little")

    def flipraw(f):
        k = len(f) - 5 - rng.randrange(min(1000, len(c2) - 1)); return f[:k] + bytes([f[k] ^ (1 << rng.randrange(8))]) + f[k + 1:]

    def bigwin(wl):
        return b"\x28\xb5\x2f\xfd" + bytes([0x84, (wl - 10) << 3]) + len(c2).to_bytes(4, "little") + ((len(c2) << 3) | 1).to_bytes(3, "little") + c2 + ck
    #            name, bytes, content size
    fr = [("good", G, len(c1)), ("stored checksum damaged", flipsum(G), len(c1)), ("raw block, good", R, len(c2)), ("content damaged", flipraw(R), len(c2)),
          ("magicless, good", M, len(c1)), ("magicless, stored checksum damaged", flipsum(M), len(c1)), ("window 2^28", bigwin(28), len(c2)), ("window 2^20", bigwin(20), len(c2)),
          ("no checksum", N, len(c1)), ("window 2^28, stored checksum damaged", flipsum(bigwin(28)), len(c2)), ("magicless, content damaged", flipraw(MR), len(c2)), ("window 2^27", bigwin(27), len(c2))]
    DAMAGED = (1, 3, 5, 9, 10)

    def probes(k):
        out = []
        for _ in range(k):
            s_ = rng.randrange(len(fr)); mode = rng.choice("ossm")
            out.append("probe %d %s %d %d" % (s_, mode, fr[s_][2], rng.choice([1, 7, 100, 1000])))
        return out
    after_reset = ["probe 1 o %d 1" % fr[1][2], "probe 1 s %d 7" % fr[1][2], "probe 3 o %d 1" % fr[3][2], "probe 3 s %d 1000" % fr[3][2], "probe 3 m %d 100" % fr[3][2],
                   "probe 4 o %d 1" % fr[4][2], "probe 5 s %d 100" % fr[5][2], "probe 6 s %d 100" % fr[6][2], "probe 9 s %d 1" % fr[9][2], "probe 7 s %d 1000" % fr[7][2],
                   "probe 0 o %d 1" % fr[0][2], "probe 0 m %d 100" % fr[0][2], "probe 2 s %d 7" % fr[2][2], "probe 11 s %d 100" % fr[11][2]]
    hists = []
    # directed: every parameter at every non-default grid value (and all of them together), then each kind of reset, then the whole battery
    vals = {p["id"]: sorted({p["lo"], p["hi"], (p["lo"] + p["hi"]) // 2, p["lo"] + 1} - {p["dflt"]}) for p in dps}
    for r in (2, 3, 1):
        for p in dps:
            for v in vals[p["id"]]:
                mid = probes(2) if rng.random() < 0.5 else []
                hists.append(["new", "set %d %d" % (p["id"], v)] + mid + ["reset %d" % r] + rng.sample(after_reset, 6 if ctx.quick() else len(after_reset)))
        allset = ["set %d %d" % (p["id"], rng.choice(vals[p["id"]])) for p in dps if p["id"] != 1000]
        hists.append(["new"] + allset + ["probe 1 o %d 1" % fr[1][2], "reset %d" % r] + after_reset)
        hists.append(["new"] + allset + ["set 1000 1", "probe 5 o %d 1" % fr[5][2], "reset %d" % r] + after_reset + ["set 1002 1", "reset %d" % r] + after_reset[:4])
    # random histories
    for _ in range(40 if ctx.quick() else 1500):
        h = ["new"]
        for _ in range(rng.randint(4, 14)):
            k = rng.random()
            if k < 0.4:
                p = rng.choice(dps); h.append("set %d %d" % (p["id"], rng.choice(vals[p["id"]] + [p["dflt"], p["hi"] + 1, p["lo"] - 1, 0, 1])))
            elif k < 0.6:
                h.append("reset %d" % rng.choice([1, 2, 2, 3, 3]))
            else:
                h += probes(1)
        hists.append(h + rng.sample(after_reset, 3))
    clines = ["ids " + ",".join(map(str, idlist))] + ["frame %d %s" % (k, f.hex()) for k, (nm, f, n) in enumerate(fr)]
    npre = len(clines)
    mlines = []
    for h in hists:
        for op in h:
            clines.append(op)
            if not op.startswith("probe"):
                mlines.append("new d" if op == "new" else op)
    rc, cout, cerr = frames.run_lines(exe, clines, timeout=900)
    mrc, mout_, merr = zv.run([zv.driver_exe(), "params"], "\n".join(mlines) + "\n", timeout=900)
    mout = mout_.split("\n")
    ev = 0
    if rc != 0 or len(cout) != len(clines) or mrc != 0:
        ctx.violation("decoder-history harness / model did not answer every line (harness rc=%s, %d of %d lines; model rc=%s): %s" % (rc, len(cout), len(clines), mrc, (cerr or merr or "")[-300:]),
                      dict(kind="monitor", op=clines[min(len(cout), len(clines) - 1)][:200], stderr=(cerr or "")[-2000:]))
        return dict(evaluations=0)
    # walk: model state after each op; collect the decoding verdicts the model needs
    ci, mi = npre, 0
    walk = []       # (history index, op, C answer, model values or None, model status)
    for hi_, h in enumerate(hists):
        mv = None
        for op in h:
            if op.startswith("probe"):
                walk.append((hi_, op, cout[ci], mv, None))
            else:
                st, _, vs = mout[mi].partition(" |"); mi += 1
                mv = vs.split()
                walk.append((hi_, op, cout[ci], mv, st))
            ci += 1
    need = {}
    for hi_, op, c, mv, st in walk:
        if st is None:
            d = dict(zip(idlist, map(int, mv)))
            need[(d.get(1000, 0), int(d.get(1002, 0) != 0), d.get(1005, 0), int(op.split()[1]))] = None
    keys = sorted(need)
    dres = frames.parallel(lambda ch: frames.model_lines(ch), frames.split_chunks(["decopt %d %d %d %d %s" % (k[0], k[1], k[2], fr[k[3]][2], fr[k[3]][1].hex()) for k in keys], 16))
    for k, r_ in zip(keys, dres):
        need[k] = r_
    want_hash = {}
    bad_hist = set(); rb_reported = set()
    for hi_, op, c, mv, st in walk:
        if hi_ in bad_hist:
            continue
        ev += 1
        cst, _, cvs = c.partition(" |")
        hist_txt = " ; ".join(hists[hi_])
        rep = dict(kind="monitor", history=hist_txt, op=op, impl=c, model_values=" ".join(mv or []), model_status=st, ids=idlist, frames={nm: f.hex() for nm, f, n in fr})
        if cvs.split() != mv and hi_ not in rb_reported:
            rb_reported.add(hi_)      # reported once per history; the decoding verdicts of the history are still compared with what the MODEL's values imply
            ctx.violation("decoder parameters read back after `%s` differ from the parameter model: ZSTD_DCtx_getParameter gives [%s], model [%s] (ids %s) in history: %s" % (
                op, cvs.strip(), " ".join(mv), idlist, hist_txt[:300]), dict(rep, kind="tie", correspondence="Params.reset / setParam (dparams) vs ZSTD_DCtx_reset / ZSTD_DCtx_setParameter"))
        if st is not None:
            if cst != st:
                ctx.violation("`%s` on a decoder context answers %s, parameter model %s, in history: %s" % (op, cst, st, hist_txt[:300]), dict(rep, kind="tie", correspondence="Params (dparams) vs ZSTD_DCtx_*"), no_input=True)
                bad_hist.add(hi_)
            continue
        d = dict(zip(idlist, map(int, mv)))
        _, slot, mode, cap, chunk = op.split(); slot = int(slot)
        nm, f, n = fr[slot]
        fmt, ign, mb, stable, wlm = d.get(1000, 0), int(d.get(1002, 0) != 0), d.get(1005, 0), d.get(1001, 0), d.get(100, 27)
        exp = need[(fmt, ign, mb, slot)]
        if exp.startswith("err lax:"):
            continue        # the specification refuses it, some library paths tolerate it (oversized raw / RLE block under ZSTD_d_maxBlockSize): not compared
        if mode != "o":
            hd = _hdr(f, fmt == 1)      # the streaming decoder refuses the window as soon as it has read the header ...
            whole = int(chunk) >= len(f) and hd is not None and hd[1] is not None      # ... unless the whole frame and room for its announced content come with the first call (single-pass shortcut)
            if hd and hd[0] is not None and not whole and max(hd[0], 1024) > (1 << wlm) + (1 if wlm == 27 else 0):
                exp = "err window_too_large"
        if mode == "m" and stable:
            continue        # a moving output buffer under ZSTD_d_stableOutBuffer: refused or not depending on where the pieces end; not asserted
        limit_in_play = mb != 0 and mb < n      # then which error comes first depends on the path (block limit, destination room, checksum): only ok / error is compared
        if exp.startswith("ok"):
            same = cst == exp
        elif exp in ("err checksum_wrong", "err window_too_large") and not limit_in_play:
            same = cst == exp
        else:
            same = cst.startswith("err")
        if not same:
            dmg = slot in DAMAGED
            what = ("damaged frame accepted" if (dmg and cst.startswith("ok") and not ign) else "decoding verdict differs from what the parameters in force imply")
            ctx.violation("%s: frame `%s` (%s), parameters per model %s -> implementation %r, expected %r; history: %s" % (
                what, nm, {"o": "one-shot", "s": "streaming", "m": "streaming, moving output"}[mode] + " by %s" % chunk, {i: d[i] for i in idlist if d[i] != 0}, cst, exp, hist_txt[:400]), rep)
            bad_hist.add(hi_)
        if len(ctx.violations) >= 8:
            break
    return dict(evaluations=ev, histories=len(hists), ops=len(walk), verdicts_from_lean=len(keys), sample=dict(history=" ; ".join(hists[0])[:200], last=cout[npre + len(hists[0]) - 1][:80]))


def correspondence(ctx):
    exe = frames.harness()
    streams = make_streams(ctx, exe)
    ev, cuts_total = 0, 0
    maxlen = 3000 if ctx.quick() else 40000
    samples = []
    # (1) walker vs C on whole streams + every cut
    lines_c, lines_m, info = [], [], []
    for si, s in enumerate(streams):
        f = s["data"]
        if len(f) > maxlen:
            continue
        ks = range(0, len(f) + 1) if len(f) <= 1500 else sorted(set(list(range(0, 300)) + [ctx.rng.randrange(len(f)) for _ in range(400)] + list(range(len(f) - 40, len(f) + 1)) + s["bounds"]))
        for k in ks:
            lines_c.append("dec %d %s" % (len(s["content"]), frames.hx(f[:k])))
            lines_c.append("decs %d %s %s %s" % (len(s["content"]), frames.hx(f[:k]), ctx.rng.choice(["1", "7,1,300", "100000", "3"]), ctx.rng.choice(["100000", "1", "50,3"])))
            lines_m.append("walk " + frames.hx(f[:k]))
            info.append((si, k))
        cuts_total += len(ks)
    cres = frames.parallel(lambda ch: frames.run_lines(exe, ch)[1], frames.split_chunks(lines_c, 16))
    mres = frames.parallel(lambda ch: frames.model_lines(ch), frames.split_chunks(lines_m, 16))
    for idx, (si, k) in enumerate(info):
        s = streams[si]; f = s["data"]
        one, st, wk = cres[2 * idx], cres[2 * idx + 1], mres[idx]
        ev += 3
        boundary = (k == 0) or (k in s["bounds"])
        rep = dict(kind="monitor", stream=s["desc"], cut=k, stream_hex=frames.hx(f), oneshot=one, streaming=st, walker=wk)
        if not boundary:
            if one.startswith("ok"):
                ctx.violation("one-shot decoding accepted a proper prefix (cut at %d of %d, not a frame boundary): %s" % (k, len(f), one), rep)
            # streaming: 0 may only have been returned at frame boundaries, and the last return must not be 0
            zs = st.split("zeros=")[1].split()[0] if "zeros=" in st else "-"
            zpos = [int(z.split(":")[0]) for z in zs.split(";")] if zs != "-" else []
            if any(z not in s["bounds"] for z in zpos) or (st.startswith("ok") and "last=0" in st):
                ctx.violation("streaming decoding of a proper prefix (cut %d of %d) reported frame completion: %s" % (k, len(f), st), rep)
            if wk.startswith("ok"):
                ctx.violation("walker model accepts a cut that is not a frame boundary (model/proof mismatch)", dict(rep, kind="tie"), no_input=True)
        else:
            if k > 0 and not wk.startswith("ok"):
                ctx.violation("walker model rejects a whole number of frames that ZSTD_decompress handles: walker=%s one-shot=%s" % (wk, one),
                              dict(rep, kind="tie", correspondence="Model/Walker.frames vs ZSTD_decompressMultiFrame"), no_input=True)
            if k == len(f) and not one.startswith("ok"):
                ctx.violation("complete valid stream rejected by one-shot decoding: %s" % one, rep)
            if k > 0 and wk.startswith("ok"):
                sizes = [int(z) for z in wk[3:].split(",")] if len(wk) > 3 else []
                acc, ends = 0, []
                for z in sizes:
                    acc += z; ends.append(acc)
                if ends != [b for b in s["bounds"] if b <= k]:
                    ctx.violation("walker frame extents %r differ from the real frame boundaries %r" % (ends, s["bounds"]), dict(rep, kind="tie", correspondence="Walker.frameSize vs real frames"), no_input=True)
        if len(ctx.violations) >= 5:
            break
    if streams:
        samples.append(dict(stream=streams[0]["desc"], bytes=len(streams[0]["data"]), cuts="0..%d" % len(streams[0]["data"])))
    # (2) trailing garbage, FCS lies, checksum flips
    lines, what = [], []
    for s in streams:
        f = s["data"]
        if s["desc"].startswith("multi") or len(f) > maxlen:
            continue
        for g in (b"\x00", b"abcd", b"\x28\xb5\x2f", b"\xff" * 9):
            lines.append("dec %d %s" % (len(s["content"]) + 64, frames.hx(f + g))); what.append(("trailing garbage %r" % g, s, None))
        fhd = f[4]
        single = (fhd >> 5) & 1; fcsid = fhd >> 6; did = fhd & 3
        if s["fcs"] and (fcsid or single):
            pos = 5 + (0 if single else 1) + [0, 1, 2, 4][did]
            width = [1 if single else 0, 2, 4, 8][fcsid]
            val = int.from_bytes(f[pos:pos + width], "little")
            for delta in (1, -1, 7, 256):
                nv = val + delta
                if nv < 0 or nv >= 1 << (8 * width):
                    continue
                g2 = f[:pos] + nv.to_bytes(width, "little") + f[pos + width:]
                lines.append("dec %d %s" % (len(s["content"]) + 1000, frames.hx(g2))); what.append(("content-size field %+d" % delta, s, g2))
                lines.append("decs %d %s 1 10" % (len(s["content"]) + 1000, frames.hx(g2))); what.append(("content-size field %+d (streaming)" % delta, s, g2))
        if s["checksum"]:
            for bit in range(32):
                g2 = f[:-4] + (int.from_bytes(f[-4:], "little") ^ (1 << bit)).to_bytes(4, "little")
                lines.append("dec %d %s" % (len(s["content"]), frames.hx(g2))); what.append(("checksum bit %d" % bit, s, g2))
                if bit % 8 == 0:
                    lines.append("decs %d %s 5 1000" % (len(s["content"]), frames.hx(g2))); what.append(("checksum bit %d (streaming)" % bit, s, g2))
    # corpus of hand-made lying frames (minimised past failures run on every check)
    for hexf, w in CORPUS:
        g2 = bytes.fromhex(hexf)
        for cmd in ("dec 100 %s", "decs 100 %s 1 10", "decs 100 %s 3,6 0,100", "decs 100 %s 100 100"):
            lines.append(cmd % hexf); what.append((w + (" (streaming)" if cmd.startswith("decs") else ""), dict(data=g2), g2))
    res = frames.parallel(lambda ch: frames.run_lines(exe, ch)[1], frames.split_chunks(lines, 16))
    for r, (w, s, g2) in zip(res, what):
        ev += 1
        ok_complete = r.startswith("ok") and ("last=" not in r or "last=0" in r)
        if "streaming" in w:
            accepted = r.startswith("ok") and "zeros=-" not in r        # the decoder reported a completed frame (returned 0)
        else:
            accepted = r.startswith("ok")
        if accepted:
            ctx.violation("damaged frame accepted (%s): %s" % (w, r), dict(kind="monitor", damage=w, frame_hex=frames.hx(g2 if g2 else s["data"]), original_hex=frames.hx(s["data"])))
    # (3) pledged size: model vs implementation + monitor
    pl_lines, pl_info = [], []
    rng = ctx.rng
    for _ in range(150 if ctx.quick() else 2000):
        total = rng.choice([0, 1, 50, 1000, 70000, 200000])
        nch = rng.randint(1, 4)
        chunks = [rng.choice([0, 1, total // 2, total, total + 10, 131072]) for _ in range(nch)]
        mode = rng.randint(0, 2)
        supplied = min(total, sum(chunks))
        pl = rng.choice([-1, supplied, supplied, supplied + 1, max(0, supplied - 1), 0, 2 * supplied + 3, supplied + (1 << 32), supplied + 3 * (1 << 32), supplied + (1 << 31)])
        pl_lines.append("pledge %d %d %s %d" % (pl, total, ",".join(map(str, chunks)), mode)); pl_info.append((pl, supplied, chunks, mode))
    # the same with worker threads and frames made of several jobs (each worker only sees its own job)
    for _ in range(24 if ctx.quick() else 300):
        total = rng.choice([700000, 1600000, 3000000])
        chunks = [rng.choice([300000, 524288, 1000000, total]) for _ in range(rng.randint(2, 5))]
        mode = rng.randint(0, 2)
        supplied = min(total, sum(chunks))
        pl = rng.choice([supplied, supplied + 1, supplied - 1, supplied // 2, 2 * supplied, -1])
        pl_lines.append("pledge %d %d %s %d %d" % (pl, total, ",".join(map(str, chunks)), mode, rng.choice([1, 2, 3]))); pl_info.append((pl, supplied, chunks, mode))
    # and with the content-size field switched off: the pledge is a contract even when it is not written into the header
    for _ in range(40 if ctx.quick() else 500):
        total = rng.choice([1000, 70000, 200000])
        chunks = [rng.choice([1, total // 2, total, 131072]) for _ in range(rng.randint(2, 4))]
        mode = rng.randint(0, 2)
        supplied = min(total, sum(chunks))
        pl = rng.choice([supplied, supplied + 1, max(0, supplied - 1), 2 * supplied + 3])
        pl_lines.append("pledge %d %d %s %d 0 1" % (pl, total, ",".join(map(str, chunks)), mode)); pl_info.append((pl, supplied, chunks, mode))
    cres = frames.run_lines(exe, pl_lines)[1]
    mres = frames.model_lines([" ".join(l.split()[:5]) for l in pl_lines])
    for ln, c, m, (pl, supplied, chunks, mode) in zip(pl_lines, cres, mres, pl_info):
        ev += 1
        cok, mok = c.startswith("ok"), m.startswith("ok")
        rep = dict(kind="monitor", op=ln, impl=c, model=m)
        if cok and pl >= 0 and pl != supplied:
            first_is_end = (mode == 0 and len(chunks) == 1) or (mode in (1, 2) and supplied == 0 and all(min(ch, 10**9) == 0 or True for ch in chunks) and sum(min(c_, 10**12) for c_ in chunks) == 0)
            ctx.violation("pledged %d bytes, supplied %d, compression succeeded: %s" % (pl, supplied, c), rep,
                          key="C09-pledge-overridden-when-first-call-is-end" if (mode == 0 and len(chunks) == 1) or supplied == 0 else None)
        if cok != mok:
            ctx.violation("pledge bookkeeping: implementation %r vs model %r on %s" % (c, m, ln), dict(rep, kind="tie", correspondence="Walker.Pledge vs ZSTD_compressStream2"), no_input=True)
    # (4) pledges over call histories with flushes and worker threads (small inputs, both directions, legacy entry points), model Walker.Pledge
    plh = pledge_histories(ctx)
    ev += plh.get("evaluations", 0)
    # (5) decoder histories: parameters set, reset, frames decoded - read-back against the parameter model, verdicts against the independent decoder
    dch = dctx_histories(ctx)
    ev += dch.get("evaluations", 0)
    return dict(evaluations=ev, pledge_call_histories=plh, decoder_histories=dch, distinct_nontrivial=len({s["data"] for s in streams if len(s["data"]) > 12}),
                rule="frame streams = single frames of every header layout (checksum / content-size flags, levels) + multi-frame compositions with skippable frames; "
                     "EVERY cut point of each stream (<= 1500 bytes; sampled + all boundaries beyond) through one-shot and streaming decoding and through the walker model; "
                     "trailing garbage, content-size lies, every bit of the stored checksum, pledges around the supplied size over random call histories; distinct = distinct stream bytes",
                samples=samples + [dict(pledge_op=pl_lines[0], impl=cres[0], model=mres[0])], cuts=cuts_total, streams=len(streams), damaged_frames=len(what), pledge_histories=len(pl_lines))


def replay(ctx, data):
    exe = frames.harness()
    if data.get("history"):
        fl = list((data.get("frames") or {}).values())
        lines = ["ids " + ",".join(map(str, data.get("ids", [])))] + ["frame %d %s" % (k, h) for k, h in enumerate(fl)] + data["history"].split(" ; ")
        out = frames.run_lines(xharness(), lines)[1]
        return dict(violates=True, note="history re-executed on a fresh process; compare with the description", answers=out[1 + len(fl):])
    if data.get("xharness"):
        c = frames.run_lines(xharness(), [data["op"]])[1]
        return dict(violates=("pledged" in data.get("description", "") or "pledge" in data.get("description", "")) and bool(c) and c[0].startswith("ok"), impl=c, model=data.get("model"))
    if data.get("op"):
        c = frames.run_lines(exe, [data["op"]])[1]; m = frames.model_lines([data["op"]])
        return dict(violates=c[0].startswith("ok") != m[0].startswith("ok") or "pledged" in data.get("description", ""), impl=c, model=m)
    f = bytes.fromhex(data["stream_hex"]) if data.get("stream_hex") else bytes.fromhex(data.get("frame_hex", ""))
    k = data.get("cut", len(f))
    c = frames.run_lines(exe, ["dec 1000000 " + frames.hx(f[:k]), "decs 1000000 %s 1 100" % frames.hx(f[:k])])[1]
    return dict(violates=True, note="re-executed", oneshot=c[0], streaming=c[1])
