"""C09 — truncation, size lies, checksum damage, pledged size.  Tie: Model/Walker.lean (frame extents, pledge bookkeeping) vs
ZSTD_findFrameCompressedSize / ZSTD_decompress / compressStream2; monitors: every cut of every frame stream through the
one-shot and streaming decoders, every bit of the stored checksum, FCS lies, pledges != supplied."""
import build, zv, frames, datagen

ASSUMPTIONS = ["block contents are not interpreted by the walker model (they can only add errors); the content-dependent verdicts come from the monitors",
               "cuts are exhaustive per frame stream for streams <= the size limit of the run"]


CORPUS = [
    ("28b52ffd2005010000", "content size 5 announced, single EMPTY last raw block (fixed in /repo: empty-last-block path lacked the size check)"),
    ("28b52ffd2401010000", "content size 1 announced, empty last block, checksum flag but no checksum bytes"),
    ("28b52ffd6000010100000000", "2-byte content size field 256+1, empty last block"),
]


def make_streams(ctx, exe):
    """list of (description, bytes) : single frames of every header layout, multi-frame, with skippable frames"""
    rng = ctx.rng
    lines, meta = [], []
    n = 60 if ctx.quick() else 600
    for i in range(n):
        kind, x = datagen.gen(rng, 3000 if ctx.quick() else 60000)
        flags = rng.randint(0, 3)
        lv = rng.choice([1, 3, 5, 19])
        lines.append("comp %d %d %s" % (lv, flags, frames.hx(x))); meta.append((kind, x, flags))
    rc, out, err = frames.run_lines(exe, lines)
    fr = [(m, bytes.fromhex(o) if o != "-" else b"") for m, o in zip(meta, out) if not o.startswith("err")]
    streams = []
    for (kind, x, flags), f in fr:
        streams.append(dict(desc="single %s flags=%d" % (kind, flags), data=f, content=x, bounds=[len(f)], checksum=bool(flags & 1), fcs=not (flags & 2)))
    # multi-frame and skippable compositions
    for _ in range(len(fr) // 3):
        parts, bounds, content, pos = [], [], b"", 0
        for _ in range(rng.randint(2, 4)):
            if rng.random() < 0.3:
                pl = datagen.randbytes(rng, rng.choice([0, 1, 2, 3, 10]))
                sk = (0x184D2A50 + rng.randint(0, 15)).to_bytes(4, "little") + len(pl).to_bytes(4, "little") + pl
                parts.append(sk); pos += len(sk); bounds.append(pos)
            else:
                (kind, x, flags), f = rng.choice(fr)
                parts.append(f); pos += len(f); bounds.append(pos); content += x
        streams.append(dict(desc="multi", data=b"".join(parts), content=content, bounds=bounds, checksum=False, fcs=False))
    return streams


def correspondence(ctx):
    exe = frames.harness()
    streams = make_streams(ctx, exe)
    ev, cuts_total = 0, 0
    maxlen = 3000 if ctx.quick() else 40000
    samples = []
    # (1) walker vs C on whole streams + every cut
    lines_c, lines_m, info = [], [], []
    for si, s in enumerate(streams):
        f = s["data"]
        if len(f) > maxlen:
            continue
        ks = range(0, len(f) + 1) if len(f) <= 1500 else sorted(set(list(range(0, 300)) + [ctx.rng.randrange(len(f)) for _ in range(400)] + list(range(len(f) - 40, len(f) + 1)) + s["bounds"]))
        for k in ks:
            lines_c.append("dec %d %s" % (len(s["content"]), frames.hx(f[:k])))
            lines_c.append("decs %d %s %s %s" % (len(s["content"]), frames.hx(f[:k]), ctx.rng.choice(["1", "7,1,300", "100000", "3"]), ctx.rng.choice(["100000", "1", "50,3"])))
            lines_m.append("walk " + frames.hx(f[:k]))
            info.append((si, k))
        cuts_total += len(ks)
    cres = frames.parallel(lambda ch: frames.run_lines(exe, ch)[1], frames.split_chunks(lines_c, 16))
    mres = frames.parallel(lambda ch: frames.model_lines(ch), frames.split_chunks(lines_m, 16))
    for idx, (si, k) in enumerate(info):
        s = streams[si]; f = s["data"]
        one, st, wk = cres[2 * idx], cres[2 * idx + 1], mres[idx]
        ev += 3
        boundary = (k == 0) or (k in s["bounds"])
        rep = dict(kind="monitor", stream=s["desc"], cut=k, stream_hex=frames.hx(f), oneshot=one, streaming=st, walker=wk)
        if not boundary:
            if one.startswith("ok"):
                ctx.violation("one-shot decoding accepted a proper prefix (cut at %d of %d, not a frame boundary): %s" % (k, len(f), one), rep)
            # streaming: 0 may only have been returned at frame boundaries, and the last return must not be 0
            zs = st.split("zeros=")[1].split()[0] if "zeros=" in st else "-"
            zpos = [int(z.split(":")[0]) for z in zs.split(";")] if zs != "-" else []
            if any(z not in s["bounds"] for z in zpos) or (st.startswith("ok") and "last=0" in st):
                ctx.violation("streaming decoding of a proper prefix (cut %d of %d) reported frame completion: %s" % (k, len(f), st), rep)
            if wk.startswith("ok"):
                ctx.violation("walker model accepts a cut that is not a frame boundary (model/proof mismatch)", dict(rep, kind="tie"), no_input=True)
        else:
            if k > 0 and not wk.startswith("ok"):
                ctx.violation("walker model rejects a whole number of frames that ZSTD_decompress handles: walker=%s one-shot=%s" % (wk, one),
                              dict(rep, kind="tie", correspondence="Model/Walker.frames vs ZSTD_decompressMultiFrame"), no_input=True)
            if k == len(f) and not one.startswith("ok"):
                ctx.violation("complete valid stream rejected by one-shot decoding: %s" % one, rep)
            if k > 0 and wk.startswith("ok"):
                sizes = [int(z) for z in wk[3:].split(",")] if len(wk) > 3 else []
                acc, ends = 0, []
                for z in sizes:
                    acc += z; ends.append(acc)
                if ends != [b for b in s["bounds"] if b <= k]:
                    ctx.violation("walker frame extents %r differ from the real frame boundaries %r" % (ends, s["bounds"]), dict(rep, kind="tie", correspondence="Walker.frameSize vs real frames"), no_input=True)
        if len(ctx.violations) >= 5:
            break
    if streams:
        samples.append(dict(stream=streams[0]["desc"], bytes=len(streams[0]["data"]), cuts="0..%d" % len(streams[0]["data"])))
    # (2) trailing garbage, FCS lies, checksum flips
    lines, what = [], []
    for s in streams:
        f = s["data"]
        if s["desc"].startswith("multi") or len(f) > maxlen:
            continue
        for g in (b"\x00", b"abcd", b"\x28\xb5\x2f", b"\xff" * 9):
            lines.append("dec %d %s" % (len(s["content"]) + 64, frames.hx(f + g))); what.append(("trailing garbage %r" % g, s, None))
        fhd = f[4]
        single = (fhd >> 5) & 1; fcsid = fhd >> 6; did = fhd & 3
        if s["fcs"] and (fcsid or single):
            pos = 5 + (0 if single else 1) + [0, 1, 2, 4][did]
            width = [1 if single else 0, 2, 4, 8][fcsid]
            val = int.from_bytes(f[pos:pos + width], "little")
            for delta in (1, -1, 7, 256):
                nv = val + delta
                if nv < 0 or nv >= 1 << (8 * width):
                    continue
                g2 = f[:pos] + nv.to_bytes(width, "little") + f[pos + width:]
                lines.append("dec %d %s" % (len(s["content"]) + 1000, frames.hx(g2))); what.append(("content-size field %+d" % delta, s, g2))
                lines.append("decs %d %s 1 10" % (len(s["content"]) + 1000, frames.hx(g2))); what.append(("content-size field %+d (streaming)" % delta, s, g2))
        if s["checksum"]:
            for bit in range(32):
                g2 = f[:-4] + (int.from_bytes(f[-4:], "little") ^ (1 << bit)).to_bytes(4, "little")
                lines.append("dec %d %s" % (len(s["content"]), frames.hx(g2))); what.append(("checksum bit %d" % bit, s, g2))
                if bit % 8 == 0:
                    lines.append("decs %d %s 5 1000" % (len(s["content"]), frames.hx(g2))); what.append(("checksum bit %d (streaming)" % bit, s, g2))
    # corpus of hand-made lying frames (minimised past failures run on every check)
    for hexf, w in CORPUS:
        g2 = bytes.fromhex(hexf)
        for cmd in ("dec 100 %s", "decs 100 %s 1 10", "decs 100 %s 3,6 0,100", "decs 100 %s 100 100"):
            lines.append(cmd % hexf); what.append((w + (" (streaming)" if cmd.startswith("decs") else ""), dict(data=g2), g2))
    res = frames.parallel(lambda ch: frames.run_lines(exe, ch)[1], frames.split_chunks(lines, 16))
    for r, (w, s, g2) in zip(res, what):
        ev += 1
        ok_complete = r.startswith("ok") and ("last=" not in r or "last=0" in r)
        if "streaming" in w:
            accepted = r.startswith("ok") and "zeros=-" not in r        # the decoder reported a completed frame (returned 0)
        else:
            accepted = r.startswith("ok")
        if accepted:
            ctx.violation("damaged frame accepted (%s): %s" % (w, r), dict(kind="monitor", damage=w, frame_hex=frames.hx(g2 if g2 else s["data"]), original_hex=frames.hx(s["data"])))
    # (3) pledged size: model vs implementation + monitor
    pl_lines, pl_info = [], []
    rng = ctx.rng
    for _ in range(150 if ctx.quick() else 2000):
        total = rng.choice([0, 1, 50, 1000, 70000, 200000])
        nch = rng.randint(1, 4)
        chunks = [rng.choice([0, 1, total // 2, total, total + 10, 131072]) for _ in range(nch)]
        mode = rng.randint(0, 2)
        supplied = min(total, sum(chunks))
        pl = rng.choice([-1, supplied, supplied, supplied + 1, max(0, supplied - 1), 0, 2 * supplied + 3, supplied + (1 << 32), supplied + 3 * (1 << 32), supplied + (1 << 31)])
        pl_lines.append("pledge %d %d %s %d" % (pl, total, ",".join(map(str, chunks)), mode)); pl_info.append((pl, supplied, chunks, mode))
    # the same with worker threads and frames made of several jobs (each worker only sees its own job)
    for _ in range(24 if ctx.quick() else 300):
        total = rng.choice([700000, 1600000, 3000000])
        chunks = [rng.choice([300000, 524288, 1000000, total]) for _ in range(rng.randint(2, 5))]
        mode = rng.randint(0, 2)
        supplied = min(total, sum(chunks))
        pl = rng.choice([supplied, supplied + 1, supplied - 1, supplied // 2, 2 * supplied, -1])
        pl_lines.append("pledge %d %d %s %d %d" % (pl, total, ",".join(map(str, chunks)), mode, rng.choice([1, 2, 3]))); pl_info.append((pl, supplied, chunks, mode))
    # and with the content-size field switched off: the pledge is a contract even when it is not written into the header
    for _ in range(40 if ctx.quick() else 500):
        total = rng.choice([1000, 70000, 200000])
        chunks = [rng.choice([1, total // 2, total, 131072]) for _ in range(rng.randint(2, 4))]
        mode = rng.randint(0, 2)
        supplied = min(total, sum(chunks))
        pl = rng.choice([supplied, supplied + 1, max(0, supplied - 1), 2 * supplied + 3])
        pl_lines.append("pledge %d %d %s %d 0 1" % (pl, total, ",".join(map(str, chunks)), mode)); pl_info.append((pl, supplied, chunks, mode))
    cres = frames.run_lines(exe, pl_lines)[1]
    mres = frames.model_lines([" ".join(l.split()[:5]) for l in pl_lines])
    for ln, c, m, (pl, supplied, chunks, mode) in zip(pl_lines, cres, mres, pl_info):
        ev += 1
        cok, mok = c.startswith("ok"), m.startswith("ok")
        rep = dict(kind="monitor", op=ln, impl=c, model=m)
        if cok and pl >= 0 and pl != supplied:
            first_is_end = (mode == 0 and len(chunks) == 1) or (mode in (1, 2) and supplied == 0 and all(min(ch, 10**9) == 0 or True for ch in chunks) and sum(min(c_, 10**12) for c_ in chunks) == 0)
            ctx.violation("pledged %d bytes, supplied %d, compression succeeded: %s" % (pl, supplied, c), rep,
                          key="C09-pledge-overridden-when-first-call-is-end" if (mode == 0 and len(chunks) == 1) or supplied == 0 else None)
        if cok != mok:
            ctx.violation("pledge bookkeeping: implementation %r vs model %r on %s" % (c, m, ln), dict(rep, kind="tie", correspondence="Walker.Pledge vs ZSTD_compressStream2"), no_input=True)
    return dict(evaluations=ev, distinct_nontrivial=len({s["data"] for s in streams if len(s["data"]) > 12}),
                rule="frame streams = single frames of every header layout (checksum / content-size flags, levels) + multi-frame compositions with skippable frames; "
                     "EVERY cut point of each stream (<= 1500 bytes; sampled + all boundaries beyond) through one-shot and streaming decoding and through the walker model; "
                     "trailing garbage, content-size lies, every bit of the stored checksum, pledges around the supplied size over random call histories; distinct = distinct stream bytes",
                samples=samples + [dict(pledge_op=pl_lines[0], impl=cres[0], model=mres[0])], cuts=cuts_total, streams=len(streams), damaged_frames=len(what), pledge_histories=len(pl_lines))


def replay(ctx, data):
    exe = frames.harness()
    if data.get("op"):
        c = frames.run_lines(exe, [data["op"]])[1]; m = frames.model_lines([data["op"]])
        return dict(violates=c[0].startswith("ok") != m[0].startswith("ok") or "pledged" in data.get("description", ""), impl=c, model=m)
    f = bytes.fromhex(data["stream_hex"]) if data.get("stream_hex") else bytes.fromhex(data.get("frame_hex", ""))
    k = data.get("cut", len(f))
    c = frames.run_lines(exe, ["dec 1000000 " + frames.hx(f[:k]), "decs 1000000 %s 1 100" % frames.hx(f[:k])])[1]
    return dict(violates=True, note="re-executed", oneshot=c[0], streaming=c[1])
