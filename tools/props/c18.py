"""C18 — dictionary training.  Every ZDICT entry point on degenerate and ordinary sample sets x capacities x parameter vectors (valid and invalid),
in the ASan+UBSan build: the outcome is an error / 0, or a dictionary within the capacity that both loaders and the Lean loader model accept, with
one non-zero ID reported identically by the four ID queries, with which the samples round-trip; single-threaded runs are repeated (shifted heap)
and byte-compared.  Model ties: ZDICT_finalizeDictionary's size == Train.finalizeLayout, automatic ID == Train.compliantID(XXH64(content)),
parameter verdicts == Train.coverParamsOk / fastCoverParamsOk, and the optimisers' result-holder events (COVER_best_t mutex interposed) are
replayed by the LTS Train.bstep.  Multi-threaded optimiser runs are repeated under ThreadSanitizer.
Stale memory: the two runs of the determinism pair get destinations pre-filled with different bytes and differently filled fresh heap blocks (harness
zvh_train_fill.h), so a result byte the trainer never wrote shows as a difference.  Directed families: size_varying_ops (optimiser runs whose candidates have
DIFFERENT dictionary sizes, the better one later and larger: the result holder must grow its buffer) and remainder_ops (capacity = q*k + r for every r in 0..d, every
direct trainer and single-candidate optimiser run, on corpora whose segments have the full length k), tiny_training_ops (training part around max(d,8) bytes).
Legacy trainer: table_full_ops (sample sets with more distinct, recurring, unmergeable segments than the candidate table has slots - 10000 / capacity/16 / nbSamples -:
the table fills up and candidates displace its lowest-ranked entries; measured by the harness, tbl=pos/slots) and the function-level tie ZDICT_insertDictItem ==
Train.insertAll on tables of 2..100 slots (dins; theorems table_insert_bounded / table_insert_ranked).
Parameter validation of BOTH fastCover entry points (fparam_ops): f over {default, 1, 31, 32, 33, 39, 40, 63, 64, 65, 255, UINT_MAX} and accel over {default, 1, 10, 11, 255, UINT_MAX}, direct
trainer and optimiser (fixed k / d, searched k / d, one and two threads), run with the sanitizer's allocator limited to 1 GiB per request so that an attempt to allocate the 2^f
counters of an out-of-range f is an observed outcome (memory_allocation) instead of tens of GB: out-of-range values must be refused with parameter_outOfBound by both, and the verdict
of each equals Train.fastCoverParamsOk.
Shrinking (shrink_ops): both optimisers with shrinkDict set and several shrinkDictMaxRegression values over a dense sweep of small corpus sizes (template copies, 560..7300 step 50 twice
interleaved, + random), as determinism pairs in the ASan build and - one to three threads - in a MemorySanitizer build (build.py variant msan; harness leaves fresh blocks and the
destination unwritten), which also re-runs a sample of the successful operations: a dictionary (or a rejected candidate) built from bytes nobody wrote.
Function-level ties: COVER_computeEpochs == Train.computeEpochs, COVER_ctx_init / FASTCOVER_ctx_init == Train.ctxInit.  One shape is excluded (EXCLUDED in
harness/zvh_train.c: optimiser, split < 1, training part below max(d,8) bytes - a crash of the unchanged tree); repaired in the tree by fix 3d7351b: the shape runs by default and must give an error code; ZV_C18_EXCLUDE=1 restores the exclusion."""
import os, re
import build, zv, frames

ASSUMPTIONS = ["segment selection (suffix array, cover / fastCover scoring) is not modelled: memory safety of the trainers rests on the sanitizer runs over the generated sample sets",
               "optimiser worker schedules are sampled (perturbed), race freedom beyond the result holder is ThreadSanitizer on those samples"]

ALGOS = ["def", "cover", "fastcover", "optcover", "optfast", "legacy", "finalize", "addent"]


def hx(variant="plain"):
    return build.link("zvh_train", ["zvh_train.c", "zvh_train_cover.c", "zvh_train_fastcover.c", "zvh_train_zdict.c"], variant, exclude=("cover.c", "fastcover.c", "zdict.c"))


def gen_op(rng, quick):
    algo = rng.choice(ALGOS + ["finalize", "optfast", "fastcover"])
    kind = rng.choice(["text", "text", "text", "same", "tiny", "empty", "small", "mixed", "bin", "off1024", "off1023", "off1025", "off8"])
    if kind.startswith("off"):
        algo = rng.choice(["finalize", "finalize", "addent", "cover", "fastcover"])
    nb = rng.choice([0, 1, 2, 5, 9, 40, 200, 600])
    ssz = rng.choice([0, 1, 7, 8, 40, 300, 800, 2500])
    if kind.startswith("off"):
        nb, ssz = rng.choice([30, 80]), rng.choice([200, 400])
    cap = rng.choice([0, 100, 255, 256, 257, 400, 1000, 4000, 20000, 110000])
    k = rng.choice([0, 1, 8, 16, 50, 200, 1024, 2000, 5000, 100000]) if algo not in ("finalize", "addent") else rng.choice([0, 1, 7, 8, 9, 100, 1024, 1500, 3000, 50000])
    d = rng.choice([0, 6, 8, 8, 8, 7, 16, 300])
    # f = 31 is legal but makes fastCover allocate and sweep 2^31-entry tables (20 GiB per attempt): a resource demand, not a hang - the
    # largest table trained for real is 2^26 entries; 32 (rejected at once) stays
    f = rng.choice([0, 1, 10, 16, 20, 26, 32])
    accel = rng.choice([0, 1, 1, 2, 5, 10, 11])
    steps = rng.choice([0, 1, 3, 4, 8]) if quick else rng.choice([0, 1, 4, 10, 40])
    split = rng.choice([100, 100, 75, 50, 1, 0, 101])
    threads = rng.choice([0, 1, 1, 2, 3]) if algo in ("optcover", "optfast") else 1
    if algo in ("optcover",) and nb * ssz > 200000:
        nb = 100
    dict_id = rng.choice([0, 0, 0, 1, 777, 40000, (1 << 31), (1 << 32) - 1])
    level = rng.choice([0, 3, 1, 19, -5])
    return "train %s %d %d %d %d %d %d %d %d %d %d %d %s:%d:%d:%d %d %d" % (algo, cap, k, d, f, accel, steps, split, rng.choice([0, 0, 1]), threads, dict_id, level, kind, nb, ssz,
                                                                              rng.randrange(1 << 30), 1 if threads > 1 and rng.random() < 0.6 else 0, rng.randrange(1 << 30))


def _op(algo, cap, k, d, f, accel, steps, split, shrink, threads, spec, seed, perturb=0, dict_id=0, level=3):
    return "train %s %d %d %d %d %d %d %d %s %d %d %d %s:%d %d %d" % (algo, cap, k, d, f, accel, steps, split, shrink, threads, dict_id, level, spec, seed, perturb, seed % 1000 + 1)


def blank_head(cover, cap, nb, ssz, split):
    """number of leading all-zero records (of exactly ssz bytes) that makes the FIRST candidate of a k search (k = 50) give up early: the build loop stops after
    maxZeroScoreRun consecutive epochs whose best segment scores 0, and inside a blank stretch every epoch after the first scores 0.  Epoch arithmetic as in
    COVER_computeEpochs (passes = 4 for cover, 1 for fastCover); the stretch is 1.5 x the run needed (+1 epoch), which the far longer epochs of the larger k
    values of the same search (>= 10 k positions each) never reach."""
    train = (nb * split // 100 if split < 100 else nb) * ssz
    num = max(1, cap // 50 // (4 if cover else 1))
    size = train // num
    if size < 500:
        size = min(500, train); num = max(1, train // size)
    run = max(10, min(100, num >> 3)) if cover else 10
    return min((size * (run * 3 // 2 + 2)) // ssz + 1, nb * split // 100 * 3 // 5)


def size_varying_ops(rng, quick):
    """Optimiser runs whose candidates have different dictionary sizes (the best-so-far holder must grow its buffer when a later candidate is better AND larger).
    (a) blank head: the smallest k stops on zero-score epochs with a few dozen content bytes, the larger k values fill the capacity from a small phrase pool repeated
        all over a corpus much larger than the capacity (so the full dictionary wins although its size counts against it): later, better, larger by construction;
    (b) corpus smaller than the capacity: the content collected (hence the size) depends on k and d;
    (c) cover optimiser with shrinkDict: candidates shrunk to different power-of-two sizes.
    One and several threads (any arrival order of a larger better candidate after a smaller one needs the growth), both split modes, k and d searched."""
    ops = []
    n = 2 if quick else 8
    for _ in range(n):
        for algo, caps in (("optfast", (2500, 5000, 5000, 10000)), ("def", (2500, 5000, 10000)), ("optcover", (8000, 10000, 12000, 16000))):
            for cap in caps:
                cover = algo == "optcover"
                nb, ssz = rng.choice([(240, 400), (160, 500), (200, 450)])
                split = 75 if algo == "def" else rng.choice([75, 100, 50])
                if cover and split == 50:
                    split = 75
                H = blank_head(cover, cap, nb, ssz, split)
                P = cap * rng.choice([2, 3, 4]) // 128
                for threads in ((1, 2) if cap == caps[1] else (1,)):
                    ops.append(_op(algo, cap, 0, rng.choice([8, 6, 0]), rng.choice([16, 12]), rng.choice([1, 1, 3]), rng.choice([1, 2, 3, 4]), split, 0, threads,
                                   "zero%dp%d:%d:%d" % (H, P, nb, ssz), rng.randrange(1 << 30), perturb=1 if threads > 1 else 0))
        for algo in ("optfast", "optcover", "def"):
            for kind, nb, ssz in (("text", 20, 100), ("pool", 40, 300)):
                ops.append(_op(algo, rng.choice([20000, 110000]), 0, rng.choice([0, 0, 6, 8]), 16, 1, rng.choice([4, 8]), rng.choice([100, 75, 50]), 0, 1, "%s:%d:%d" % (kind, nb, ssz), rng.randrange(1 << 30)))
        for cap in (2000, 6000, 20000):
            ops.append(_op("optcover", cap, 0, rng.choice([0, 6, 8]), 0, 0, rng.choice([3, 4, 8]), rng.choice([100, 75]), 1, rng.choice([1, 1, 2]), "%s:%d:%d" % (rng.choice(["text", "pool"]), 150, 400), rng.randrange(1 << 30)))
    return ops


def remainder_ops(rng, quick):
    """capacity = q*k + r for EVERY r in 0..d: on a corpus rich enough for each selected segment to have the full length k (random bytes; phrase pool; plus the
    word text, whose segments get trimmed), the build loop of cover / fastCover ends with r bytes of room: exactly filled (r = 0), a too-small rest the trainer must
    leave out (0 < r < d), a last trimmed segment (r = d).  Direct trainers (they build in the caller's destination) and single-candidate optimiser runs (they build
    in a fresh heap block), plus ZDICT_trainFromBuffer over 8 consecutive capacities.  The determinism pair differs in the stale bytes of both."""
    ops = []
    n = 2 if quick else 8
    for _ in range(n):
        for algo in ("fastcover", "cover", "optfast", "optcover"):
            for d in (6, 8):
                k = rng.choice([50, 64, 100, 128, 200, 333])
                q = rng.randrange(2, 9)
                while q * k < 256:
                    q += 1
                kind = rng.choice(["bin", "pool", "pool", "text"])
                for rem in range(0, d + 1):
                    ops.append(_op(algo, q * k + rem, k, d, rng.choice([12, 16]), rng.choice([1, 1, 2]), 1, 100 if algo in ("fastcover", "cover") else rng.choice([75, 100]), 0, 1,
                                   "%s:%d:%d" % (kind, 120, 300), rng.randrange(1 << 30)))
        base = rng.choice([1000, 2048, 4000])
        kind = rng.choice(["bin", "pool"])
        for rem in range(8):
            ops.append(_op("def", base + rem, 0, 0, 0, 0, 0, 100, 0, 1, "%s:%d:%d" % (kind, 150, 300), rng.randrange(1 << 30)))
        # the trainers without k / d: the legacy trainer over consecutive capacities; finalizeDictionary / addEntropyTables with the content k bytes long and
        # capacity - k sweeping the header-size neighbourhood (content dropped / kept / padded)
        base = rng.choice([600, 1500, 5000])
        for rem in range(0, 9, 2):
            ops.append(_op("legacy", base + rem, rng.randrange(12), 0, 0, 0, 0, 100, 0, 1, "text:%d:%d" % (rng.choice([80, 200]), 400), rng.randrange(1 << 30)))
        for algo in ("finalize", "addent"):
            k = rng.choice([300, 1000, 3000])
            for room in rng.sample(range(0, 400), 5):
                ops.append(_op(algo, k + room, k, 0, 0, 0, 0, 100, 0, 1, "%s:%d:%d" % (rng.choice(["text", "pool", "bin"]), 60, 300), rng.randrange(1 << 30), dict_id=rng.choice([0, 0, 777])))
    return ops


def tiny_training_ops(rng, quick):
    """Optimiser runs whose TRAINING part (the first nbSamples*splitPoint samples) totals 0..18 bytes while the whole set is large enough to pass the size check:
    lead<H>x<B> with H = the number of training samples, B = 0..3 bytes each, around the bounds max(d,8) - 1 and max(d,8) (d = 16 for cover).  Those below the
    bound are the EXCLUDED shape of harness/zvh_train.c (known crash of the unchanged tree: counted, listed in the evidence); the others must behave."""
    ops = []
    for algo in ("optfast", "def", "optcover"):
        for nb, split in ((8, 75), (10, 50), (10, 70), (10, 80), (12, 75), (20, 75), (20, 80), (20, 90)):
            H = int(nb * ((75 if algo == "def" else split) / 100.0))
            for B in ((0, 1, 2, 3) if nb == 10 else (1, rng.choice([0, 2, 3]))):
                d = rng.choice([8, 6, 0]) if algo != "optcover" else rng.choice([8, 6, 0, 16, 16])
                ops.append(_op(algo, rng.choice([256, 1000, 5000]), rng.choice([0, 0, 16, 50]), d, rng.choice([12, 16]), 1, rng.choice([1, 2, 4]), split, 0, 1,
                               "lead%dx%d:%d:%d" % (H, B, nb, rng.choice([12, 40, 200])), rng.randrange(1 << 30)))
    return ops


SHRINK_LO, SHRINK_HI = 560, 7300


def shrink_ops(rng, quick):
    """The optimisers with shrinkDict set, on corpora MUCH SMALLER than the capacity (the selected content leaves the front of the candidate's buffer unwritten) whose content is
    all useful (kind rep: every sample a copy of one random template, so a dictionary missing part of the content is several times worse and only a candidate holding ALL of it
    can be accepted).  A shrink loop tries sizes growing geometrically from ZDICT_DICTSIZE_MIN; whether one of them falls between the content size and content + header size
    depends on the corpus size, so the template length sweeps SHRINK_LO..SHRINK_HI DENSELY (step 50, phase drawn per run: every window of ~100 bytes - there are four in the range
    for the doubling loop - is visited twice or more per sweep whatever the phase), with shrinkDictMaxRegression 5 and 20 (shifted by half a step), 1 and 0 on coarser grids,
    k = 64 (segments) and k = L + d - 1 (the whole template in one segment: no redundant content at all), d 6 / 8, plus random sizes / k / capacities / sample counts /
    regressions / shrinkDict values.  Returns (san_ops, msan_ops): the first list runs in the ASan+UBSan build as determinism pairs (fresh heap blocks filled 0x11 / 0xEE, destination
    pre-filled differently) with every monitor of the main loop (capacity, loaders, IDs, round trip, Lean loader); the second runs once each in the MemorySanitizer build with
    unfilled blocks, one and two threads (a single candidate each, so nothing depends on the schedule), where a shrunk candidate built from unwritten bytes is a report even
    when the optimiser then rejects it."""
    san, msan = [], []
    step = 50
    ph = rng.randrange(step)
    def rep(algo, L, k, d, shrink, threads=1, cap=16384, nb=12, split=100, steps=1):
        return _op(algo, cap, k, d, 16, 1, steps, split, shrink, threads, "rep:%d:%d" % (nb, L), rng.randrange(1 << 30))
    for L in range(SHRINK_LO + ph, SHRINK_HI, step):
        san.append(rep("optcover", L, 64, 8, "1r5"))
        san.append(rep("optcover", L + step // 2, rng.choice([64, 64, L + step // 2 + 7]), 8, "1r20"))
        msan.append(rep("optcover", L, rng.choice([64, 64, 48, L + 7]), 8, "1r%d" % rng.choice([0, 1, 5, 100])))
        msan.append(rep("optfast", L, 64, rng.choice([8, 8, 6]), "1r%d" % rng.choice([0, 5])))
    for i, L in enumerate(range(SHRINK_LO + ph, SHRINK_HI, 2 * step)):
        san.append(rep("optcover", L + 10, 64, rng.choice([8, 6]), "1r1"))
        san.append(rep("optfast", L, 64 if i % 2 else L + 7, 8, "1r%d" % rng.choice([0, 5])))
        msan.append(rep("optcover", L + step, 64, 8, "1r5", threads=2))
        msan.append(rep("optfast", L + step, 64, 8, "1", threads=rng.choice([2, 3])))
        if i % 2 == 0:
            san.append(rep("optcover", L + 30, 64, 8, "1r0"))
    for i in range(40 if quick else 400):
        L = rng.randrange(300, 9000)
        d = rng.choice([8, 8, 6])
        algo = rng.choice(["optcover", "optcover", "optfast"])
        o = rep(algo, L, rng.choice([64, 64, 32, 100, 200, L + d - 1, 0]), d, "%dr%d" % (rng.choice([1, 1, 2, 255]), rng.choice([0, 1, 2, 5, 10, 50])),
                cap=rng.choice([8192, 16384, 16384, 40000, 110000]), nb=rng.choice([8, 12, 20, 30]), split=rng.choice([100, 100, 75]), steps=rng.choice([1, 1, 2]))
        (san if i % 2 else msan).append(o)
    # corpora of other kinds, smaller than the capacity, shrinkDict set (candidates of every size are acceptable there: any of them may be returned)
    for kind, nb, ssz in (("pool", 40, 300), ("text", 30, 200), ("same", 20, 900), ("bin", 30, 200), ("pool", 12, 700), ("text", 200, 100)):
        for algo in ("optcover", "optfast", "def"):
            o = _op(algo, rng.choice([20000, 60000, 110000]), 0, rng.choice([0, 6, 8]), 16, 1, rng.choice([1, 2, 4]), rng.choice([100, 75]), "1r%d" % rng.choice([0, 1, 5, 30]), 1, "%s:%d:%d" % (kind, nb, ssz), rng.randrange(1 << 30))
            san.append(o); msan.append(o)
    return san, msan


def legacy_table_min():
    """DICTLISTSIZE_DEFAULT of the current tree's zdict.c (10000 when it cannot be read); only used to SIZE the directed sample sets - whether a run filled its table is
    measured by the harness (tbl=pos/slots)"""
    try:
        m = re.search(r"^#\s*define\s+DICTLISTSIZE_DEFAULT\s+(\d+)", open(os.path.join(build.REPO, "lib/dictBuilder/zdict.c")).read(), re.M)
        return max(2, min(int(m.group(1)), 200000)) if m else 10000
    except OSError:
        return 10000


def table_full_ops(rng, quick):
    """Legacy-trainer runs whose table of candidate segments FILLS UP (ZDICT_trainFromBuffer_unsafe_legacy: max(10000, nbSamples, capacity/16) slots; ordinary corpora stay
    far below).  Sample kind seg<L>s<S>r<R> (harness): T distinct random tokens of L..L+4 bytes recurring R times between fresh random bytes = T candidate segments with
    different savings that merge with nothing; T is 3..12 % above the table's slot count, so the table becomes full and further candidates must displace its lowest-ranked
    entries (and the later passes - size limit, content building, entropy statistics - run on a full table).  The three ways the slot count is decided: the minimum
    (small and tiny capacities), capacity/16, the number of samples (> 10000 tiny samples; selectivity 11 keeps the repetition threshold at nbSamples >> 11).
    Sanitizer build, determinism pair; the harness reports tbl=<used slots>/<slots>: counted (legacy_table_full_runs), a note when the family stops filling the table."""
    ops = []
    LEGACY_TABLE_MIN = legacy_table_min()
    def one(cap, nb, slots, L, S, R, sel):
        over = rng.choice([103, 105, 108, 112])
        T = slots * over // 100 + 1
        total = T * R * (L + 2 + S) + 64
        ssz = total // nb + 1
        ops.append(_op("legacy", cap, sel, 0, 0, 0, 0, 100, 0, 1, "seg%ds%dr%d:%d:%d" % (L, S, R, nb, ssz), rng.randrange(1 << 30), dict_id=rng.choice([0, 0, 777])))
    for _ in range(1 if quick else 6):
        one(rng.choice([60000, 100000, 112640]), rng.choice([40, 64, 200]), LEGACY_TABLE_MIN, rng.choice([8, 9]), rng.choice([3, 4, 6]), 5, 0)          # minimum table, ordinary capacity
        one(rng.choice([256, 1000, 2000, 4000]), rng.choice([16, 64]), LEGACY_TABLE_MIN, rng.choice([8, 10, 12]), rng.choice([2, 3]), 5, rng.choice([0, 9]))  # minimum table, tiny capacity: almost all of it cut by the size limit
        cap = rng.choice([168000, 176000, 184000])
        one(cap, rng.choice([50, 128]), cap // 16, 8, rng.choice([3, 4]), 5, 0)                                                                       # slots = capacity / 16
        nb = rng.choice([10300, 10500, 10900])
        one(rng.choice([20000, 110000]), nb, nb, 8, rng.choice([3, 4]), 6, 11)                                                                        # slots = number of samples
    return ops


def dins_ops(rng, quick):
    """ZDICT_insertDictItem at function level (candidates that merge with nothing): tables of 2..100 slots, 0 .. 3x as many candidates as slots - always including
    exactly-full (slots-1 candidates), the first displacement (slots), and long runs on a full table - with rising, falling, constant, few-valued and random savings."""
    ops = []
    for m in (2, 3, 4, 5, 8, 16, 33, 100):
        for cnt in (0, 1, m - 2, m - 1, m, m + 1, 2 * m + 3, 3 * m):
            for pat in (("rise", "fall", "const", "few", "rand") if quick else ("rise", "fall", "const", "few", "rand", "rand", "few", "rand")):
                if cnt <= 0:
                    sv = []
                elif pat == "rise":
                    sv = [10 + 3 * i for i in range(cnt)]
                elif pat == "fall":
                    sv = [10 + 3 * (cnt - i) for i in range(cnt)]
                elif pat == "const":
                    sv = [rng.randrange(1, 1000)] * cnt
                elif pat == "few":
                    sv = [rng.choice([4, 4, 9, 20]) for _ in range(cnt)]
                else:
                    sv = [rng.choice([rng.randrange(1, 50), rng.randrange(1, 1 << 20), (1 << 32) - 2, 0]) for _ in range(cnt)]
                ops.append("dins %d %s" % (m, ",".join(map(str, sv)) or "-"))
    return sorted(set(ops))


def epochs_ops(rng, quick):
    """COVER_computeEpochs at function level (defined inputs only: nbDmers >= 1, k >= 1): the small d-mer counts, the k*10 thresholds, capacities below / above k"""
    ops = []
    for _ in range(150 if quick else 3000):
        k = rng.choice([1, 6, 8, 16, 50, 50, 200, 537, 2000, 100000])
        cap = rng.choice([0, 1, 255, 256, 1000, 5000, 65536, 110000, k, 4 * k, 40 * k + 3])
        n = rng.choice([1, 2, 7, 9, k, 10 * k - 1, 10 * k, 10 * k + 1, 20 * k, 450000, rng.randrange(1, 3000), rng.randrange(1, 1 << 22), max(1, (cap // k) * 10 * k + rng.randrange(-2, 3))])
        ops.append("epochs %d %d %d %d" % (cap, n, k, rng.choice([1, 4])))
    return ops


def ctx_ops(rng, quick):
    """FASTCOVER_ctx_init / COVER_ctx_init at function level: sample counts around the 5-training / 1-test rules, totals and training parts around max(d,8)"""
    ops = []
    for which in ("fast", "cover"):       # the grid around training part == max(d,8): H training samples of 0..3 bytes, test samples large enough for the total
        for d in (6, 8, 16):
            for nb, split in ((10, 70), (8, 75), (20, 80), (10, 100)):
                H = int(nb * (split / 100.0)) if split < 100 else nb - 1
                for B in (0, 1, 2, 3):
                    ops.append("ctx %s %d %d 12 lead%dx%d:%d:%d:%d" % (which, d, split, H, B, nb, rng.choice([12, 40, 200]), rng.randrange(1 << 30)))
    for _ in range(120 if quick else 2000):
        nb = rng.choice([1, 4, 5, 6, 7, 8, 10, 12, 20, 40])
        split = rng.choice([100, 100, 75, 75, 50, 70, 80, 90, 1])
        d = rng.choice([6, 8, 8, 16, 300]) if rng.random() < 0.5 else rng.choice([6, 8])
        H = int(nb * (split / 100.0)) if split < 100 else nb
        kind = rng.choice(["lead%dx%d" % (H, rng.choice([0, 1, 1, 2, 3])), "lead%dx%d" % (max(0, H - 1), rng.choice([0, 1, 2])), "small", "mixed", "text", "tiny", "empty"])
        ops.append("ctx %s %d %d 12 %s:%d:%d:%d" % (rng.choice(["fast", "cover"]), d, split, kind, nb, rng.choice([1, 3, 8, 12, 40, 200]), rng.randrange(1 << 30)))
    return ops


F_VALUES = [0, 1, 31, 32, 33, 39, 40, 63, 64, 65, 255, (1 << 32) - 1]
ACCEL_VALUES = [0, 1, 10, 11, 255, (1 << 32) - 1]
F_ALLOC_LIMIT_MB = 1024


def fparam_ops(rng, quick):
    """f and accel at, around and far beyond their bounds (FASTCOVER_MAX_F = 31, FASTCOVER_MAX_ACCEL = 10; 0 = default) through ZDICT_trainFromBuffer_fastCover AND
    ZDICT_optimizeTrainFromBuffer_fastCover, everything else valid (k = 64, d = 8 on 40 text samples, capacity 4096; the optimiser also with k / d searched and with two
    threads).  f = 64 / 65 are the values whose 1 << f wraps on x86-64, 32..63 the ones that size a table of 16 GiB and more."""
    ops = []
    seed = rng.randrange(1 << 30)
    for algo in ("fastcover", "optfast"):
        for f in F_VALUES:
            ops.append(_op(algo, 4096, 64, 8, f, 1, 1, 100 if algo == "fastcover" else rng.choice([75, 100]), 0, 1, "text:40:300", seed))
        for accel in ACCEL_VALUES:
            ops.append(_op(algo, 4096, 64, 8, 12, accel, 1, 100, 0, 1, "text:40:300", seed))
    for f in (32, 40, 64, 65, (1 << 32) - 1) if quick else F_VALUES:
        ops.append(_op("optfast", 4096, 0, 0, f, 1, 2, 75, 0, 1, "text:40:300", seed))            # k and d searched
        ops.append(_op("optfast", 4096, 64, 8, f, 1, 1, 75, 0, 2, "text:40:300", seed))           # worker threads
    return ops


def run_each(exe, ops, timeout=900, env=None):
    def work(chunk):
        res = []
        i = 0
        while i < len(chunk):
            rc, out, err = zv.run([exe], "\n".join(chunk[i:]) + "\n", timeout=timeout, env=env)
            lines = out.split("\n")[:-1] if out.endswith("\n") else out.split("\n")
            lines = [l for l in lines if l]
            res += [(l, None) for l in lines[:len(chunk) - i]]
            i += len(lines)
            if lines and lines[-1].startswith("res=HANG"):
                continue        # the alarm handler printed the verdict for that operation and ended the process: restart with the next one
            if i < len(chunk):
                head = next((l.strip() for l in err.split("\n") if "ERROR: " in l or "runtime error" in l), "")      # the sanitizer's own one-line verdict, then the tail
                res.append((None, "exit %d: %s%s" % (rc, head[:300] + " ... " if head else "", err[-1500:])))
                i += 1
        return res
    return frames.parallel(work, frames.split_chunks(ops, 16))


def correspondence(ctx):
    rng = ctx.rng
    quick = ctx.quick()
    n = 320 if quick else 6000
    ops = [gen_op(rng, quick) for _ in range(n)]
    gen_set = set(ops)
    ops += ["train finalize 3000 1500 0 0 0 0 100 0 1 0 3 off1024:60:300:11 0 1", "train finalize 3000 2000 0 0 0 0 100 0 1 0 3 off1025:60:300:12 0 1", "train addent 4000 1500 0 0 0 0 100 0 1 0 3 off1024:60:300:13 0 1",
            "train optfast 6000 0 8 16 2 6 75 0 3 0 3 text:300:500:14 1 9", "train optcover 5000 0 8 0 0 4 100 0 2 0 3 text:120:400:15 1 9", "train def 30000 0 0 0 0 0 100 0 1 0 3 text:500:700:16 0 1"]
    sv_ops = size_varying_ops(rng, quick)
    rm_ops = remainder_ops(rng, quick)
    tt_ops = tiny_training_ops(rng, quick)
    sh_ops, ms_ops = shrink_ops(rng, quick)
    ops += sv_ops + rm_ops + tt_ops + sh_ops
    sv_set = set(sv_ops)
    tf_ops = table_full_ops(rng, quick)
    tf_set = set(tf_ops)
    for i, o_ in enumerate(tf_ops):          # spread over the parallel chunks (each is a 1..3 s run in the sanitizer build)
        ops.insert((len(ops) // (len(tf_ops) + 1)) * (i + 1) % (len(ops) + 1), o_)
    res = run_each(hx("san"), ops)
    stats = dict(ok=0, err=0, zero=0, holders=0, finalize_ties=0, id_ties=0, param_ties=0, excluded=0, grown=0, grown_directed=0, table_full=0, table_full_directed=0, table_max_fill=0.0)
    excluded = []
    loads, loadmeta, fins, finmeta, cids, cidmeta, bests, bestmeta, pm, pmeta = [], [], [], [], [], [], [], [], [], []
    for op, (o, crash) in zip(ops, res):
        w = op.split()
        algo, cap, k, d, f, accel, steps, split, threads, dict_id = w[1], int(w[2]), int(w[3]), int(w[4]), int(w[5]), int(w[6]), int(w[7]), int(w[8]), int(w[10]), int(w[11])
        kind, nb, ssz = w[13].split(":")[0], int(w[13].split(":")[1]), int(w[13].split(":")[2])
        if crash is not None or o is None or o.startswith("res=HANG"):
            ctx.violation("training crashed / sanitizer report / hang: %s -> %s" % (op, (crash or o)[:300] + " ... " + (crash or o)[-300:] if len(crash or o) > 600 else (crash or o)), dict(kind="monitor", op=op, stderr=crash or o))
            continue
        if o.startswith("res=excluded:"):
            # the ONE shape the harness answers without calling the library (see EXCLUDED in harness/zvh_train.c): a reported defect of the unchanged tree
            # (optimiser, split < 1, training part below max(d,8) bytes: SIGFPE / out-of-bounds read); counted and listed in the evidence, never silently dropped
            stats["excluded"] += 1; excluded.append(op); continue
        m = re.match(r"res=(\S+) loadC=(\S+) loadD=(\S+) ids=(\d+),(\d+),(\d+),(\d+) hsize=(\d+) rt=(\d+)/(\d+) det=(\S+) content=(\d+) ev=(.*?) dict=(\S+)(?: grow=(\d+) cands=(\d+))?(?: tbl=(\d+)/(\d+))?$", o)
        if not m:
            ctx.violation("unparsable harness line: %s" % o[:200], dict(kind="internal", op=op), no_input=True); continue
        r, lc, ld, i1, i2, i3, i4, hs, rok, rtried, det, chash, evs, dhex, grow, cands, tpos, tent = m.groups()
        if tent and int(tent):
            stats["table_max_fill"] = max(stats["table_max_fill"], round(int(tpos) / int(tent), 4))
            if int(tpos) > int(tent):
                ctx.violation("the legacy trainer's candidate table claims %s used slots, it has %s: %s" % (tpos, tent, op), dict(kind="monitor", op=op, result=o[:300]))
            if int(tpos) >= int(tent):
                stats["table_full"] += 1
                stats["table_full_directed"] += 1 if op in tf_set else 0
        if grow and int(grow) > 0:
            stats["grown"] += 1
            if op in sv_set:
                stats["grown_directed"] += 1
        if det == "DIFF":
            ctx.violation("single-threaded training is not deterministic: %s" % op, dict(kind="monitor", op=op, result=o[:300]))
        if evs != "-":
            bests.append("best " + evs); bestmeta.append(op)
        # parameter verdict tie (function level, through the API's first check)
        if algo in ("cover", "fastcover") and nb > 0 and cap >= 256:
            # the direct trainers force splitPoint = 1.0 and default f / accel before checking
            pm.append(("cparams %d %d 100 100 %d" % (k, d, cap)) if algo == "cover" else ("fparams %d %d 100 100 %d %d %d" % (k, d, cap, f if f else 20, accel if accel else 1)))
            pmeta.append((op, r))
        if r.startswith("OVERFLOW"):
            ctx.violation("dictionary larger than the capacity: %s -> %s" % (op, r), dict(kind="monitor", op=op, result=o[:300])); continue
        if r.startswith("err"):
            stats["err"] += 1; continue
        if r == "zero":
            stats["zero"] += 1; continue
        stats["ok"] += 1
        size = int(r.split(":")[1])
        if lc != "ok" or ld != "ok":
            ctx.violation("trained dictionary rejected by a loader (compressor side %s, decoder side %s): %s" % (lc, ld, op), dict(kind="monitor", op=op, result=o[:300], dict=dhex[:4000])); continue
        if not (i1 == i2 == i3 == i4) or i1 == "0":
            ctx.violation("dictionary ID queries disagree or report 0 (%s,%s,%s,%s): %s" % (i1, i2, i3, i4, op), dict(kind="monitor", op=op, result=o[:300])); continue
        if dict_id and algo not in ("def", "addent") and int(i1) != dict_id:
            ctx.violation("dictionary carries ID %s, the caller asked for %d: %s" % (i1, dict_id, op), dict(kind="monitor", op=op, result=o[:300]))
        if rok != rtried:
            ctx.violation("%d of %s samples do not round-trip with the trained dictionary: %s" % (int(rtried) - int(rok), rtried, op), dict(kind="monitor", op=op, result=o[:300], dict=dhex[:4000])); continue
        if dhex != "-":
            loads.append("dictload " + dhex); loadmeta.append((op, i1))
        if algo == "finalize":
            total = None
            fins.append((int(hs), k, cap, size, op))
            if dict_id == 0:
                cids.append("cid " + chash); cidmeta.append((op, i1))
    # ---- model ties ----
    def drv(model, lines):
        if not lines:
            return []
        rc, out, err = zv.run([zv.driver_exe(), model], "\n".join(lines) + "\n", timeout=900)
        return out.split("\n")
    for (op, idv), v in zip(loadmeta, drv("dec", loads)):
        mm = re.match(r"C=ok:(\d+) D=ok:(\d+) idDict=(\d+)", v)
        if not mm or mm.group(1) != idv:
            ctx.violation("the Lean loader model does not accept the trained dictionary the library accepts (or reads another ID): %s -> %s" % (op, v[:100]), dict(kind="tie-loader", op=op, model=v), no_input=True)
    # finalize layout: content offered = min(k, total bytes); total = sum of sample sizes is not echoed, so compare only when the model's two candidates agree with the observation
    flines = []
    for hs, k, cap, size, op in fins:
        flines.append("fin %d %d %d" % (hs, k, cap))
    for (hs, k, cap, size, op), v in zip(fins, drv("train", flines)):
        w = op.split(); nb, ssz = int(w[13].split(":")[1]), int(w[13].split(":")[2])
        if w[13].startswith(("text", "tiny", "bin", "off")) and nb * (ssz // 2) >= k:      # then the content offered is exactly k bytes
            stats["finalize_ties"] += 1
            if not v.startswith("some %d " % size):
                ctx.violation("ZDICT_finalizeDictionary wrote %d bytes, the layout model says %s (header %d, content %d, capacity %d): %s" % (size, v, hs, k, cap, op), dict(kind="tie-finalize", op=op, model=v), no_input=True)
    for (op, idv), v in zip(cidmeta, drv("train", cids)):
        stats["id_ties"] += 1
        if v.strip() != idv:
            ctx.violation("automatic dictionary ID %s differs from the rule's %s: %s" % (idv, v, op), dict(kind="tie-id", op=op), no_input=True)
    for (op, r), v in zip(pmeta, drv("train", pm)):
        stats["param_ties"] += 1
        bad = (v.strip() == "0")
        if bad != (r == "err:parameter_outOfBound"):
            ctx.violation("parameter check: model says %s, trainer answered %s: %s" % ("invalid" if bad else "valid", r, op), dict(kind="tie-params", op=op), no_input=True)
    for op, v in zip(bestmeta, drv("train", bests)):
        if v.startswith("accept"):
            stats["holders"] += 1
        else:
            ctx.violation("the optimiser's result-holder events are not a path of the protocol model: %s -> %s" % (op, v), dict(kind="tie-best-protocol", op=op, verdict=v), no_input=True)
    # ---- f / accel validation of both fastCover entry points, allocator limited (an out-of-range f must be refused BEFORE anything is sized by it) ----
    fp_ops = fparam_ops(rng, quick)
    fp_env = dict(os.environ, ASAN_OPTIONS=":".join(x for x in (os.environ.get("ASAN_OPTIONS", ""), "allocator_may_return_null=1", "max_allocation_size_mb=%d" % F_ALLOC_LIMIT_MB) if x))
    fp_lines, fp_meta = [], []
    for op, (o, crash) in zip(fp_ops, run_each(hx("san"), fp_ops, timeout=300, env=fp_env)):
        w = op.split(); algo, cap, k, d, f, accel = w[1], int(w[2]), int(w[3]), int(w[4]), int(w[5]), int(w[6])
        entry = "ZDICT_trainFromBuffer_fastCover" if algo == "fastcover" else "ZDICT_optimizeTrainFromBuffer_fastCover"
        stats["fparam_runs"] = stats.get("fparam_runs", 0) + 1
        if crash is not None or o is None or o.startswith("res=HANG"):
            ctx.violation("%s with f=%d accel=%d crashed / sanitizer report / hang: %s -> %s" % (entry, f, accel, op, (crash or o)[:400] + " ... " + (crash or o)[-300:]), dict(kind="monitor", op=op, stderr=crash or o, asan_options=fp_env["ASAN_OPTIONS"]))
            continue
        m = re.match(r"res=(\S+) ", o)
        r = m.group(1) if m else "unparsable"
        fe, ae = (f if f else 20), (accel if accel else 1)
        flagged = False
        if fe > 31 or ae > 10:
            if r != "err:parameter_outOfBound":
                flagged = True
                ctx.violation("%s accepts / mishandles an out-of-range parameter (f=%d, accel=%d; bounds 31 and 10): answered %s%s: %s" % (
                    entry, f, accel, r, " (it tried to allocate the 2^f counters: refused by the %d MiB allocator limit of this run)" % F_ALLOC_LIMIT_MB if r == "err:memory_allocation" else "", op),
                    dict(kind="monitor", op=op, result=o[:300], asan_options=fp_env["ASAN_OPTIONS"]))
        elif not (r.startswith("ok:") or (r == "err:memory_allocation" and (4 << fe) >= (F_ALLOC_LIMIT_MB << 20))):
            ctx.violation("%s refuses valid parameters (f=%d, accel=%d, k=%d, d=%d): %s: %s" % (entry, f, accel, k, d, r, op), dict(kind="monitor", op=op, result=o[:300]))
        if " det=DIFF " in o:
            ctx.violation("single-threaded training is not deterministic: %s" % op, dict(kind="monitor", op=op, result=o[:300]))
        if k and d and not flagged:
            fp_lines.append("fparams %d %d 100 100 %d %d %d" % (k, d, cap, fe, ae)); fp_meta.append((op, r, entry))
    for (op, r, entry), v in zip(fp_meta, drv("train", fp_lines)):
        stats["param_ties"] += 1
        bad = (v.strip() == "0")
        if bad != (r == "err:parameter_outOfBound"):
            ctx.violation("parameter check of %s: model says %s, trainer answered %s: %s" % (entry, "invalid" if bad else "valid", r, op), dict(kind="tie-params", op=op), no_input=True)
    # ---- function-level tie: ZDICT_insertDictItem (no merge) == Train.insertAll; sanitizer build, table block of exactly maxSize slots ----
    d_ops = dins_ops(rng, quick)
    d_bad = 0
    for op, (o, crash), v in zip(d_ops, run_each(hx("san"), d_ops), drv("train", d_ops)):
        stats["dins_ties"] = stats.get("dins_ties", 0) + 1
        if d_bad >= 4:
            continue           # enough replays of the same function
        if crash is not None or o is None:
            d_bad += 1
            ctx.violation("ZDICT_insertDictItem on a table of %s slots, %d candidates: crash / sanitizer report: %s -> %s" % (op.split()[1], 0 if op.split()[2] == "-" else op.count(",") + 1, op[:120], (crash or "")[:400]), dict(kind="monitor", op=op, stderr=crash))
        elif o.strip() != v.strip():
            d_bad += 1
            ctx.violation("ZDICT_insertDictItem: table after the insertions is %s, the model says %s: %s" % (o[:200], v[:200], op[:200]), dict(kind="tie-dict-item-table", op=op, model=v, code=o))
    # ---- function-level ties: COVER_computeEpochs == Train.computeEpochs; the two ctx_init == Train.ctxInit (d-mer count of the TRAINING part, or srcSize_wrong) ----
    e_ops = epochs_ops(rng, quick)
    for op, (o, crash), v in zip(e_ops, run_each(hx("san"), e_ops), drv("train", e_ops)):
        stats["epoch_ties"] = stats.get("epoch_ties", 0) + 1
        if crash is not None or (o or "").strip() != v.strip() or v.strip() == "undefined":
            ctx.violation("COVER_computeEpochs: code %s, model %s: %s" % ((crash or o or "")[-200:], v, op), dict(kind="tie-epochs", op=op, model=v, code=crash or o))
    c_ops = ctx_ops(rng, quick)
    c_res = run_each(hx("san"), c_ops)
    c_lines, c_meta = [], []
    for op, (o, crash) in zip(c_ops, c_res):
        m = re.match(r"ctx res=(\S+) n=(\d+) total=(\d+) train=(\d+) nbTrain=(\d+) nbTest=(\d+)$", o or "")
        if crash is not None or not m:
            ctx.violation("context initialisation crashed / sanitizer report: %s -> %s" % (op, (crash or o or "")[-400:]), dict(kind="monitor", op=op, stderr=crash or o)); continue
        if m.group(1) == "excluded":
            stats["excluded"] += 1; excluded.append(op); continue
        d = int(op.split()[2])
        c_lines.append("ctxinit %s %s %s %s %d" % (m.group(3), m.group(4), m.group(5), m.group(6), d)); c_meta.append((op, m, d))
    for (op, m, d), v in zip(c_meta, drv("train", c_lines)):
        stats["ctx_ties"] = stats.get("ctx_ties", 0) + 1
        code = "ok %s" % m.group(2) if m.group(1) == "ok" else "err"
        if code == v.strip() and (code != "err" or m.group(1) == "err:srcSize_wrong"):
            continue
        total, train, nbTrain, nbTest, split = int(m.group(3)), int(m.group(4)), int(m.group(5)), int(m.group(6)), int(op.split()[3])
        if os.environ.get("ZV_C18_EXCLUDE") and v.strip() == "err" and m.group(1) == "ok" and split < 100 and train < max(d, 8) <= total and nbTrain >= 5 and nbTest >= 1 and int(m.group(2)) == (train - max(d, 8) + 1) % (1 << 64):
            # the EXCLUDED shape (harness/zvh_train.c) at function level: the context is accepted with 0 / a wrapped-around number of d-mers because the size check
            # looks at the whole sample set instead of the training part - the reported defect of the unchanged tree; counted, listed, not tolerated for anything else
            stats["excluded"] += 1; excluded.append(op); continue
        ctx.violation("ctx_init: code answers %s (%s d-mers), the model %s: %s" % (m.group(1), m.group(2), v.strip(), op), dict(kind="tie-ctx-init", op=op, model=v, code=o))
    # ---- MemorySanitizer: blocks and destinations left unwritten; the shrink sweeps (one and several threads) and a sample of the operations that trained a dictionary above ----
    okops = [op for op, (o, crash) in zip(ops, res) if op in gen_set and crash is None and (o or "").startswith("res=ok:") and int(op.split()[5]) <= 20 and int(op.split()[10]) <= 1]
    ms_ops = ms_ops + okops[: (30 if quick else 600)] + rm_ops[:: (12 if quick else 3)]
    ms_env = dict(os.environ, MSAN_OPTIONS=":".join(x for x in (os.environ.get("MSAN_OPTIONS", ""), "halt_on_error=1", "exitcode=77") if x))
    ms_bad = 0
    for op, (o, crash) in zip(ms_ops, run_each(hx("msan"), ms_ops, timeout=900, env=ms_env)):
        stats["msan_runs"] = stats.get("msan_runs", 0) + 1
        if crash is None and o is not None and not o.startswith("res=HANG"):
            if o.startswith("res=OVERFLOW"):
                ctx.violation("dictionary larger than the capacity (MemorySanitizer build): %s -> %s" % (op, o[:60]), dict(kind="monitor", op=op, variant="msan", result=o[:300]))
            continue
        ms_bad += 1
        if ms_bad > 6:
            continue           # enough replays of one cause
        summ = next((l.strip() for l in (crash or "").split("\n") if l.startswith("SUMMARY: ")), "")
        where = [l.strip() for l in (crash or "").split("\n") if re.match(r"\s+#\d+ ", l) and "dictBuilder" in l][:3]
        ctx.violation("training uses memory nobody wrote (MemorySanitizer) / crashes / hangs in the MemorySanitizer build: %s -> %s %s" % (op, summ or (crash or o or "")[:300], " | ".join(w[:160] for w in where)),
                      dict(kind="monitor-msan", op=op, variant="msan", stderr=(crash or o or "")[-6000:]))
    # ---- ThreadSanitizer on multi-threaded optimiser runs ----
    tops = [o for o in ops if o.split()[1] in ("optcover", "optfast", "def") and int(o.split()[10]) > 1][: (6 if quick else 150)]
    env = dict(os.environ, TSAN_OPTIONS="halt_on_error=1")
    for op, (o, crash) in zip(tops, run_each(hx("tsan"), tops, timeout=1500, env=env)):
        if crash is not None and ("ThreadSanitizer" in crash or "exit -" in crash):
            ctx.violation("ThreadSanitizer / crash in the TSan build: %s -> %s" % (op, crash[-400:]), dict(kind="monitor-tsan", op=op, stderr=crash))
    if excluded:
        ctx.notes.append("%d operation(s) of the excluded shape (optimiser with split < 1 and a training part below max(d,8) bytes: known crash of the unchanged tree, see harness/zvh_train.c) were not run: %s" % (len(excluded), excluded[:5]))
    if stats["table_full_directed"] < len(tf_ops):
        ctx.notes.append("only %d of the %d directed legacy runs filled their candidate table (best fill %.4f): the family no longer reaches the full-table case" % (stats["table_full_directed"], len(tf_ops), stats["table_max_fill"]))
    if stats["grown_directed"] == 0:
        ctx.notes.append("none of the %d size-varying optimiser runs made the result holder grow its buffer: the directed family no longer reaches that case" % len(sv_ops))
    return dict(legacy_table_full_directed_runs=len(tf_ops), legacy_table_full_runs=stats["table_full"], legacy_table_full_runs_directed=stats["table_full_directed"], legacy_table_best_fill=stats["table_max_fill"], dict_item_table_ties=stats.get("dins_ties", 0),
                shrink_sweep_runs=len(sh_ops), memory_sanitizer_runs=stats.get("msan_runs", 0), excluded_known_crash_shape=stats["excluded"], fastcover_f_accel_validation_runs=stats.get("fparam_runs", 0), size_varying_runs=len(sv_ops), holder_buffer_regrowths=stats["grown"], holder_buffer_regrowths_directed=stats["grown_directed"], remainder_sweep_runs=len(rm_ops), tiny_training_part_runs=len(tt_ops), epochs_ties=stats.get('epoch_ties', 0), ctx_init_ties=stats.get('ctx_ties', 0),
                evaluations=len(ops) + len(ms_ops) + len(tops) + len(e_ops) + len(c_ops) + len(d_ops) + len(fp_ops), distinct_nontrivial=len(set(ops)) + len(set(e_ops)) + len(set(c_ops)) + len(set(d_ops)) + len(set(fp_ops)),
                rule="one evaluation = one training call (x2 when single-threaded, for determinism) on a generated sample set; distinct = distinct op lines",
                samples=[dict(op=ops[0], result=(res[0][0] or "")[:200])], outcomes=dict(ok=stats["ok"], error=stats["err"], zero=stats["zero"]),
                result_holder_traces_accepted=stats["holders"], finalize_layout_ties=stats["finalize_ties"], id_rule_ties=stats["id_ties"], parameter_verdict_ties=stats["param_ties"], lean_loader_checks=len(loads), tsan_runs=len(tops))


def replay(ctx, data):
    op = data["op"]
    env = dict(os.environ, ASAN_OPTIONS=data["asan_options"]) if data.get("asan_options") else None
    res = run_each(hx(data.get("variant", "san")), [op], env=env)
    o, crash = res[0]
    if data.get("asan_options") and crash is None:
        w = op.split(); bad = (int(w[5]) or 20) > 31 or (int(w[6]) or 1) > 10
        return dict(violates=bad and not (o or "").startswith("res=err:parameter_outOfBound "), result=(o or "")[:400])
    if op.startswith("dins ") and crash is None:
        rc, out, err = zv.run([zv.driver_exe(), "train"], op + "\n", timeout=300)
        return dict(violates=(o or "").strip() != out.strip(), result=(o or "")[:400], model=out.strip()[:400])
    return dict(violates=crash is not None or "DIFF" in (o or "") or "OVERFLOW" in (o or ""), result=(o or crash)[:400])
