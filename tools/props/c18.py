"""C18 — dictionary training.  Every ZDICT entry point on degenerate and ordinary sample sets x capacities x parameter vectors (valid and invalid),
in the ASan+UBSan build: the outcome is an error / 0, or a dictionary within the capacity that both loaders and the Lean loader model accept, with
one non-zero ID reported identically by the four ID queries, with which the samples round-trip; single-threaded runs are repeated (shifted heap)
and byte-compared.  Model ties: ZDICT_finalizeDictionary's size == Train.finalizeLayout, automatic ID == Train.compliantID(XXH64(content)),
parameter verdicts == Train.coverParamsOk / fastCoverParamsOk, and the optimisers' result-holder events (COVER_best_t mutex interposed) are
replayed by the LTS Train.bstep.  Multi-threaded optimiser runs are repeated under ThreadSanitizer."""
import os, re
import build, zv, frames

ASSUMPTIONS = ["segment selection (suffix array, cover / fastCover scoring) is not modelled: memory safety of the trainers rests on the sanitizer runs over the generated sample sets",
               "optimiser worker schedules are sampled (perturbed), race freedom beyond the result holder is ThreadSanitizer on those samples"]

ALGOS = ["def", "cover", "fastcover", "optcover", "optfast", "legacy", "finalize", "addent"]


def hx(variant="plain"):
    return build.link("zvh_train", ["zvh_train.c", "zvh_train_cover.c"], variant, exclude=("cover.c",))


def gen_op(rng, quick):
    algo = rng.choice(ALGOS + ["finalize", "optfast", "fastcover"])
    kind = rng.choice(["text", "text", "text", "same", "tiny", "empty", "small", "mixed", "bin", "off1024", "off1023", "off1025", "off8"])
    if kind.startswith("off"):
        algo = rng.choice(["finalize", "finalize", "addent", "cover", "fastcover"])
    nb = rng.choice([0, 1, 2, 5, 9, 40, 200, 600])
    ssz = rng.choice([0, 1, 7, 8, 40, 300, 800, 2500])
    if kind.startswith("off"):
        nb, ssz = rng.choice([30, 80]), rng.choice([200, 400])
    cap = rng.choice([0, 100, 255, 256, 257, 400, 1000, 4000, 20000, 110000])
    k = rng.choice([0, 1, 8, 16, 50, 200, 1024, 2000, 5000, 100000]) if algo not in ("finalize", "addent") else rng.choice([0, 1, 7, 8, 9, 100, 1024, 1500, 3000, 50000])
    d = rng.choice([0, 6, 8, 8, 8, 7, 16, 300])
    # f = 31 is legal but makes fastCover allocate and sweep 2^31-entry tables (20 GiB per attempt): a resource demand, not a hang - the
    # largest table trained for real is 2^26 entries; 32 (rejected at once) stays
    f = rng.choice([0, 1, 10, 16, 20, 26, 32])
    accel = rng.choice([0, 1, 1, 2, 5, 10, 11])
    steps = rng.choice([0, 1, 3, 4, 8]) if quick else rng.choice([0, 1, 4, 10, 40])
    split = rng.choice([100, 100, 75, 50, 1, 0, 101])
    threads = rng.choice([0, 1, 1, 2, 3]) if algo in ("optcover", "optfast") else 1
    if algo in ("optcover",) and nb * ssz > 200000:
        nb = 100
    dict_id = rng.choice([0, 0, 0, 1, 777, 40000, (1 << 31), (1 << 32) - 1])
    level = rng.choice([0, 3, 1, 19, -5])
    return "train %s %d %d %d %d %d %d %d %d %d %d %d %s:%d:%d:%d %d %d" % (algo, cap, k, d, f, accel, steps, split, rng.choice([0, 0, 1]), threads, dict_id, level, kind, nb, ssz,
                                                                              rng.randrange(1 << 30), 1 if threads > 1 and rng.random() < 0.6 else 0, rng.randrange(1 << 30))


def run_each(exe, ops, timeout=900, env=None):
    def work(chunk):
        res = []
        i = 0
        while i < len(chunk):
            rc, out, err = zv.run([exe], "\n".join(chunk[i:]) + "\n", timeout=timeout, env=env)
            lines = out.split("\n")[:-1] if out.endswith("\n") else out.split("\n")
            lines = [l for l in lines if l]
            res += [(l, None) for l in lines[:len(chunk) - i]]
            i += len(lines)
            if lines and lines[-1].startswith("res=HANG"):
                continue        # the alarm handler printed the verdict for that operation and ended the process: restart with the next one
            if i < len(chunk):
                res.append((None, "exit %d: %s" % (rc, err[-1500:])))
                i += 1
        return res
    return frames.parallel(work, frames.split_chunks(ops, 16))


def correspondence(ctx):
    rng = ctx.rng
    quick = ctx.quick()
    n = 320 if quick else 6000
    ops = [gen_op(rng, quick) for _ in range(n)]
    ops += ["train finalize 3000 1500 0 0 0 0 100 0 1 0 3 off1024:60:300:11 0 1", "train finalize 3000 2000 0 0 0 0 100 0 1 0 3 off1025:60:300:12 0 1", "train addent 4000 1500 0 0 0 0 100 0 1 0 3 off1024:60:300:13 0 1",
            "train optfast 6000 0 8 16 2 6 75 0 3 0 3 text:300:500:14 1 9", "train optcover 5000 0 8 0 0 4 100 0 2 0 3 text:120:400:15 1 9", "train def 30000 0 0 0 0 0 100 0 1 0 3 text:500:700:16 0 1"]
    res = run_each(hx("san"), ops)
    stats = dict(ok=0, err=0, zero=0, holders=0, finalize_ties=0, id_ties=0, param_ties=0)
    loads, loadmeta, fins, finmeta, cids, cidmeta, bests, bestmeta, pm, pmeta = [], [], [], [], [], [], [], [], [], []
    for op, (o, crash) in zip(ops, res):
        w = op.split()
        algo, cap, k, d, f, accel, steps, split, threads, dict_id = w[1], int(w[2]), int(w[3]), int(w[4]), int(w[5]), int(w[6]), int(w[7]), int(w[8]), int(w[10]), int(w[11])
        kind, nb, ssz = w[13].split(":")[0], int(w[13].split(":")[1]), int(w[13].split(":")[2])
        if crash is not None or o is None or o.startswith("res=HANG"):
            ctx.violation("training crashed / sanitizer report / hang: %s -> %s" % (op, (crash or o)[-500:]), dict(kind="monitor", op=op, stderr=crash or o))
            continue
        m = re.match(r"res=(\S+) loadC=(\S+) loadD=(\S+) ids=(\d+),(\d+),(\d+),(\d+) hsize=(\d+) rt=(\d+)/(\d+) det=(\S+) content=(\d+) ev=(.*?) dict=(\S+)$", o)
        if not m:
            ctx.violation("unparsable harness line: %s" % o[:200], dict(kind="internal", op=op), no_input=True); continue
        r, lc, ld, i1, i2, i3, i4, hs, rok, rtried, det, chash, evs, dhex = m.groups()
        if det == "DIFF":
            ctx.violation("single-threaded training is not deterministic: %s" % op, dict(kind="monitor", op=op, result=o[:300]))
        if evs != "-":
            bests.append("best " + evs); bestmeta.append(op)
        # parameter verdict tie (function level, through the API's first check)
        if algo in ("cover", "fastcover") and nb > 0 and cap >= 256:
            # the direct trainers force splitPoint = 1.0 and default f / accel before checking
            pm.append(("cparams %d %d 100 100 %d" % (k, d, cap)) if algo == "cover" else ("fparams %d %d 100 100 %d %d %d" % (k, d, cap, f if f else 20, accel if accel else 1)))
            pmeta.append((op, r))
        if r.startswith("OVERFLOW"):
            ctx.violation("dictionary larger than the capacity: %s -> %s" % (op, r), dict(kind="monitor", op=op, result=o[:300])); continue
        if r.startswith("err"):
            stats["err"] += 1; continue
        if r == "zero":
            stats["zero"] += 1; continue
        stats["ok"] += 1
        size = int(r.split(":")[1])
        if lc != "ok" or ld != "ok":
            ctx.violation("trained dictionary rejected by a loader (compressor side %s, decoder side %s): %s" % (lc, ld, op), dict(kind="monitor", op=op, result=o[:300], dict=dhex[:4000])); continue
        if not (i1 == i2 == i3 == i4) or i1 == "0":
            ctx.violation("dictionary ID queries disagree or report 0 (%s,%s,%s,%s): %s" % (i1, i2, i3, i4, op), dict(kind="monitor", op=op, result=o[:300])); continue
        if dict_id and algo not in ("def", "addent") and int(i1) != dict_id:
            ctx.violation("dictionary carries ID %s, the caller asked for %d: %s" % (i1, dict_id, op), dict(kind="monitor", op=op, result=o[:300]))
        if rok != rtried:
            ctx.violation("%d of %s samples do not round-trip with the trained dictionary: %s" % (int(rtried) - int(rok), rtried, op), dict(kind="monitor", op=op, result=o[:300], dict=dhex[:4000])); continue
        if dhex != "-":
            loads.append("dictload " + dhex); loadmeta.append((op, i1))
        if algo == "finalize":
            total = None
            fins.append((int(hs), k, cap, size, op))
            if dict_id == 0:
                cids.append("cid " + chash); cidmeta.append((op, i1))
    # ---- model ties ----
    def drv(model, lines):
        if not lines:
            return []
        rc, out, err = zv.run([zv.driver_exe(), model], "\n".join(lines) + "\n", timeout=900)
        return out.split("\n")
    for (op, idv), v in zip(loadmeta, drv("dec", loads)):
        mm = re.match(r"C=ok:(\d+) D=ok:(\d+) idDict=(\d+)", v)
        if not mm or mm.group(1) != idv:
            ctx.violation("the Lean loader model does not accept the trained dictionary the library accepts (or reads another ID): %s -> %s" % (op, v[:100]), dict(kind="tie-loader", op=op, model=v), no_input=True)
    # finalize layout: content offered = min(k, total bytes); total = sum of sample sizes is not echoed, so compare only when the model's two candidates agree with the observation
    flines = []
    for hs, k, cap, size, op in fins:
        flines.append("fin %d %d %d" % (hs, k, cap))
    for (hs, k, cap, size, op), v in zip(fins, drv("train", flines)):
        w = op.split(); nb, ssz = int(w[13].split(":")[1]), int(w[13].split(":")[2])
        if w[13].startswith(("text", "tiny", "bin", "off")) and nb * (ssz // 2) >= k:      # then the content offered is exactly k bytes
            stats["finalize_ties"] += 1
            if not v.startswith("some %d " % size):
                ctx.violation("ZDICT_finalizeDictionary wrote %d bytes, the layout model says %s (header %d, content %d, capacity %d): %s" % (size, v, hs, k, cap, op), dict(kind="tie-finalize", op=op, model=v), no_input=True)
    for (op, idv), v in zip(cidmeta, drv("train", cids)):
        stats["id_ties"] += 1
        if v.strip() != idv:
            ctx.violation("automatic dictionary ID %s differs from the rule's %s: %s" % (idv, v, op), dict(kind="tie-id", op=op), no_input=True)
    for (op, r), v in zip(pmeta, drv("train", pm)):
        stats["param_ties"] += 1
        bad = (v.strip() == "0")
        if bad != (r == "err:parameter_outOfBound"):
            ctx.violation("parameter check: model says %s, trainer answered %s: %s" % ("invalid" if bad else "valid", r, op), dict(kind="tie-params", op=op), no_input=True)
    for op, v in zip(bestmeta, drv("train", bests)):
        if v.startswith("accept"):
            stats["holders"] += 1
        else:
            ctx.violation("the optimiser's result-holder events are not a path of the protocol model: %s -> %s" % (op, v), dict(kind="tie-best-protocol", op=op, verdict=v), no_input=True)
    # ---- ThreadSanitizer on multi-threaded optimiser runs ----
    tops = [o for o in ops if o.split()[1] in ("optcover", "optfast", "def") and int(o.split()[10]) > 1][: (6 if quick else 150)]
    env = dict(os.environ, TSAN_OPTIONS="halt_on_error=1")
    for op, (o, crash) in zip(tops, run_each(hx("tsan"), tops, timeout=1500, env=env)):
        if crash is not None and ("ThreadSanitizer" in crash or "exit -" in crash):
            ctx.violation("ThreadSanitizer / crash in the TSan build: %s -> %s" % (op, crash[-400:]), dict(kind="monitor-tsan", op=op, stderr=crash))
    return dict(evaluations=len(ops) + len(tops), distinct_nontrivial=len(set(ops)),
                rule="one evaluation = one training call (x2 when single-threaded, for determinism) on a generated sample set; distinct = distinct op lines",
                samples=[dict(op=ops[0], result=(res[0][0] or "")[:200])], outcomes=dict(ok=stats["ok"], error=stats["err"], zero=stats["zero"]),
                result_holder_traces_accepted=stats["holders"], finalize_layout_ties=stats["finalize_ties"], id_rule_ties=stats["id_ties"], parameter_verdict_ties=stats["param_ties"], lean_loader_checks=len(loads), tsan_runs=len(tops))


def replay(ctx, data):
    op = data["op"]
    res = run_each(hx(data.get("variant", "san")), [op])
    o, crash = res[0]
    return dict(violates=crash is not None or "DIFF" in (o or "") or "OVERFLOW" in (o or ""), result=(o or crash)[:400])
