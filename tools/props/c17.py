"""C17 — sequence-level compression.  Valid parses (random greedy parser, the library's own extracted sequences, merged delimiters,
matches crossing block edges in delimiter-free mode, repcode-heavy data, minMatch 3..7, dictionaries) must yield a conformant frame
decoding to the source (library + independent Lean decoder + Conform); corrupted lists with validation on are accepted or refused exactly
as the Lean model SeqApi.acceptExplicit says (whose validation position is regenerated from the source); everything runs in the
ASan+UBSan build with exact-size sequence arrays.  Lengths that exceed a block by 2^32 (sums that are the legitimate size again in 32-bit
arithmetic) are refused by ZSTD_compressSequences and for a registered producer's answer alike; ZSTD_mergeBlockDelimiters is compared with
SeqApi.mergeDelims on every small arrangement of delimiters / sequences and on the lists extracted from sources with runs of match-less blocks.
run_hist_family (harness op cseqx): a history in front of the frame (prefix / loaded dictionary / CDict) with parses reaching into it, worker
threads requested (same frame as without), and raw offsets that equal an entry of the repeat-offset history where that distance is not
available (start of the frame; beyond the window) under every way of switching repcode search on - verdicts against SeqApi.acceptExplicit."""
import build, zv, frames, datagen

ASSUMPTIONS = ["a registered sequence producer is driven without a formatted dictionary and never together with long-distance matching or workers (both refused by the library)",
               "the delimiter-free transcriber is compared only through round trip + conformance, not against a block-by-block model",
               "SeqApi.mergeDelims adds literal lengths in Nat: exact for arrays whose lengths sum below 2^32 (any parse of a source below 4 GiB)"]


def run_resume(exe, lines, timeout=1800, crashmark="crash", max_restarts=12):
    """run the lines in one process; when the process dies, the line it died on is marked and the run resumes after it (at most `max_restarts`
    times), so that one aborting input does not hide the verdicts of the inputs behind it.  Returns (outputs, [(line, stderr), ...])."""
    outs, crashes, pos = [], [], 0
    while pos < len(lines):
        rc, out, err = frames.run_lines(exe, lines[pos:], timeout=timeout)
        out = out[:len(lines) - pos]
        outs += out; pos += len(out)
        if pos >= len(lines):
            if rc != 0:
                crashes.append((lines[-1], err))         # answered everything, then died (e.g. a report at exit)
            break
        # died (or stopped answering) on lines[pos]
        crashes.append((lines[pos], err)); outs.append(crashmark); pos += 1
        if len(crashes) > max_restarts:
            outs += [crashmark] * (len(lines) - pos); pos = len(lines)
    return outs, crashes


def parse(rng, x, window, minmatch, dictlen=0, rep_heavy=False):
    """random greedy parse of x: list of (offset, ll, ml) and the number of trailing literals"""
    seqs, i, anchor = [], 0, 0
    table = {}
    n = len(x)
    mm = max(minmatch, 3)
    last_off = 0
    while i + mm <= n:
        key = x[i:i + mm]
        cand = table.get(key)
        table[key] = i
        if rep_heavy and last_off and i >= last_off and x[i - last_off:i - last_off + mm] == key and rng.random() < 0.7:
            cand = i - last_off
        if cand is not None and i - cand <= window and i - cand >= 1 and rng.random() < 0.85:
            off = i - cand
            ml = mm
            lim = rng.choice([n, n, i + 200, i + 70000])
            while i + ml < n and i + ml < lim and x[cand + ml] == x[i + ml]:
                ml += 1
            seqs.append((off, i - anchor, ml))
            last_off = off
            i += ml
            anchor = i
        else:
            i += 1
    return seqs, n - anchor


def with_delimiters(rng, seqs, tail, blocklimit):
    out, cur, size = [], [], 0
    target = rng.choice([blocklimit, blocklimit, max(1, blocklimit // 2), max(1, blocklimit // 7)])
    for (off, ll, ml) in seqs:
        # a sequence never straddles a block: close the block (its pending literals go to the delimiter) when it would not fit
        if size + ll + ml > target:
            if ll + ml > blocklimit:
                # too long for any block: split the literals off, then cut the match
                pass
            room = target - size
            lit_here = min(ll, room)
            out += cur + [(0, lit_here, 0)] if (cur or lit_here) else []
            ll -= lit_here
            cur, size = [], 0
            target = rng.choice([blocklimit, max(1, blocklimit // 2), max(1, blocklimit // 5)])
            while ll + ml > target:
                # cut: literals first, then pieces of the match (each piece is a valid match of the same offset)
                if ll >= target:
                    out.append((0, target, 0)); ll -= target; continue
                piece = target - ll
                if piece < 4 or ml - piece < 4:
                    out.append((0, ll, 0)) if ll else None
                    ll = 0
                    if ml > target:
                        piece = min(target, ml - 4)
                        if piece < 4:
                            break
                        out += [(off, 0, piece), (0, 0, 0)]; ml -= piece
                    else:
                        break
                    continue
                out += [(off, ll, piece), (0, 0, 0)]; ll = 0; ml -= piece
        cur.append((off, ll, ml)); size += ll + ml
    # trailing literals: close the current block within its limit, then literal-only blocks
    room = max(0, blocklimit - size)
    first = min(tail, room)
    out += cur + [(0, first, 0)]
    tail -= first
    while tail > 0:
        k = min(tail, rng.choice([blocklimit, max(1, blocklimit // 2)]))
        out.append((0, k, 0)); tail -= k
    # drop empty blocks "(0,0,0)" that follow nothing
    res = []
    for s in out:
        if s == (0, 0, 0) and (not res or (res[-1][0] == 0 and res[-1][2] == 0)):
            continue
        res.append(s)
    return res


def dict_parse_case(rng):
    """formatted dictionary (offset-code table limited to what the first block can need) + hand-made parse over several 128 KiB blocks:
    Huffman-compressible literal runs, near matches, and matches into the start of the dictionary whose distance grows with every block"""
    import dictgen
    content = datagen.randbytes(rng, rng.choice([40000, 100000, 120000, 126000]))
    d, _ = dictgen.build_exact_of(rng, content)
    alpha = [rng.randrange(256) for _ in range(rng.choice([4, 16, 60]))]
    nblocks = rng.choice([2, 3, 3, 4])
    x = bytearray(); seqs = []
    for b in range(nblocks):
        size = 131072 if b + 1 < nblocks or rng.random() < 0.5 else rng.randint(20000, 131072)
        nseq = rng.choice([3, 20, 100, 300, 900]) if rng.random() < 0.85 else rng.choice([1100, 2500])
        start = len(x)
        lit = 0
        for _ in range(nseq):
            room = size - (len(x) - start)
            if room < 2200:
                break
            ll = min(rng.choice([0, 1, 30, 200, size // max(1, nseq)]), room - 2100)
            x += bytes(alpha[min(int(rng.expovariate(0.4)), len(alpha) - 1)] for _ in range(ll)); lit += ll
            pos = len(x)
            if rng.random() < 0.5:
                st = rng.randrange(0, min(len(content), 30000)); ml = rng.choice([5, 8, 40, 300, 2000]); ml = min(ml, len(content) - st)
                off = len(content) + pos - st
                x += content[st:st + ml]
            else:
                off = rng.choice([1, 2, 7, rng.randint(1, max(1, min(pos, 70000)))]) if pos else 0
                ml = rng.choice([5, 6, 20, 150])
                off = min(off, pos)
                if not off:
                    continue
                for _k in range(ml):
                    x.append(x[-off])
            seqs.append((off, lit, ml)); lit = 0
        rest = size - (len(x) - start)
        x += bytes(alpha[min(int(rng.expovariate(0.4)), len(alpha) - 1)] for _ in range(rest))
        seqs.append((0, lit + rest, 0))
    p = {100: rng.choice([1, 1, 2, 3, 4, 7]), 101: 21, 1008: 1, 1009: 1}
    if rng.random() < 0.3: p[201] = 1
    return bytes(x), p, seqs, d


# ------------------------------------------------------------------------------------------------------------------------------------------
# block-level sequence producer (ZSTD_registerSequenceProducer): a producer that replays a valid parse for some blocks and fails on others

def seqreuse_harness(variant="san"):
    return build.link("zvh_seqreuse", ["zvh_seqreuse.c"], variant)


def run_reuse_family(ctx, cseq_lines):
    """one context living across ZSTD_compressSequences calls: after every call (successful: nothing in between; refused: a session reset,
    as for every other entry point) a parameter set, ZSTD_compress2, a streaming frame and a second ZSTD_compressSequences on the SAME
    context must behave exactly as on a context created for the purpose - same verdicts, same bytes - and a parameter reset is legal.
    Inputs: the valid parses and the corrupted lists of families (1)/(2) (`cseq` lines without dictionary)."""
    exe = seqreuse_harness("san")
    lines = ["reuse " + " ".join(l.split(" ")[1:4]) for l in cseq_lines]
    if not lines:
        return 0
    rc, out, err = frames.run_lines(exe, lines)
    if rc != 0:
        bad = lines[min(len(out), len(lines) - 1)]
        ctx.violation("sanitizer build aborted while re-using a context after ZSTD_compressSequences: %s" % err[-600:], dict(kind="monitor", harness="zvh_seqreuse", op=bad[:40000000], stderr=err[-3000:]))
        return len(out)
    nv = 0
    for ln, o in zip(lines, out):
        msg = reuse_monitor(o)
        if msg:
            ctx.violation("context re-used after ZSTD_compressSequences: " + msg, dict(kind="monitor", harness="zvh_seqreuse", op=ln[:40000000], impl=o[:600]))
            nv += 1
            if nv >= 3:
                break
    return len(out)


def reuse_monitor(o):
    own, _, ref = o.partition(" ref:")
    a = dict(t.split("=", 1) for t in own.split())
    b = dict(t.split("=", 1) for t in ref.split())
    if "params" in a or "params" in b:
        return None if a.get("params") == b.get("params") else "parameter vector refused on one context only: %s vs %s" % (a.get("params"), b.get("params"))
    first = "a successful" if a.get("seq", "").startswith("ok") else "a refused (%s, then session reset)" % a.get("seq")
    for k, what in (("set", "ZSTD_CCtx_setParameter(ZSTD_c_checksumFlag)"), ("c2", "ZSTD_compress2"), ("st", "ZSTD_compressStream2(ZSTD_e_end)"), ("seq2", "a second ZSTD_compressSequences")):
        if a.get(k) != b.get(k):
            return "after %s ZSTD_compressSequences frame, %s on the same context gives %s; on a fresh context with the same parameters it gives %s" % (first, what, a.get(k), b.get(k))
    if a.get("seq2", "").startswith("ok") and a.get("set2") != "ok":
        return "after a successful ZSTD_compressSequences frame, ZSTD_CCtx_setParameter(ZSTD_c_windowLog, 18) -> %s (no frame is in progress)" % a.get("set2")
    if a.get("rp") != "ok":
        return "after a complete ZSTD_compressSequences frame (or a session reset), ZSTD_CCtx_reset(ZSTD_reset_parameters) -> %s" % a.get("rp")
    return None


def seqprod_harness(variant="san"):
    return build.link("zvh_seqprod", ["zvh_seqprod.c"], variant)


def seqprod_model(lines, timeout=1800):
    rc, out, err = zv.run([zv.driver_exe(), "seqprod"], "\n".join(lines) + "\n", timeout=timeout)
    if rc != 0:
        raise RuntimeError("lean driver seqprod failed: " + err[-500:])
    o = out.split("\n")
    return o[:-1] if o and o[-1] == "" else o


def lit_bytes(rng, n, alpha):
    """n literal bytes over a skewed alphabet (Huffman-compressible, so that the block is emitted compressed)"""
    k = len(alpha)
    return bytes(alpha[min(int(rng.expovariate(3.0 / k)), k - 1)] for _ in range(n))


def copy_from(x, dist, n):
    """append n bytes copied from `dist` bytes back (overlap allowed)"""
    for _ in range(n):
        x.append(x[-dist])


def exec_parse(seqs, src):
    """execute (offset, ll, ml) entries over the literals of `src`; returns None if they regenerate src, else the first bad position"""
    out = bytearray(); n = len(src)
    for s in seqs:
        off, ll, ml = s[0], s[1], s[2]
        if len(out) + ll > n:
            return len(out)
        out += src[len(out):len(out) + ll]
        if ml:
            if off == 0 or off > len(out) or len(out) + ml > n:
                return len(out)
            st = len(out)
            if off >= ml:
                out += out[st - off:st - off + ml]
            else:
                for _ in range(ml):
                    out.append(out[-off])
            if out[st:] != src[st:st + ml]:
                k = st
                while out[k] == src[k]:
                    k += 1
                return k
    return None if len(out) == n else len(out)


def hist_after(on, h, seqs):
    """the decoder's repeat-offset history after a block transcribed with repcode search on / off (used to choose baits, not as an oracle)"""
    h = list(h)
    for off, ll, ml in seqs:
        ll0 = int(ll == 0)
        if not on: code = off + 3
        elif not ll0 and off == h[0]: code = 1
        elif off == h[1]: code = 2 - ll0
        elif off == h[2]: code = 3 - ll0
        elif ll0 and off == h[0] - 1: code = 3
        else: code = off + 3
        if code > 3:
            h = [code - 3, h[0], h[1]]
        else:
            rc = code - 1 + ll0
            if rc > 0:
                cur = h[0] - 1 if rc == 3 else h[rc]
                h = [cur, h[0], h[1] if rc >= 2 else h[2]]
    return tuple(h)


def replay_block(rng, x, size, k, alpha, within_block, hist=None, avoid=None, first_ll_min=0):
    """append a block of `size` bytes to x made by executing a fresh parse of k sequences; returns (sequences, last literals).
    Offsets reach at most to the start of the data (or of the block when `within_block`: validation restarts in every block).
    `avoid` (a set): offsets are pairwise distinct, >= 9, and neither in `avoid` nor one below a member."""
    start = len(x)
    last = rng.choice([0, 0, 1, 5, 40, size // 9])
    lls = [rng.choice([0, 0, 1, 2, 3, 9, 30, max(1, size // (5 * k))]) for _ in range(k)]
    need0 = max(first_ll_min, rng.choice([1, 2, 8, 33]) if (start == 0 or within_block) else 0)
    lls[0] = max(lls[0], need0)
    for _ in range(64):
        if sum(lls) + last + 8 * k <= size:
            break
        lls = [l // 2 for l in lls]; last //= 2
        lls[0] = max(lls[0], min(need0, max(1, size // 8)) if need0 else 0)
    assert sum(lls) + last + 3 * k <= size, (size, k, lls, last)
    mt = size - sum(lls) - last
    extra = mt - 3 * k
    cuts = sorted(rng.randint(0, extra) for _ in range(k - 1))
    mls = [b - a_ + 3 for a_, b in zip([0] + cuts, cuts + [extra])]
    seqs = []
    used = set(avoid) if avoid is not None else None
    for i in range(k):
        x += lit_bytes(rng, lls[i], alpha)
        pos = len(x)
        lim = pos - start if within_block else pos
        if used is not None:
            off = None
            for _ in range(200):
                o = rng.randint(min(9, lim), min(lim, 1500))
                if o not in used and o + 1 not in used and o - 1 not in used:
                    off = o; break
            if off is None:
                off = lim
            used.add(off)
        else:
            pool = [1, 2, 3, rng.randint(1, min(lim, 16)), rng.randint(1, lim), rng.randint(1, lim), rng.randint(max(1, lim // 2), lim)]
            if seqs: pool += [seqs[-1][0], seqs[0][0]]
            if hist: pool += list(hist) + [hist[0] - 1]
            off = rng.choice([o for o in pool if 1 <= o <= lim])
        copy_from(x, off, mls[i])
        seqs.append((off, lls[i], mls[i]))
    x += lit_bytes(rng, last, alpha)
    assert len(x) - start == size, (len(x) - start, size, lls, mls, last)
    return seqs, last


def filler(rng, x, n):
    """compressible data for the internal parser: a noisy chunk repeated with small mutations"""
    if n <= 0:
        return
    unit = bytearray(rng.getrandbits(8) for _ in range(rng.choice([32, 64, 100])))
    end = len(x) + n
    while len(x) < end:
        u = bytearray(unit)
        for _ in range(rng.choice([0, 1, 2])):
            u[rng.randrange(len(u))] = rng.getrandbits(8)
        x += u[:end - len(x)]


def bait_block(rng, x, size, dists, gap0, gaps):
    """a block meant for the internal parser after a producer failure: `gap0` fresh literals, then for every distance in `dists` a copy of
    24..60 bytes from that far back (the only way the parser can find these is through its repeat-offset history: the blocks the producer
    answered were never indexed), `gaps[i]` fresh literals in between; then compressible filler"""
    start = len(x)
    x += bytes(rng.getrandbits(8) for _ in range(gap0))
    for i, d in enumerate(dists):
        if d < 1 or d > len(x):
            continue
        copy_from(x, d, rng.randint(24, 60))
        x += bytes(rng.getrandbits(8) for _ in range(gaps[i] if i < len(gaps) else 0))
    filler(rng, x, size - (len(x) - start))
    assert len(x) - start == size


def entry_str(seqs, last, drop_empty_delim=False):
    e = ["%d:%d:%d" % s for s in seqs]
    if not (drop_empty_delim and last == 0 and seqs):
        e.append("0:%d:0" % last)
    return ",".join(e)


def producer_cases(ctx, quick):
    """list of dict(x, p, plan(list of entries), api, dict, blocks(list of sizes), how)"""
    rng = ctx.rng
    cases = []

    def base_params(level, search, mbs, fallback, validate=0, extra=None):
        p = {100: level, 101: 17, 160: 0, 1014: fallback, 1015: mbs, 1016: search, 201: 1}
        if validate: p[1009] = 1
        if extra: p.update(extra)
        return p

    # (A) directed: a block of exactly k producer sequences (k = 1..5), optionally preceded by another producer block, then a block on which
    #     the producer FAILS and that baits the internal parser with copies at every distance that is, was, or could wrongly be in the history
    lowlevels = [1, 3, 5, 7, 2, 4, 6, 9]
    for k in (1, 2, 3, 4, 5):
        for search in (2, 0, 1):
            for pre in (0, 1):
                mbs = rng.choice([1024, 2048, 4096])
                alpha = [rng.randrange(256) for _ in range(rng.choice([12, 24, 48]))]
                x = bytearray(); plan = []; old = (1, 4, 8)
                on = search == 1
                if pre:
                    sq0, l0 = replay_block(rng, x, mbs, rng.choice([2, 3, 4, 6]), alpha, False)
                    plan.append(entry_str(sq0, l0)); old = hist_after(on, old, sq0)
                # distinct offsets, all different from the old history, so that a stale entry cannot be right by accident
                sqN, lN = replay_block(rng, x, mbs, k, alpha, False, avoid=set(old), first_ll_min=0 if pre else 48)
                plan.append(entry_str(sqN, lN, drop_empty_delim=rng.random() < 0.5))
                true_hist = hist_after(on, old, sqN)
                cand = []
                for c in list(true_hist) + list(old) + [q[0] for q in sqN]:
                    if c not in cand and 1 <= c <= len(x):
                        cand.append(c)
                prefix = bytes(x)
                for ci, c in enumerate(cand):
                    for shape in ("one", "two", "opt"):
                        if quick and shape == "opt" and search == 0:
                            continue         # auto below level 10 is the same switch position as disable
                        y = bytearray(prefix)
                        if shape == "two":
                            bait_block(rng, y, mbs, [true_hist[0], c], rng.choice([1, 2, 3, 5]), [0, 0])
                        else:
                            bait_block(rng, y, mbs, [c], rng.choice([1, 2, 3, 5]), [0])
                        if shape == "opt":
                            lvl = rng.choice([1, 3]); extra = {107: rng.choice([7, 8, 9])}
                        else:
                            lvl = lowlevels[(ci + k) % len(lowlevels)]; extra = None
                        p = base_params(lvl, search, mbs, 1, 0, extra)
                        cases.append(dict(x=bytes(y), p=p, plan=plan + ["F"], api="c2", d=None, blocks=[mbs] * (len(plan) + 1),
                                          how="producer block of %d sequences, then a failing block handed to the internal parser (bait '%s' at distance %d)" % (k, shape, c)))
    # (B) random histories: every block replayed / failing in one of the ways / invalid, fallback on and off, validation on and off, all three
    #     repcode-search settings, block sizes 1 KiB .. 128 KiB, one-shot and streaming, optional raw-content dictionary
    for i in range(140 if quick else 3000):
        big = i % 23 == 0
        mbs = rng.choice([65536, 130048]) if big else rng.choice([1024, 1024, 2048, 4096, 8192])     # (full 128 KiB blocks are cut further by the library, data-dependently)
        nblocks = rng.choice([2, 3]) if big else rng.choice([2, 3, 4, 5, 7])
        validate = int(rng.random() < 0.3)
        fallback = int(rng.random() < 0.65)
        search = rng.choice([0, 1, 2])
        level = rng.choice([1, 3, 3, 6, 10, 12, 16, 19]) if not big else rng.choice([1, 3, 10])
        alpha = [rng.randrange(256) for _ in range(rng.choice([8, 24, 64]))]
        d = datagen.randbytes(rng, rng.choice([300, 2000])) if rng.random() < 0.12 else None
        x = bytearray(); plan = []; blocks = []
        hist = (1, 4, 8)
        on = search == 1 or (search == 0 and level >= 10)
        bad_at = rng.randrange(nblocks) if rng.random() < 0.25 else None
        for b in range(nblocks):
            size = mbs if b + 1 < nblocks else rng.choice([mbs, rng.randint(40, mbs), rng.randint(40, 300)])
            blocks.append(size)
            r = rng.random()
            if b == bad_at:
                k = rng.randint(1, 5)
                sq, last = replay_block(rng, x, size, k, alpha, bool(validate), hist=hist)
                kind = rng.choice(["long", "short", "middelim", "full", "voff", "vml"]) if validate else rng.choice(["long", "short", "middelim", "full"])
                if kind == "long": last += rng.choice([1, 7, size])
                elif kind == "short":
                    if last: last -= 1
                    else: sq[-1] = (sq[-1][0], sq[-1][1], sq[-1][2] - 1) if sq[-1][2] > 3 else (sq[-1][0], sq[-1][1] + 1, sq[-1][2])
                elif kind == "middelim":
                    j = rng.randrange(len(sq)); sq = sq[:j] + [(0, 0, 0)] + sq[j:]
                elif kind == "voff":
                    j = rng.randrange(len(sq)); o, l, m = sq[j]; sq[j] = (sum(a + c for _, a, c in sq[:j]) + l + (len(d) if d else 0) + rng.choice([1, 2, 50]), l, m)
                elif kind == "vml":
                    j = rng.randrange(len(sq)); o, l, m = sq[j]; sq[j] = (o, l + m - 2, 2)
                plan.append("X" if kind == "full" else entry_str(sq, last))
                continue
            if r < 0.55:
                k = rng.choice([1, 2, 3, 3, 4, 5]) if rng.random() < 0.8 else rng.choice([0, 6, 9, 20])
                if k == 0:
                    x += lit_bytes(rng, size, alpha); plan.append("0:%d:0" % size)
                    continue
                sq, last = replay_block(rng, x, size, min(k, max(1, size // 24)), alpha, bool(validate), hist=hist)
                hist = hist_after(on, hist, sq)
                plan.append(entry_str(sq, last, drop_empty_delim=rng.random() < 0.5))
            else:
                # the producer fails on this block (in one of three ways): bait for the internal parser if it gets the block
                dists = [rng.choice(list(hist) + [hist[0]]), rng.choice(list(hist) + [1, 4, 8])]
                if rng.random() < 0.5: dists = dists[:1]
                bait_block(rng, x, size, dists, rng.choice([0, 1, 2, 3]), [rng.choice([0, 0, 1, 3]), 0]) if size >= 200 else filler(rng, x, size)
                plan.append(rng.choice(["F", "F", "C", "Z"]))
        p = base_params(level, search, mbs, fallback, validate)
        if big: p[101] = 20
        if rng.random() < 0.2: p[1010] = rng.choice([1, 2])          # block splitter on / off
        if rng.random() < 0.3: p.pop(201)
        api = "c2" if rng.random() < 0.7 else "s%d" % rng.choice([1, 7, 100, 1000, mbs, mbs + 1, 5 * mbs])
        cases.append(dict(x=bytes(x), p=p, plan=plan, api=api, d=d, blocks=blocks, how="random producer history (%s)" % api))
    # (C) directed: answers whose lengths exceed the block by 2^32 (a multiple, or a little less) - two or more huge fields whose sum is the
    #     legitimate block size again in any arithmetic narrower than 64 bits - and single huge fields; first block or after a good one,
    #     fallback on / off, validation on / off: always externalSequences_invalid (the length check is not a producer failure: no fallback)
    for i in range(10 if quick else 200):
        k = [1, 2, 3, 5, 260][i % 5]
        mbs = rng.choice([1024, 2048, 4096]) if k <= 5 else 4096
        alpha = [rng.randrange(256) for _ in range(rng.choice([12, 24, 48]))]
        pre = i % 2
        for fallback in (0, 1):
            for validate in (0, 1):
                x = bytearray(); plan = []; blocks = []
                if pre:
                    sq0, l0 = replay_block(rng, x, mbs, rng.choice([1, 3, 4]), alpha, bool(validate))
                    plan.append(entry_str(sq0, l0)); blocks.append(mbs)
                size = rng.choice([mbs, mbs, mbs - rng.randint(1, 300)])
                if k > 5:
                    # many short sequences
                    start = len(x); sqN = []
                    for j in range(k):
                        ll = rng.choice([0, 1, 2]) + (40 if j == 0 else 0)
                        x += lit_bytes(rng, ll, alpha)
                        off = rng.randint(1, min(len(x) - start, 30)); copy_from(x, off, 3); sqN.append((off, ll, 3))
                    lN = size - (len(x) - start); x += lit_bytes(rng, lN, alpha)
                else:
                    sqN, lN = replay_block(rng, x, size, k, alpha, bool(validate))
                blocks.append(size)
                vs = wrap_variants(rng, sqN + [(0, lN, 0)])
                search = rng.choice([0, 1, 2])
                for name, ent in vs:
                    p = base_params(rng.choice([1, 3, 5]), search, mbs, fallback, validate)
                    api = "c2" if rng.random() < 0.8 else "s%d" % rng.choice([100, size, 5 * size])
                    cases.append(dict(x=bytes(x), p=p, plan=plan + [",".join("%d:%d:%d" % e for e in ent)], api=api, d=None, blocks=list(blocks),
                                      how="producer answer with lengths beyond the block: %s (%d sequences, %s block)" % (name, k, "second" if pre else "first")))
    return cases


def run_producer_family(ctx, cases):
    """run the cases (sanitizer build), decode (library + independent decoder), compare verdicts / transcription / histories with SeqApi.producerBlock"""
    exe = seqprod_harness("san"); plain = frames.harness("plain")
    ev = 0
    lines = ["prod %s %s %s %s%s" % (frames.pstr(c["p"]), frames.hx(c["x"]), ";".join(c["plan"]), c["api"], (" " + frames.hx(c["d"])) if c["d"] else "") for c in cases]
    chunks = frames.split_chunks(lines, 16)
    oc = frames.parallel(lambda ch: [run_resume(exe, ch, timeout=1800, crashmark="crash calls=-")], chunks)
    res = []
    for (out, crashes), ch in zip(oc, chunks):
        res += out
        for bad, err in crashes[:1]:
            ctx.violation("sanitizer build aborted while compressing with a registered sequence producer: %s" % err[-600:], dict(kind="monitor", harness="zvh_seqprod", op=bad[:40000000], stderr=err[-3000:]))
    # model verdict per block, in block order
    mlines, mref = [], []
    parsed = []
    for ci, (c, r) in enumerate(zip(cases, res)):
        head, _, calls = r.rpartition(" calls=")
        cl = [] if calls in ("-", "") else [t.split(":") for t in calls.split(";")]
        parsed.append((head, cl))
    # decode the frames first: the decoder's history per block is the reference the model is evaluated on
    ok_idx = [i for i, (h, _) in enumerate(parsed) if not h.startswith("err") and not h.startswith("crash")]
    dl = ["dec %d %s%s" % (len(cases[i]["x"]), parsed[i][0], (" " + frames.hx(cases[i]["d"])) if cases[i]["d"] else "") for i in ok_idx]
    wl = ["xxh " + frames.hx(cases[i]["x"]) for i in ok_idx]
    cl_ = ["conform %s %s %s %d 0" % (parsed[i][0], frames.hx(cases[i]["x"]), frames.hx(cases[i]["d"]) if cases[i]["d"] else "-", cases[i]["p"].get(1015, 0)) for i in ok_idx]
    bl = ["blockreps %d %s%s" % (len(cases[i]["x"]), parsed[i][0], (" " + frames.hx(cases[i]["d"])) if cases[i]["d"] else "") for i in ok_idx]
    cd = frames.parallel(lambda ch: frames.run_lines(plain, ch)[1], frames.split_chunks(dl, 16)) if dl else []
    ww = frames.parallel(lambda ch: frames.run_lines(plain, ch)[1], frames.split_chunks(wl, 16)) if wl else []
    cf = frames.parallel(lambda ch: frames.model_lines(ch), frames.split_chunks(cl_, 16)) if cl_ else []
    br = frames.parallel(lambda ch: seqprod_model(ch), frames.split_chunks(bl, 16)) if bl else []
    dec = {}
    for i, a, w, b, r_ in zip(ok_idx, cd, ww, cf, br):
        dec[i] = (a, w, b, r_)
    # per block: decoder history before the block (when known), then the model line
    for ci, c in enumerate(cases):
        head, cl = parsed[ci]
        hist_before = None
        if ci in dec and dec[ci][3].startswith("ok "):
            cells = [t.split(",") for t in dec[ci][3][3:].split(";")]
            pos = 0; hist_at = {0: "1.4.8"}; groups = {}
            start = 0; bi = 0; acc = []
            bounds = []; s0 = 0
            for sz in c["blocks"]:
                bounds.append((s0, s0 + sz)); s0 += sz
            for ty, regen, rp, sq in cells:
                pos += int(regen); hist_at[pos] = rp
                acc.append((ty, int(regen), rp, sq))
                if bi < len(bounds) and pos >= bounds[bi][1]:
                    groups[bi] = acc; acc = []; bi += 1
            hist_before = (hist_at, groups, bounds)
        c["_dec"] = hist_before
        s0 = 0; k = 0
        for bi, sz in enumerate(c["blocks"]):
            if sz < 7:
                s0 += sz; continue          # below MIN_CBLOCK_SIZE + header + 2 the block is stored without asking anybody
            e = c["plan"][k] if k < len(c["plan"]) else "F"
            cap = cl[k][1] if k < len(cl) else str(sz // 3 + 1 + sz // 1024 + 1)
            rep = "1.4.8"
            if hist_before and s0 in hist_before[0]:
                rep = hist_before[0][s0]
            ret, sq = ("E", "-") if e == "F" else ("E", "-") if e == "C" else ("0", "-") if e == "Z" else ("X", "-") if e == "X" else (str(len(e.split(","))), e)
            wsz = 1 << c["p"].get(101, 17)
            mlines.append("prodblock %d %d %d %d %d %d %s %d %s %s %s" % (c["p"].get(1016, 0), c["p"][100], c["p"].get(1014, 0), c["p"].get(1009, 0), wsz, len(c["d"]) if c["d"] else 0, rep, sz, cap, ret, sq))
            mref.append((ci, bi, k, s0))
            s0 += sz; k += 1
    mo = frames.parallel(lambda ch: seqprod_model(ch), frames.split_chunks(mlines, 16)) if mlines else []
    per = {}
    for (ci, bi, k, s0), o in zip(mref, mo):
        per.setdefault(ci, []).append((bi, k, s0, o))
    stats = dict(ok=0, failed=0, invalid=0, fallback_blocks=0, stored_blocks=0, offbase_ties=0, history_ties=0, history_obs=0)
    mism = []
    for ci, c in enumerate(cases):
        if len(ctx.violations) >= 8:
            break
        head, cl = parsed[ci]
        if head.startswith("crash"):
            continue
        ev += 1
        outs = per.get(ci, [])
        expect = "ok"; ncalls = 0
        for bi, k, s0, o in outs:
            ncalls += 1
            if o == "failed": expect = "err sequenceProducer_failed"; break
            if o == "invalid": expect = "err externalSequences_invalid"; break
        rep = dict(kind="monitor", harness="zvh_seqprod", op=lines[ci][:40000000], impl=head[:200], calls=";".join(":".join(t) for t in cl), model=[o for _, _, _, o in outs][:40], how=c["how"])
        got = head if head.startswith("err") else "ok"
        if got != expect:
            if expect == "ok":
                ctx.violation("compression with a registered sequence producer failed (%s) although every block was either a valid parse or a producer failure with fallback enabled (%s; params %s)" % (head, c["how"], frames.pstr(c["p"])), rep)
            elif got == "ok":
                ctx.violation("compression with a registered sequence producer succeeded although the model says %s (producer failure with fallback disabled, or an answer whose lengths disagree with the block) (%s; params %s)" % (expect, c["how"], frames.pstr(c["p"])), rep)
            else:
                ctx.violation("registered sequence producer: the call failed with %s, the model says %s (%s; params %s)" % (head, expect, c["how"], frames.pstr(c["p"])), rep)
            continue
        stats["ok" if expect == "ok" else expect.split("_")[-1]] += 1
        if len(cl) != ncalls or any(int(t[0]) != c["blocks"][bi] for t, (bi, _, _, _) in zip(cl, outs)):
            ctx.violation("registered sequence producer: the producer was asked about blocks %s, expected %s (%s)" % ([t[0] for t in cl], [c["blocks"][bi] for bi, _, _, _ in outs[:ncalls]], c["how"]), dict(rep, kind="tie", correspondence="block cutting with a registered producer"), no_input=True)
            continue
        if expect != "ok":
            continue
        a, w, b, brl = dec[ci]
        ev += 2
        if a != w:
            ctx.violation("frame produced with a registered sequence producer does not decode to the source: %r expected %r (%s; params %s)" % (a, w, c["how"], frames.pstr(c["p"])), dict(rep, library_decoder=a, expected=w))
            continue
        if not b.startswith("ok"):
            ctx.violation("frame produced with a registered sequence producer is not conformant / not decodable independently: %s (%s; params %s)" % (b[:200], c["how"], frames.pstr(c["p"])), dict(rep, conformance=b[:300]))
            continue
        if c["_dec"] is None:
            continue
        hist_at, groups, bounds = c["_dec"]
        for (bi, k, s0, o), call in zip(outs, cl):
            # (1) what the compressor holds when block bi starts  ==  what the decoder holds after the blocks before it
            ev += 1; stats["history_obs"] += 1
            if s0 in hist_at and call[2] != hist_at[s0]:
                mism.append((ci, bi, k, s0, call[2], hist_at[s0]))
                break
            if o.startswith("stored"):
                stats["stored_blocks"] += 1
                _, obs, lastl, rafter = o.split(" ")
                g = groups.get(bi)
                if g and len(g) == 1 and g[0][0] == "2" and g[0][3] not in ("*",):
                    # (2) the Offset_Values in the emitted block are the offBases the model's transcriber stores
                    ev += 1; stats["offbase_ties"] += 1
                    fo = "-" if g[0][3] == "-" else ",".join(t.split(":")[0] for t in g[0][3].split("/"))
                    if fo != obs:
                        ctx.violation("registered sequence producer: the block was emitted with Offset_Values %s, the model of the transcriber (ZSTD_c_searchForExternalRepcodes = %d, level %d) stores %s (%s)" % (fo[:200], c["p"].get(1016, 0), c["p"][100], obs[:200], c["how"]),
                                      dict(rep, kind="tie", correspondence="SeqApi.storeExplicit vs ZSTD_copySequencesToSeqStoreExplicitBlockDelim", block=bi), no_input=True)
                        break
                    # (3) nextCBlock->rep as the model computes it == what the compressor holds at the next producer call
                    if k + 1 < len(cl):
                        ev += 1; stats["history_ties"] += 1
                        if cl[k + 1][2] != rafter:
                            mism.append((ci, bi + 1, k + 1, s0 + c["blocks"][bi], cl[k + 1][2], rafter))
                            break
            elif o == "fallback":
                stats["fallback_blocks"] += 1
    # a history that differs from the decoder's is not yet a wrong frame: look for one (DESIGN 3.3) - same blocks up to there, then a block
    # on which the producer fails, baiting the internal parser with a copy at the distance only the compressor believes in
    for (ci, bi, k, s0, held, truth) in mism[:3]:
        c = cases[ci]
        rep = dict(kind="tie", harness="zvh_seqprod", correspondence="repeat-offset history at the start of a block: compressor (prevCBlock->rep) vs decoder / SeqApi.storeExplicit",
                   op=lines[ci][:40000000], block=bi, compressor_holds=held, decoder_holds=truth, how=c["how"])
        found = exploit_history(ctx, c, bi, k, s0, [int(v) for v in held.split(".")], [int(v) for v in truth.split(".")])
        if found:
            ctx.violation("after a block answered by the sequence producer the compressor's repeat-offset history is %s, the decoder's %s; a following block handed to the internal parser (producer failure, fallback enabled) is then emitted with a repeat code the decoder resolves differently: %s (%s; params %s)" % (held, truth, found["desc"], c["how"], frames.pstr(found["p"])), dict(rep, kind="monitor", op=found["op"][:40000000], result=found["result"]))
        else:
            ctx.violation("at the start of block %d the compressor's repeat-offset history is %s but the decoder's (and the model's) is %s (%s; params %s)" % (bi, held, truth, c["how"], frames.pstr(c["p"])), rep, no_input=True)
    return ev, stats


def exploit_history(ctx, c, bi, k, s0, held, truth):
    """failing-input search for a history disagreement at the start of block bi (source offset s0): keep everything before, let the producer fail there"""
    rng = ctx.rng
    prefix = c["x"][:s0]
    mbs = c["p"].get(1015, 131072)
    tries = []
    for i in range(3):
        if held[i] == truth[i] or not (1 <= held[i] <= len(prefix)):
            continue
        if i == 0:
            tries.append(([held[0]], {}, "copy at distance %d right after the block start" % held[0]))
        if i == 1 and 1 <= held[0] <= len(prefix):
            tries.append(([held[0], held[1]], {}, "copy at distance %d directly after a repeat-offset match" % held[1]))
        tries.append(([held[i]], {107: 7}, "copy at distance %d, optimal parser" % held[i]))
    cand = []
    for dists, extra, desc in tries:
        for gap in (1, 2, 3):
            y = bytearray(prefix)
            bait_block(rng, y, max(mbs if mbs <= 8192 else 4096, 400), dists, gap, [0, 0])
            p = dict(c["p"]); p[1014] = 1; p.pop(1009, None); p.update(extra); p[201] = 1
            if extra and p.get(100, 3) > 9 and p.get(1016, 0) == 0:
                pass
            cand.append(dict(x=bytes(y), p=p, plan=c["plan"][:k] + ["F"], api="c2", d=c["d"], blocks=c["blocks"][:bi] + [len(y) - s0], how=desc, desc=desc))
    if not cand:
        return None
    exe = seqprod_harness("san"); plain = frames.harness("plain")
    lines = ["prod %s %s %s %s%s" % (frames.pstr(q["p"]), frames.hx(q["x"]), ";".join(q["plan"]), q["api"], (" " + frames.hx(q["d"])) if q["d"] else "") for q in cand]
    rc, out, err = frames.run_lines(exe, lines)
    for q, ln, o in zip(cand, lines, out):
        head = o.rpartition(" calls=")[0]
        if head.startswith("err"):
            continue
        a = frames.run_lines(plain, ["dec %d %s%s" % (len(q["x"]), head, (" " + frames.hx(q["d"])) if q["d"] else ""), "xxh " + frames.hx(q["x"])])[1]
        if len(a) == 2 and a[0] != a[1]:
            return dict(desc=q["desc"], p=q["p"], op=ln, result="decoder: %s, source: %s" % (a[0], a[1]))
    return None


def ll64k_cases(ctx):
    """a literal run of exactly 65535 / 65536 / 65537 bytes (the 16-bit length field of the seqStore wraps at 65536: long-length flag) followed
    by repeat-offset matches: what ZSTD_generateSequences reports must be a parse of the source.  Bytes are 7-bit noise: no accidental
    matches at minMatch 6, yet Huffman-compressible, so the block is emitted compressed when the list is fed back."""
    rng = ctx.rng
    out = []
    for lrun in (65535, 65536, 65537):
        for variant in (0, 1, 2):
            A = rng.randint(1500, 2500); off = rng.randint(1200, A - 200); off2 = rng.randint(300, 1100); off3 = rng.randint(100, 290)
            x = bytearray(rng.getrandbits(7) for _ in range(A))
            parse = []

            def add(ll, o, ml):
                st = len(x)
                x.extend(rng.getrandbits(7) for _ in range(ll))
                if parse and x[st] == x[st - parse[-1][0]]: x[st] ^= 0x15         # the previous match ends where the parse says
                if x[-1] == x[-1 - o]: x[-1] ^= 0x2a                              # this match cannot start earlier
                copy_from(x, o, ml); parse.append((o, ll, ml))
            copy_from(x, off, 100); parse.append((off, A, 100))
            if variant >= 1:
                add(30, off2, 60)                     # history {off2, off, 1}
            if variant == 0: add(lrun, off, 100)      # repeat code 1 after the long run
            elif variant == 1: add(lrun, off, 100)    # repeat code 2 after the long run
            else: add(lrun, off3, 100)                # a new offset after the long run (control: nothing to mis-track)
            add(10, parse[-1][0], 100)                # repeat code 1
            add(7, off2 if variant >= 1 else off, 90)
            add(9, off, 64)
            tail = rng.randint(200, 600); st = len(x)
            x.extend(rng.getrandbits(7) for _ in range(tail))
            if x[st] == x[st - parse[-1][0]]: x[st] ^= 0x15
            out.append(dict(x=bytes(x), parse=parse, tail=tail, lrun=lrun, variant=variant))
    return out


def run_ll64k(ctx):
    plain = frames.harness("plain"); exe = frames.harness("san"); sp = seqprod_harness("plain")
    cases = ll64k_cases(ctx)
    ev = 0
    glines, gmeta = [], []
    for c in cases:
        assert exec_parse(c["parse"] + [(0, c["tail"], 0)], c["x"]) is None
        for lvl in (13, 19):
            glines.append((plain, "genseq %s %s 0" % (frames.pstr({100: lvl, 105: 6}), frames.hx(c["x"])))); gmeta.append((c, "internal parser, level %d" % lvl))
        glines.append((sp, "prodgen %s %s %s" % (frames.pstr({100: 3, 1016: 1, 160: 0}), frames.hx(c["x"]), entry_str(c["parse"], c["tail"])))); gmeta.append((c, "registered producer, repcode search on"))
    outs = frames.parallel(lambda ch: [frames.run_lines(ch[0][0], [ch[0][1]])[1]], [[g] for g in glines])
    cl, cm = [], []
    for (c, how), (h, ln), o in zip(gmeta, glines, outs):
        ev += 1
        g = o[0] if o else "crash"
        rep = dict(kind="monitor", op=ln[:40000000], result=g[:2000], literal_run=c["lrun"], how=how)
        if g.startswith("err") or g == "crash":
            ctx.violation("ZSTD_generateSequences failed (%s) on a source with a literal run of %d bytes (%s)" % (g, c["lrun"], how), rep)
            continue
        seqs = [tuple(int(v) for v in t.split(":")[:3]) for t in g.split(",")] if g != "-" else []
        bad = exec_parse(seqs, c["x"])
        if bad is not None:
            ctx.violation("ZSTD_generateSequences (%s) reports a list that is NOT a parse of the source: literal run of exactly %d bytes followed by repeat-offset matches, first wrong byte at %d; reported %s" % (
                how, c["lrun"], bad, ",".join("%d:%d:%d" % s for s in seqs[:8])), rep)
            continue
        p = {100: 3, 101: 17, 105: 3, 1008: 1, 1009: 1, 201: 1}
        cl.append("cseq %s %s %s" % (frames.pstr(p), frames.hx(c["x"]), ",".join("%d:%d:%d" % s for s in seqs))); cm.append((c, how))
    if cl:
        fr = frames.parallel(lambda ch: frames.run_lines(exe, ch)[1], frames.split_chunks(cl, 16))
        dl = ["dec %d %s" % (len(c["x"]), f) for (c, _), f in zip(cm, fr)]; wl = ["xxh " + frames.hx(c["x"]) for c, _ in cm]
        da = frames.parallel(lambda ch: frames.run_lines(plain, ch)[1], frames.split_chunks(dl, 16)); wa = frames.parallel(lambda ch: frames.run_lines(plain, ch)[1], frames.split_chunks(wl, 16))
        for (c, how), ln, f, a, w in zip(cm, cl, fr, da, wa):
            ev += 1
            if f.startswith("err") or a != w:
                ctx.violation("the sequences extracted by ZSTD_generateSequences (%s, literal run %d) fed back to ZSTD_compressSequences: %s" % (how, c["lrun"], f if f.startswith("err") else "frame decodes to %r, source is %r" % (a, w)),
                              dict(kind="monitor", op=ln[:40000000], result=f[:200], decoder=a, expected=w))
    return ev, len(cases)


def dict_rawfirst_case(rng):
    """formatted dictionary whose offset-code table is exact for the first block only; the blocks before the first compressible one are all
    emitted raw / RLE / stored tiny (noise, runs, a few bytes), and reach far enough for the next block's matches into the dictionary start
    to need an offset code the table does not describe: the table must not be re-used unchecked ('valid' holds for the FIRST block, however
    that block is emitted)"""
    import dictgen
    top = 1 << 18
    clen = top - 131072 - rng.randint(600, 3000)
    content = datagen.randbytes(rng, clen)
    d, _ = dictgen.build_exact_of(rng, content)
    alpha = [rng.randrange(256) for _ in range(rng.choice([4, 16, 60]))]
    x = bytearray(); seqs = []
    x += datagen.randbytes(rng, 131072); seqs.append((0, 131072, 0))           # raw
    need = top - clen - 131072 + 400
    while need > 0:
        kind = rng.choice(["noise", "run", "tiny"])
        n = rng.choice([1500, 4000, need + 50]) if kind != "tiny" else rng.randint(1, 6)
        x += datagen.randbytes(rng, n) if kind != "run" else bytes([rng.randrange(256)]) * n
        seqs.append((0, n, 0)); need -= n
    size = rng.choice([3000, 20000, 131072])
    start = len(x); lit = 0
    nseq = rng.choice([4, 10, 60, 300])
    for _ in range(nseq):
        room = size - (len(x) - start)
        if room < 400:
            break
        ll = min(rng.choice([0, 1, 30, 200]), room - 300)
        x += bytes(alpha[min(int(rng.expovariate(0.4)), len(alpha) - 1)] for _ in range(ll)); lit += ll
        if rng.random() < 0.6 or len(x) - start < 40:
            st = rng.randrange(0, 300); ml = rng.choice([5, 8, 40, 120])
            off = len(content) + len(x) - st
            assert off + 3 >= top
            x += content[st:st + ml]
        else:
            # near matches inside the block: other offset codes (a single code for the whole block would be coded as RLE, without any table)
            off = rng.choice([1, 2, 7, rng.randint(1, len(x) - start)]); ml = rng.choice([5, 6, 20, 150])
            copy_from(x, off, ml)
        seqs.append((off, lit, ml)); lit = 0
    rest = size - (len(x) - start)
    x += bytes(alpha[min(int(rng.expovariate(0.4)), len(alpha) - 1)] for _ in range(rest))
    seqs.append((0, lit + rest, 0))
    p = {100: rng.choice([1, 2, 3]), 101: 21, 1008: 1, 1009: 1, 107: rng.choice([1, 2, 3])}
    if rng.random() < 0.5: p[201] = 1
    return bytes(x), p, seqs, d


def wrap_variants(rng, ent):
    """ent = ONE block of an explicit-delimiter list (its sequences, then its delimiter), a valid parse of the block.  Returns
    (description, entries) pairs in which lengths were raised so that their sum exceeds the block by 2^32 (or a multiple, or a little
    less): any accumulator or addition narrower than 64 bits sees the legitimate block size again.  Fields stay below 2^32.  The last
    few are controls (no wrap-around to a plausible size)."""
    n = len(ent); T31 = 1 << 31
    seqi = [i for i, e in enumerate(ent) if e[0]]
    out = []
    if not seqi:
        return out

    def bump(changes, name):
        e = [list(t) for t in ent]
        for i, f, a_ in changes:
            e[i][f] += a_
            if e[i][f] >= 1 << 32:
                return
        out.append((name, [tuple(t) for t in e]))
    a = rng.choice(seqi)
    b = rng.choice([i for i in range(n) if i != a])           # another sequence, or the delimiter (only its literal length is touched)
    bump([(a, 1, T31), (b, 1, T31)], "litLength + 2^31 in two entries")
    bump([(a, 1, T31), (a, 2, T31)], "litLength + 2^31 and matchLength + 2^31 in one sequence")
    bump([(a, 1, 0xFFFF0000), (a, 2, 0x10000)], "litLength + 0xFFFF0000 and matchLength + 0x10000 in one sequence")
    c = [i for i in seqi if i != a]
    if c:
        bump([(a, 2, 0xC0000000), (rng.choice(c), 2, 0x40000000)], "matchLength + 0xC0000000 and + 0x40000000 in two sequences")
    else:
        bump([(a, 2, 0xC0000000), (n - 1, 1, 0x40000000)], "matchLength + 0xC0000000 and the delimiter's literals + 0x40000000")
    d = rng.choice([1, 7, 100])
    bump([(a, 1, T31), (b, 1, T31 - d)], "lengths exceed the block by 2^32 - %d" % d)
    bump([(a, 1, T31), (a, 2, T31), (b, 1, T31)] + ([(b, 2, T31)] if ent[b][0] else [(n - 1, 1, T31)] if b != n - 1 else []), "three or four fields + 2^31")
    bump([(n - 1, 1, T31), (a, 2, T31)], "the delimiter's literals + 2^31 and a matchLength + 2^31")
    withlit = [i for i in seqi if ent[i][1] >= 1]
    if withlit:
        # no huge literal run at all: litLength + matchLength of ONE sequence is 2^32, the bytes it covered are given to the delimiter
        g = rng.choice(withlit)
        bump([(g, 2, (1 << 32) - ent[g][1] - ent[g][2]), (n - 1, 1, ent[g][1] + ent[g][2])], "matchLength = 2^32 - litLength in one sequence, the bytes it covered added to the delimiter's literals")
    if len(seqi) >= 4:
        bump([(i, rng.choice([1, 2]), 1 << 30) for i in rng.sample(seqi, 4)], "four fields + 2^30")
    if len(seqi) >= 256:
        bump([(i, rng.choice([1, 2]), 1 << 24) for i in rng.sample(seqi, 256)], "256 fields + 2^24")
    # controls: one huge field
    bump([(a, 1, 0xFFFFFFFF - ent[a][1])], "litLength = 2^32 - 1")
    bump([(a, 2, 0xFFFFFFFF - ent[a][2])], "matchLength = 2^32 - 1")
    bump([(a, 2, T31)], "matchLength + 2^31")
    return out


def merge_arrays(rng, quick):
    """sequence arrays for ZSTD_mergeBlockDelimiters: every arrangement of up to 5 (resp. 4) entries over delimiters with and without literals,
    sequences with and without literals, and the two near-delimiters (offset 0 with a match length; match length 0 with an offset), then long random
    arrays with runs of delimiters.  Literal lengths are distinct enough for a lost or doubled one to show."""
    import itertools
    def ent(kind):
        if kind == "D0": return (0, 0, 0)
        if kind == "DL": return (0, rng.choice([1, 2, 9, 1000, 65535, 65536, 131072, rng.randint(1, 70000)]), 0)
        if kind == "S":  return (rng.randint(1, 5000), rng.choice([1, 3, 100, 65536, rng.randint(1, 70000)]), rng.randint(3, 300))
        if kind == "S0": return (rng.randint(1, 5000), 0, rng.randint(3, 300))
        if kind == "N1": return (0, rng.randint(0, 50), rng.randint(1, 50))
        return (rng.randint(1, 5000), rng.randint(0, 50), 0)
    arrs = []
    for n in range(0, 6):
        for combo in itertools.product(("D0", "DL", "S", "S0"), repeat=n):
            arrs.append([ent(k) for k in combo])
    for n in range(1, 5):
        for combo in itertools.product(("D0", "DL", "S", "S0", "N1", "N2"), repeat=n):
            if "N1" in combo or "N2" in combo:
                arrs.append([ent(k) for k in combo])
    for i in range(300 if quick else 5000):
        a = []
        for _ in range(rng.choice([1, 3, 8, 20, 60])):
            r = rng.random()
            if r < 0.45:
                a += [ent(rng.choice(["D0", "DL", "DL"])) for _ in range(rng.choice([1, 2, 2, 3, 5, 9]))]
            elif r < 0.95:
                a += [ent(rng.choice(["S", "S", "S0"])) for _ in range(rng.choice([1, 1, 2, 4]))]
            else:
                a.append(ent(rng.choice(["N1", "N2"])))
        arrs.append(a)
    return arrs


def bare_block_sources(rng, quick):
    """sources in which whole blocks hold no match at all, several in a row, between compressible stretches: ZSTD_generateSequences reports a run
    of bare delimiters carrying the literals (blocks of 1..4 KiB through ZSTD_c_maxBlockSize, and a few at the full 128 KiB)"""
    out = []
    for i in range(36 if quick else 400):
        big = i % 18 == 17
        mbs = 131072 if big else rng.choice([1024, 1024, 2048, 4096])
        x = bytearray()
        shape = rng.choice(["mid", "mid", "lead", "two", "tail"])
        def comp(n): filler(rng, x, n)
        def noise(nb): x.extend(datagen.randbytes(rng, nb))
        if shape != "lead":
            comp(rng.choice([mbs // 2, mbs, mbs + mbs // 3, 3 * mbs - 17]) if not big else rng.randint(3000, 40000))
        noise(rng.choice([3 * mbs, 3 * mbs + 5, 4 * mbs + mbs // 2, 6 * mbs]) if not big else 3 * mbs + rng.randint(0, 9000))
        comp(rng.choice([mbs, 2 * mbs + 100]) if not big else rng.randint(3000, 40000))
        if shape == "two":
            noise(2 * mbs + rng.randint(mbs, 2 * mbs) if not big else 0); comp(mbs + 50 if not big else 0)
        if shape == "tail":
            noise(3 * mbs if not big else 0)
        if len(x) % mbs and len(x) % mbs < 16:
            comp(40)                                     # (a last block below 7 bytes makes ZSTD_generateSequences fail by design)
        p = {100: rng.choice([1, 2, 3, 3, 4, 5, 7, 9]) if not big else rng.choice([1, 3]), 101: 17 if not big else 19}
        if not big: p[1015] = mbs
        out.append((bytes(x), p, mbs, shape))
    return out


def run_merge_family(ctx):
    """ZSTD_mergeBlockDelimiters against SeqApi.mergeDelims: (a) small-scope exhaustive + random arrays, (b) the lists ZSTD_generateSequences reports for
    sources with runs of match-less blocks, which must stay parses of the source once merged and round-trip through ZSTD_compressSequences without
    delimiters (validation off and on)."""
    rng = ctx.rng
    sp = seqprod_harness("san"); exe = frames.harness("san"); plain = frames.harness("plain")
    ev = 0
    arrs = merge_arrays(rng, ctx.quick())
    cl = ["mergeseq " + sstr(a) for a in arrs]; ml = ["merge " + sstr(a) for a in arrs]
    oc = frames.parallel(lambda ch: [frames.run_lines(sp, ch, timeout=900)], frames.split_chunks(cl, 8))
    got = []
    for (rc, out, err), ch in zip(oc, frames.split_chunks(cl, 8)):
        got += out + ["crash"] * (len(ch) - len(out))
        if rc != 0:
            ctx.violation("sanitizer build aborted in ZSTD_mergeBlockDelimiters: %s" % err[-600:], dict(kind="monitor", harness="zvh_seqprod", op=ch[min(len(out), len(ch) - 1)][:40000000], stderr=err[-3000:]))
    mo = frames.parallel(lambda ch: seqprod_model(ch), frames.split_chunks(ml, 8))
    runs2 = 0
    for a, c, m, g in zip(arrs, cl, mo, got):
        ev += 1
        if g == "crash":
            continue
        runs2 += any(a[i][0] == 0 and a[i][2] == 0 and a[i + 1][0] == 0 and a[i + 1][2] == 0 for i in range(len(a) - 1))
        want = m.split(" ")[0]
        if g != want and len(ctx.violations) < 6:
            ctx.violation("ZSTD_mergeBlockDelimiters on %s leaves %s, the model (delimiters dropped, their literals - of every delimiter of a run - carried to the next sequence) says %s" % (sstr(a)[:300], g[:300], want[:300]),
                          dict(kind="monitor", harness="zvh_seqprod", op=c[:40000000], model_op=("merge " + sstr(a))[:40000000], impl=g[:2000], model=m[:2000]))
    # (b) extracted lists with runs of bare delimiters
    srcs = bare_block_sources(rng, ctx.quick())
    gl = ["genmerge %s %s" % (frames.pstr(p), frames.hx(x)) for x, p, _, _ in srcs]
    go = frames.parallel(lambda ch: [frames.run_lines(sp, [ch[0]], timeout=900)], [[g] for g in gl])
    cs, cm = [], []
    nruns = 0
    for (x, p, mbs, shape), ln, (rc, out, err) in zip(srcs, gl, go):
        ev += 1
        if len(ctx.violations) >= 10:
            break
        rep = dict(kind="monitor", harness="zvh_seqprod", op=ln[:40000000], how="source with match-less blocks in a row (%s, blocks of %d)" % (shape, mbs))
        if rc != 0 or not out:
            ctx.violation("sanitizer build aborted in ZSTD_generateSequences + ZSTD_mergeBlockDelimiters: %s" % err[-600:], dict(rep, stderr=err[-3000:]))
            continue
        if out[0].startswith("err"):
            ctx.violation("ZSTD_generateSequences failed (%s) on a source with match-less blocks (params %s)" % (out[0], frames.pstr(p)), dict(rep, result=out[0]))
            continue
        es, ms = out[0].split(" ")
        E = [tuple(int(v) for v in t.split(":")) for t in es.split(",")] if es != "-" else []
        M = [tuple(int(v) for v in t.split(":")) for t in ms.split(",")] if ms != "-" else []
        nruns += any(E[i][0] == 0 and E[i][2] == 0 and E[i][1] > 0 and E[i + 1][0] == 0 and E[i + 1][2] == 0 and any(e[0] for e in E[i + 2:]) for i in range(len(E) - 1))
        bad = exec_parse(E, x)
        if bad is not None:
            ctx.violation("ZSTD_generateSequences reports a list that is not a parse of the source (first wrong position %d; params %s)" % (bad, frames.pstr(p)), dict(rep, result=es[:2000]))
            continue
        model = seqprod_model(["merge " + es])[0].split(" ")
        ev += 1
        if ms != model[0]:
            ctx.violation("ZSTD_mergeBlockDelimiters on the list ZSTD_generateSequences reported (%d entries, runs of bare delimiters) differs from the model: merged list describes %d bytes, the model's %d + %s last literals, the source has %d (params %s)" % (
                len(E), sum(l + m_ for _, l, m_ in M), sum(int(t.split(":")[1]) + int(t.split(":")[2]) for t in model[0].split(",")) if model[0] != "-" else 0, model[1], len(x), frames.pstr(p)),
                dict(rep, model_op=("merge " + es)[:40000000], impl=ms[:2000], model=model[0][:2000]))
            continue
        covered = sum(l + m_ for _, l, m_ in M)
        bad = exec_parse(M, x[:covered]) if covered <= len(x) else covered
        if bad is not None:
            ctx.violation("the merged list is not a parse of the source any more (first wrong position %d of %d)" % (bad, len(x)), dict(rep, impl=ms[:2000]))
            continue
        for val in (0, 1):
            q = {100: 3, 101: p[101], 105: 3, 1008: 0, 1009: val, 201: 1}
            cs.append("cseq %s %s %s" % (frames.pstr(q), frames.hx(x), ms)); cm.append((x, q, rep))
    if cs:
        fr = frames.parallel(lambda ch: [frames.run_lines(exe, ch, timeout=900)], frames.split_chunks(cs, 16))
        fl = []
        for (rc, out, err), ch in zip(fr, frames.split_chunks(cs, 16)):
            fl += out + ["crash"] * (len(ch) - len(out))
            if rc != 0:
                ctx.violation("sanitizer build aborted in ZSTD_compressSequences on a merged extracted parse: %s" % err[-600:], dict(kind="monitor", op=ch[min(len(out), len(ch) - 1)][:40000000], stderr=err[-3000:]))
        idx = [i for i, f in enumerate(fl) if f != "crash" and not f.startswith("err")]
        da = frames.parallel(lambda ch: frames.run_lines(plain, ch)[1], frames.split_chunks(["dec %d %s" % (len(cm[i][0]), fl[i]) for i in idx], 16)) if idx else []
        wa = frames.parallel(lambda ch: frames.run_lines(plain, ch)[1], frames.split_chunks(["xxh " + frames.hx(cm[i][0]) for i in idx], 16)) if idx else []
        cf = frames.parallel(lambda ch: frames.model_lines(ch), frames.split_chunks(["conform %s %s - 0 0" % (fl[i], frames.hx(cm[i][0])) for i in idx], 16)) if idx else []
        res = dict(zip(idx, zip(da, wa, cf)))
        for i, ((x, q, rep), ln, f) in enumerate(zip(cm, cs, fl)):
            ev += 1
            if f == "crash" or len(ctx.violations) >= 6:
                continue
            r = dict(rep, op=ln[:40000000], extraction_op=rep["op"][:200000])
            if f.startswith("err"):
                ctx.violation("ZSTD_generateSequences -> ZSTD_mergeBlockDelimiters -> ZSTD_compressSequences (no delimiters, validateSequences=%d) refused the merged parse: %s" % (q[1009], f), dict(r, result=f))
                continue
            a, w, b = res[i]
            ev += 2
            if a != w:
                ctx.violation("ZSTD_generateSequences -> ZSTD_mergeBlockDelimiters -> ZSTD_compressSequences (no delimiters, validateSequences=%d): the frame does not decode to the source: %r expected %r" % (q[1009], a, w), dict(r, library_decoder=a, expected=w))
            elif not b.startswith("ok"):
                ctx.violation("ZSTD_generateSequences -> ZSTD_mergeBlockDelimiters -> ZSTD_compressSequences: frame not conformant / not decodable independently: %s" % b[:200], dict(r, conformance=b[:300]))
    return ev, dict(arrays=len(arrs), arrays_with_delimiter_runs=runs2, extracted=len(srcs), extracted_with_literal_delimiter_runs=nruns)


# ------------------------------------------------------------------------------------------------------------------------------------------
# ZSTD_compressSequences with a history in front of the frame (prefix / dictionary / CDict), with worker threads requested, and with raw
# offsets that equal an entry of the repeat-offset history at a position where that distance is NOT available (harness op `cseqx`)

def synth_parse(rng, n, hist, W, mm, alpha, longmatch=False):
    """a source of n bytes made by executing a fresh parse over the history `hist` (bytes in front of the frame: prefix / dictionary content):
    returns (x, seqs, tail).  Every offset is within what ZSTD_validateSequence allows at the match start:
    position + len(hist) while position <= W, W beyond."""
    D = len(hist); blk = min(W, 131072)
    buf = bytearray(hist)
    seqs = []; anchor = 0
    recent = []
    while True:
        pos = len(buf) - D
        ll = rng.choice([0, 0, 1, 2, 5, 17, 60, 300]) if (pos or D) else rng.choice([1, 2, 5, 17, 60])
        ml = rng.choice([mm, mm, mm + 1, 8, 20, 100, 700]) if not longmatch else rng.choice([mm, 30, 5000, 70000, 140000, 300000])
        if pos + ll + ml + 1 > n:
            break
        buf += lit_bytes(rng, ll, alpha)
        pos += ll
        # (an offset beyond the window is used only where any block holding the sequence still ends within the first W bytes: the conformance
        #  rule of the format is about the block, ZSTD_validateSequence's about the position)
        lim = pos + D if pos + blk <= W else min(W, pos + D)
        pool = [rng.randint(1, lim), rng.randint(1, lim), rng.randint(max(1, lim - 40), lim), lim, rng.randint(1, min(lim, 16))]
        if D and pos + blk <= W:
            pool += [pos + rng.randint(1, D), pos + rng.randint(1, D), pos + D]      # starts inside the history in front of the frame
        pool += [o for o in recent[-3:] if o <= lim]
        off = rng.choice(pool)
        if off >= ml:
            st = len(buf) - off
            buf += buf[st:st + ml]
        else:
            pat = bytes(buf[-off:])
            buf += (pat * (ml // off + 1))[:ml]
        seqs.append((off, ll, ml)); recent.append(off)
    tail = n - (len(buf) - D)
    buf += lit_bytes(rng, tail, alpha)
    return bytes(buf[D:]), seqs, tail


def hist_cases(ctx, quick):
    """list of dict(x, p, sq, mode, h, how, expect, model): expect = 'ok' (valid parse: frame must decode to x and be conformant),
    'same:<k>' (additionally byte-identical to case k), 'model' (verdict of SeqApi.acceptExplicit on `model`)"""
    rng = ctx.rng
    cases = []

    def alpha_():
        return [rng.randrange(256) for _ in range(rng.choice([6, 20, 60]))]

    # (W) worker threads requested: ZSTD_compressSequences works within the calling thread whatever ZSTD_c_nbWorkers says - sources on both
    #     sides of the smallest job size (512 KiB), both delimiter modes; the frame is the one produced without the parameter
    for i in range(6 if quick else 80):
        n = [524289, 700000, 1 << 20, 1200000, 300000, 524288][i % 6] if quick else rng.choice([524289, 524288, 600000, 1 << 20, 1500000, 100000])
        wl = rng.choice([19, 20, 21]); mm = rng.choice([3, 4, 5, 6]); W = 1 << wl
        x, seqs, tail = synth_parse(rng, n, b"", W, mm, alpha_(), longmatch=(i % 2 == 0))
        delim = i % 3 != 0
        p = {100: rng.choice([1, 3, 5, 10]), 101: wl, 105: mm, 1008: int(delim), 1009: int(rng.random() < 0.6)}
        if rng.random() < 0.4: p[201] = 1
        if delim:
            seqs2 = []
            for (o, l, m) in seqs:          # with_delimiters cuts matches only at its block targets: cut the very long ones beforehand
                while m > 100000:
                    seqs2.append((o, l, 65536)); l = 0; m -= 65536
                seqs2.append((o, l, m))
            sq = with_delimiters(rng, seqs2, tail, 131072)
        else:
            sq = list(seqs)
        base = len(cases)
        cases.append(dict(x=x, p=dict(p), sq=sq, mode="-", h=None, expect="ok", how="valid parse of %d bytes, no worker threads (reference)" % n))
        q = dict(p); q[400] = rng.choice([1, 2, 2, 4])
        if rng.random() < 0.3: q[401] = 1 << 20
        cases.append(dict(x=x, p=q, sq=sq, mode="-", h=None, expect="same:%d" % base, how="the same valid parse of %d bytes with ZSTD_c_nbWorkers = %d" % (n, q[400])))
    # (P) a history in front of the frame: valid parses whose matches start inside the prefix / dictionary, validation mostly on
    for i in range(36 if quick else 700):
        mode = "PPPDC"[i % 5]
        D = rng.choice([7, 300, 3000, 20000, 70000])
        n = rng.choice([900, 5000, 30000, 150000]) if i % 9 else 290000
        wl = rng.choice([17, 18, 20]) if i % 4 else rng.choice([10, 11, 13]); mm = rng.choice([3, 4, 5, 6]); W = 1 << wl
        if mode == "C": mm = max(mm, 4)        # (an attached CDict brings its own minMatch: a 3-byte match is below the validation floor then)
        h = datagen.randbytes(rng, D)
        if h[:4] == b"\x37\xa4\x30\xec": h = b"\x00" + h[1:]
        x, seqs, tail = synth_parse(rng, n, h, W, mm, alpha_())
        delim = rng.random() < 0.6
        p = {100: rng.choice([1, 3, 3, 7, 10, 13]), 101: wl, 105: mm, 1008: int(delim), 1009: int(i % 6 != 5)}
        if rng.random() < 0.5: p[1016] = rng.randint(0, 2)
        if rng.random() < 0.3: p[201] = 1
        sq = with_delimiters(rng, seqs, tail, min(W, 131072)) if delim else list(seqs)
        cases.append(dict(x=x, p=p, sq=sq, mode=mode, h=h, expect="ok", how="valid parse reaching into the %s (%d bytes) in front of the frame" % ({"P": "prefix", "D": "loaded raw dictionary", "C": "referenced CDict"}[mode], D)))
    # (V) verdicts, explicit delimiters (or a single block without delimiters), validation on
    def explicit_model(p, x, sq, D, nodelim):
        W = 1 << p[101]
        limit = min(W, 131072, p.get(1015, 131072))
        if nodelim:
            used = sum(l + m for _, l, m in sq)
            sq = list(sq) + [(0, len(x) - used, 0)]
        return "seqaccept %d %d %d %d %d %s" % (limit, W, D, p[105], len(x), sstr(sq))

    def search_params(p):
        k = rng.randrange(3)
        if k == 0: p[1016] = 1
        elif k == 1: p[100] = rng.choice([10, 12, 16]); p[1016] = 0
        else: p[100] = rng.choice([10, 13, 19]); p.pop(1016, None)
        return p

    # (V1) a raw offset equal to an entry of the repeat-offset history ({1,4,8} at the start of a frame) where fewer bytes than that exist:
    #      first sequence of the frame - possibly after blocks without any sequence - with 0..3 bytes of prefix
    for i in range(60 if quick else 1500):
        D = rng.choice([0, 0, 0, 1, 2, 3]); mode = "-" if D == 0 else rng.choice("PDC")
        h = bytes(rng.randrange(1, 256) for _ in range(D)) if D else None
        n = rng.choice([40, 300, 4000]); mm = rng.choice([3, 4, 5])
        unit = bytes(rng.randrange(256) for _ in range(8))
        x = (unit * (n // 8 + 1))[:n]
        nodelim = i % 3 == 0
        pre = []
        pos = 0
        if not nodelim:
            for _ in range(rng.choice([0, 0, 1, 2])):
                l = rng.choice([0, 1, 2, 3]); pre.append((0, l, 0)); pos += l
        bait = rng.choice([1, 4, 4, 8, 8, 8])
        ll = rng.randint(0, 9)
        if rng.random() < 0.8:
            ll = rng.randint(0, max(0, bait - 1 - pos - D)) if bait - 1 - pos - D >= 0 else 0
        if ll == 0:
            bait = rng.choice([4, 8])         # with no literals the history is read one entry further: 4 and 8 are repeat codes 1 and 2
        ml = rng.choice([mm + 1, 6, 20, n])
        ml = max(4, min(ml, n - pos - ll - 1))
        sq = pre + [(bait, ll, ml)]
        p2 = pos + ll + ml
        if rng.random() < 0.7 and p2 + 12 < n:
            l2 = rng.choice([0, 1, 3]); m2 = max(4, min(rng.choice([5, 30, n]), n - p2 - l2 - 1)); sq.append((rng.choice([8, 8, 16, bait]), l2, m2)); p2 += l2 + m2
        if not nodelim:
            sq.append((0, n - p2, 0))
        p = search_params({100: 3, 101: rng.choice([w for w in (10, 12, 17) if (1 << w) >= n]), 105: mm, 1008: int(not nodelim), 1009: 1})
        cases.append(dict(x=x, p=p, sq=sq, mode=mode, h=h, expect="model", model=explicit_model(p, x, sq, D, nodelim),
                          how="first match of the frame at position %d (+%d bytes of history) with raw offset %d, an entry of the initial repeat-offset history" % (pos + ll, D, bait)))
    # (V2) beyond the window: with a history in front of the frame an offset larger than the window is fine while the position is within the
    #      window; the same raw offset again (now in the repeat-offset history) once the position has passed the window is not
    for i in range(40 if quick else 1000):
        wl = rng.choice([10, 10, 11]); W = 1 << wl; mm = rng.choice([3, 4, 5])
        D = rng.choice([W // 2 + 200, W + 300, 3 * W]); mode = rng.choice("PPDC")
        h = datagen.randbytes(rng, D)
        if h[:4] == b"\x37\xa4\x30\xec": h = b"\x00" + h[1:]
        n = rng.choice([2 * W + 500, 3 * W, 5 * W + 77])
        buf = bytearray(h); sq = []; cur = 0; alpha = alpha_()
        far = []
        nb = 0
        while len(buf) - D < n:
            pos = len(buf) - D
            bs = min(n - pos, rng.choice([W, W, W // 2, 300]))
            start = pos; k = rng.choice([1, 2, 3])
            for j in range(k):
                pos = len(buf) - D
                room = bs - (pos - start)
                if room < 40: break
                ll = rng.choice([0, 1, 3, 9]); ml = rng.choice([4, 5, 9, 20])
                buf += lit_bytes(rng, ll, alpha); pos += ll
                lim = W if pos > W else pos + D
                if pos <= W and D + pos > W and rng.random() < 0.8:
                    off = rng.randint(W + 1, pos + D); far.append(off)
                else:
                    off = rng.randint(1, lim)
                st = len(buf) - off
                if off >= ml: buf += buf[st:st + ml]
                else: buf += (bytes(buf[-off:]) * (ml // off + 1))[:ml]
                sq.append((off, ll, ml))
            rest = bs - (len(buf) - D - start)
            buf += lit_bytes(rng, rest, alpha); sq.append((0, rest, 0)); nb += 1
        x = bytes(buf[D:D + n])
        p = {100: 3, 101: wl, 105: mm, 1008: 1, 1009: 1}
        kind = i % 4
        how = "valid parse over a %d-byte history and a %d-byte window" % (D, W)
        if kind != 0 and far:
            # re-use a far offset in a sequence that starts beyond the window: choose the history entry the transcriber would code it with
            posl = []; pos = 0; hst = (1, 4, 8)
            on = True
            cands = []
            for j, (o, l, m) in enumerate(sq):
                if o and pos + l > W:
                    for hv in set(hst):
                        if hv > W: cands.append((j, hv))
                if o: hst = hist_after(on, hst, [(o, l, m)])
                pos += l + m
            if cands:
                j, hv = rng.choice(cands)
                sq[j] = (hv, sq[j][1], sq[j][2])
                how = "a sequence beyond the %d-byte window repeats raw offset %d, valid earlier only through the %d-byte history in front of the frame" % (W, hv, D)
                if kind != 3: p = search_params(p)
        elif kind == 0 and rng.random() < 0.5:
            p = search_params(p)
        cases.append(dict(x=x, p=p, sq=sq, mode=mode, h=h, expect="model", model=explicit_model(p, x, sq, D, False), how=how))
    # (V3) field corruptions of valid parses over a history: the offset bound is position + history
    for i in range(80 if quick else 3000):
        mode = "PPDC"[i % 4]; D = rng.choice([5, 100, 2000, 9000]); n = rng.choice([300, 3000, 9000])
        wl = rng.choice([10, 12, 17]); mm = rng.choice([3, 4, 5]); W = 1 << wl
        if mode == "C": mm = max(mm, 4)
        h = datagen.randbytes(rng, D)
        if h[:4] == b"\x37\xa4\x30\xec": h = b"\x00" + h[1:]
        x, seqs, tail = synth_parse(rng, n, h, W, mm, alpha_())
        sq = with_delimiters(rng, seqs, tail, min(W, 131072))
        idx = [j for j, e in enumerate(sq) if e[0]]
        if not idx:
            continue
        j = rng.choice(idx); o, l, m = sq[j]
        pos = sum(a + b for _, a, b in sq[:j]) + l
        bound = W if pos > W else pos + D
        o = rng.choice([bound, bound + 1, bound + 1, bound + 2, pos + D, pos + D + 1, pos + 1, W + 1, o + D, bound + rng.randint(1, 5000)])
        sq[j] = (max(1, o), l, m)
        p = {100: 3, 101: wl, 105: mm, 1008: 1, 1009: 1}
        if rng.random() < 0.5: p = search_params(p)
        cases.append(dict(x=x, p=p, sq=sq, mode=mode, h=h, expect="model", model=explicit_model(p, x, sq, D, False),
                          how="offset of one sequence moved to %d (position %d, %d bytes of history in front, window %d)" % (sq[j][0], pos, D, W)))
    return cases


def run_hist_family(ctx):
    exe = seqprod_harness("san"); plain = frames.harness("plain")
    cases = hist_cases(ctx, ctx.quick())
    ev = 0
    lines = ["cseqx %s %s %s %s%s" % (frames.pstr(c["p"]), frames.hx(c["x"]), sstr(c["sq"]), c["mode"], (" " + frames.hx(c["h"])) if c["h"] else "") for c in cases]
    chunks = frames.split_chunks(lines, 16)
    oc = frames.parallel(lambda ch: [run_resume(exe, ch, timeout=1800)], chunks)
    res = []
    for (out, crashes), ch in zip(oc, chunks):
        res += out
        for bad, err in crashes[:1]:
            k = lines.index(bad) if bad in lines else None
            ctx.violation("ZSTD_compressSequences crashed / was stopped by the sanitizer (%s; params %s): %s" % (cases[k]["how"] if k is not None else "?", frames.pstr(cases[k]["p"]) if k is not None else "?", err[-600:]),
                          dict(kind="monitor", harness="zvh_seqprod", op=bad[:40000000], stderr=err[-3000:]))
    ml = [c["model"] for c in cases if c["expect"] == "model"]
    mo = iter(frames.parallel(lambda ch: frames.model_lines(ch), frames.split_chunks(ml, 16)) if ml else [])
    okidx = [k for k, r in enumerate(res) if r != "crash" and not r.startswith("err")]
    def dh(k): return (" " + frames.hx(cases[k]["h"])) if cases[k]["h"] else ""
    dl = ["dec %d %s%s" % (len(cases[k]["x"]) + 70000, res[k], dh(k)) for k in okidx]
    wl = ["xxh " + frames.hx(cases[k]["x"]) for k in okidx]
    cfk = [k for k in okidx if cases[k]["expect"] == "ok" and len(cases[k]["x"]) <= 300000]
    cl = ["conform %s %s %s %d 0" % (res[k], frames.hx(cases[k]["x"]), frames.hx(cases[k]["h"]) if cases[k]["h"] else "-", cases[k]["p"].get(1015, 0)) for k in cfk]
    da = dict(zip(okidx, frames.parallel(lambda ch: frames.run_lines(plain, ch)[1], frames.split_chunks(dl, 16)))) if dl else {}
    wa = dict(zip(okidx, frames.parallel(lambda ch: frames.run_lines(plain, ch)[1], frames.split_chunks(wl, 16)))) if wl else {}
    ca = dict(zip(cfk, frames.parallel(lambda ch: frames.model_lines(ch), frames.split_chunks(cl, 16)))) if cl else {}
    stats = dict(valid=0, workers=0, accept=0, reject=0)
    shown = {}
    report = ctx.violation

    class _Capped:
        # at most three reports per kind of disagreement and family, so that one kind does not hide the others
        def violation(self, desc, replay, **kw):
            key = (desc[:40], cur["how"][:12])
            shown[key] = shown.get(key, 0) + 1
            if shown[key] <= 3:
                report(desc, replay, **kw)
    cur = {}
    ctx_ = ctx; ctx = _Capped()
    for k, (c, ln, r) in enumerate(zip(cases, lines, res)):
        m = next(mo) if c["expect"] == "model" else None
        cur = c
        if r == "crash":
            continue
        ev += 1
        rep = dict(kind="monitor", harness="zvh_seqprod", op=ln[:40000000], impl=r[:200], how=c["how"])
        if c["expect"] == "model":
            rep["model_op"] = c["model"][:40000000]; rep["model"] = m
            cacc = not r.startswith("err"); macc = m == "accept"
            if cacc and not macc:
                ctx.violation("with validation on, ZSTD_compressSequences ACCEPTED a list the model refuses (%s; params %s)%s" % (c["how"], frames.pstr(c["p"]),
                              "; the frame it emitted is rejected by the decoder: %s" % da[k] if da.get(k, "").startswith("err") else ""), dict(rep, decoder=da.get(k)))
            elif macc and not cacc:
                ctx.violation("with validation on, ZSTD_compressSequences refused (%s) a list whose every offset is within position + history (resp. the window) at its match start (%s; params %s)" % (r, c["how"], frames.pstr(c["p"])), rep)
            else:
                stats[m] += 1
                if cacc and da[k].startswith("err"):
                    ctx.violation("accepted list, but the decoder rejects the frame: %s (%s)" % (da[k], c["how"]), dict(rep, decoder=da[k]))
            continue
        if r.startswith("err"):
            ctx.violation("a valid parse was refused: %s (%s; params %s)" % (r, c["how"], frames.pstr(c["p"])), rep)
            continue
        ev += 1
        if da[k] != wa[k]:
            ctx.violation("frame from a valid parse does not decode to the source: %r expected %r (%s; params %s)" % (da[k], wa[k], c["how"], frames.pstr(c["p"])), dict(rep, library_decoder=da[k], expected=wa[k]))
            continue
        if k in ca:
            ev += 1
            if not ca[k].startswith("ok"):
                ctx.violation("frame from a valid parse is not conformant / not decodable independently: %s (%s; params %s)" % (ca[k][:200], c["how"], frames.pstr(c["p"])), dict(rep, conformance=ca[k][:300]))
                continue
        if c["expect"].startswith("same:"):
            ev += 1; stats["workers"] += 1
            ref = res[int(c["expect"][5:])]
            if ref != "crash" and ref != r:
                ctx.violation("ZSTD_compressSequences emitted a different frame with ZSTD_c_nbWorkers set (%d vs %d bytes) although it compresses within the calling thread (%s; params %s)" % (len(r) // 2, len(ref) // 2, c["how"], frames.pstr(c["p"])), rep)
        else:
            stats["valid"] += 1
    return ev, len(cases), stats


def sstr(seqs):
    return ",".join("%d:%d:%d" % s for s in seqs) or "-"


def correspondence(ctx):
    rng = ctx.rng
    exe = frames.harness("san")
    plain = frames.harness("plain")
    ev = 0
    # (1) valid parses
    lines, meta = [], []
    for i in range(250 if ctx.quick() else 5000):
        kind, x = datagen.gen(rng, 300000 if i % 6 == 0 else 20000)
        if i % 5 == 0:
            x = datagen.repcodes(rng, rng.choice([3000, 150000]))
        noisy = i % 5 == 1
        if noisy:
            # barely compressible blocks that still hold a match, followed by blocks re-using the same distances (raw / RLE blocks + repeat offsets)
            x = datagen.noisecopies(rng, rng.choice([8000, 30000, 140000]))
        wl = rng.choice([10, 12, 15, 17, 17, 20])
        mm = rng.choice([3, 4, 4, 5, 6, 7])
        lvl = rng.choice([1, 3, 3, 5, 10, 13, 19])
        delim = rng.random() < 0.6
        p = {100: lvl, 101: wl, 105: mm, 1008: int(delim), 1009: 1}
        if rng.random() < 0.5: p[1016] = rng.randint(0, 2)
        if rng.random() < 0.3: p[201] = 1
        if rng.random() < 0.15: p[1015] = rng.choice([1024, 4096, 65536])
        if noisy:
            p[1015] = rng.choice([1024, 2048, 4096]); p[100] = rng.choice([1, 3, 19])
        limit = min(1 << wl, 131072, p.get(1015, 131072))
        src = rng.random()
        if src < 0.6 or noisy:
            seqs, tail = parse(rng, x, 1 << wl, mm, 0, rep_heavy=(i % 5 in (0, 1)))
            if delim:
                sq = with_delimiters(rng, seqs, tail, limit)
            else:
                sq = list(seqs)
            lines.append("cseq %s %s %s" % (frames.pstr(p), frames.hx(x), sstr(sq))); meta.append((x, p, "python parser"))
        else:
            # the library's own extracted sequences (optionally with merged delimiters)
            wl = max(wl, 17); p[101] = wl; p.pop(1015, None)      # extracted sequences come in 128 KiB blocks
            gp = {100: rng.choice([1, 3, 7, 16]), 101: wl}
            merge = 0 if delim else 1
            g = frames.run_lines(plain, ["genseq %s %s %d" % (frames.pstr(gp), frames.hx(x), merge)])[1][0]
            if g.startswith("err"):
                continue
            p[105] = 3        # extracted parses may contain 3-byte matches
            if not delim and g != "-":
                # merged form still carries the final literals as a delimiter-like entry: drop a trailing (0,ll,0)
                parts = g.split(",")
                if parts[-1].startswith("0:") and parts[-1].endswith(":0"):
                    g = ",".join(parts[:-1]) or "-"
            lines.append("cseq %s %s %s" % (frames.pstr(p), frames.hx(x), g)); meta.append((x, p, "ZSTD_generateSequences" + (" + merge" if merge else "")))
    dictof = {}
    for i in range(24 if ctx.quick() else 400):
        x, p, sq, d = dict_parse_case(rng)
        dictof[len(lines)] = d
        lines.append("cseq %s %s %s %s" % (frames.pstr(p), frames.hx(x), sstr(sq), frames.hx(d))); meta.append((x, p, "hand-made parse over a formatted dictionary"))
    for i in range(8 if ctx.quick() else 100):
        x, p, sq, d = dict_rawfirst_case(rng)
        dictof[len(lines)] = d
        lines.append("cseq %s %s %s %s" % (frames.pstr(p), frames.hx(x), sstr(sq), frames.hx(d))); meta.append((x, p, "formatted dictionary, raw / RLE / tiny blocks first, then matches needing an offset code beyond the dictionary's table"))
    outc = frames.parallel(lambda ch: [frames.run_lines(exe, ch, timeout=1800)], frames.split_chunks(lines, 16))
    res = []
    for rc, out, err in outc:
        res += out
        if rc != 0:
            ctx.violation("sanitizer build aborted in ZSTD_compressSequences on a VALID parse: %s" % err[-600:], dict(kind="monitor", stderr=err[-3000:]))
    dl, cl, wl_, keep = [], [], [], []
    refused = 0
    for k_, ((x, p, how), ln, f) in enumerate(zip(meta, lines, res)):
        ev += 1
        dh = frames.hx(dictof[k_]) if k_ in dictof else None
        if f.startswith("err"):
            refused += 1
            ctx.violation("a valid parse (%s) was refused: %s  params %s" % (how, f, frames.pstr(p)), dict(kind="monitor", op=ln[:40000000], result=f))
            if len(ctx.violations) >= 4:
                break
            continue
        dl.append("dec %d %s%s" % (len(x), f, (" " + dh) if dh else "")); cl.append("conform %s %s %s %d 0" % (f, frames.hx(x), dh or "-", p.get(1015, 0))); wl_.append("xxh " + frames.hx(x)); keep.append((x, p, how, ln))
    cd = frames.parallel(lambda ch: frames.run_lines(plain, ch)[1], frames.split_chunks(dl, 16))
    cf = frames.parallel(lambda ch: frames.model_lines(ch), frames.split_chunks(cl, 16))
    ww = frames.parallel(lambda ch: frames.run_lines(plain, ch)[1], frames.split_chunks(wl_, 16))
    for (x, p, how, ln), a, b, w in zip(keep, cd, cf, ww):
        ev += 2
        rep = dict(kind="monitor", op=ln[:40000000], library_decoder=a, conformance=b[:300], expected=w)
        if a != w:
            ctx.violation("frame from a valid parse (%s) does not decode to the source: %r expected %r (params %s)" % (how, a, w, frames.pstr(p)), rep)
        elif not b.startswith("ok"):
            ctx.violation("frame from a valid parse (%s) is not conformant / not decodable independently: %s (params %s)" % (how, b[:200], frames.pstr(p)), rep)
        if len(ctx.violations) >= 6:
            break
    # (2) corruptions, explicit delimiters, validation on: model verdict vs implementation verdict
    cl2, ml2, cmeta = [], [], []
    for i in range(600 if ctx.quick() else 20000):
        x = datagen.gen(rng, 6000)[1]
        if len(x) < 40:
            continue
        wl = rng.choice([10, 11, 12, 17]); mm = rng.choice([3, 4, 5])
        mbs = rng.choice([0, 0, 1024, 2048])
        limit = min(1 << wl, 131072, mbs or 131072)
        seqs, tail = parse(rng, x, 1 << wl, mm)
        sq = with_delimiters(rng, seqs, tail, limit)
        if not sq:
            continue
        k = rng.random()
        j = rng.randrange(len(sq))
        o, l, m = sq[j]
        if k < 0.25:
            o = max(0, o + rng.choice([1, -1, 5, 1000, 1 << wl, (1 << wl) + 1, m, l + m]))
        elif k < 0.4:
            m = rng.choice([0, 1, 2, 3, m + 1, max(0, m - 1)])
        elif k < 0.55:
            l = rng.choice([0, l + 1, max(0, l - 1), l + 1000])
        elif k < 0.65:
            sq = [s for s in sq if not (s[0] == 0 and s[2] == 0)] or sq      # all delimiters removed
            j = None
        elif k < 0.75:
            sq = sq[:j] + [(0, 0, 0)] + sq[j:]; j = None
        elif k < 0.8:
            sq = sq[:-1]; j = None
        elif k < 0.85:
            sq = sq + [(rng.randint(0, 50), rng.randint(0, 50), rng.randint(0, 50))]; j = None
        else:
            sq = [(rng.getrandbits(rng.choice([3, 16, 32])), rng.getrandbits(rng.choice([3, 16, 32])), rng.getrandbits(rng.choice([3, 16, 32]))) for _ in range(rng.randint(0, 8))]; j = None
        if j is not None:
            sq = sq[:j] + [(o, l, m)] + sq[j + 1:]
        p = {100: 3, 101: wl, 105: mm, 1008: 1, 1009: 1}
        if mbs: p[1015] = mbs
        cl2.append("cseq %s %s %s" % (frames.pstr(p), frames.hx(x), sstr(sq)))
        ml2.append("seqaccept %d %d 0 %d %d %s" % (limit, 1 << wl, mm, len(x), sstr(sq))); cmeta.append((x, p))
    # directed: one block of a valid explicit-delimiter list gets lengths that exceed it by 2^32 (a multiple, or a little less): the block-size
    # sum is the legitimate size again in any arithmetic narrower than 64 bits; single huge fields as controls.  All refused by the model.
    nwrap = 0
    for i in range(8 if ctx.quick() else 200):
        x = datagen.gen(rng, 6000)[1]
        if i % 4 == 0:
            x = datagen.repcodes(rng, 3000)
        if len(x) < 200:
            continue
        wl = rng.choice([10, 12, 17]); mm = rng.choice([3, 4, 5])
        mbs = rng.choice([0, 0, 1024, 2048])
        limit = min(1 << wl, 131072, mbs or 131072)
        seqs, tail = parse(rng, x, 1 << wl, mm)
        sq = with_delimiters(rng, seqs, tail, limit)
        blocks_, cur = [], []
        for e in sq:
            cur.append(e)
            if e[0] == 0 and e[2] == 0:
                blocks_.append(cur); cur = []
        if cur or not blocks_:
            continue
        cand = [bi for bi, b in enumerate(blocks_) if any(e[0] for e in b)]
        if not cand:
            continue
        bi = rng.choice(cand[:2] + cand[-1:])
        for name, ent in wrap_variants(rng, blocks_[bi]):
            sq2 = [e for b in blocks_[:bi] for e in b] + ent + [e for b in blocks_[bi + 1:] for e in b]
            p = {100: 3, 101: wl, 105: mm, 1008: 1, 1009: 1}
            if mbs: p[1015] = mbs
            cl2.append("cseq %s %s %s" % (frames.pstr(p), frames.hx(x), sstr(sq2)))
            ml2.append("seqaccept %d %d 0 %d %d %s" % (limit, 1 << wl, mm, len(x), sstr(sq2))); cmeta.append((x, p)); nwrap += 1
    oc = frames.parallel(lambda ch: [run_resume(exe, ch, timeout=1800)], frames.split_chunks(cl2, 16))
    r2 = []
    for (out, crashes), ch in zip(oc, frames.split_chunks(cl2, 16)):
        r2 += out
        for bad, err in crashes[:1]:
            ctx.violation("sanitizer build aborted in ZSTD_compressSequences on an arbitrary sequence array: %s" % err[-600:], dict(kind="monitor", op=bad[:40000000], stderr=err[-3000:]))
    m2 = frames.parallel(lambda ch: frames.model_lines(ch), frames.split_chunks(ml2, 16))
    # accepted lists (valid by the rules, whatever their content) must at least produce a frame the decoder does not reject
    acc_idx = [k for k, c in enumerate(r2) if c != "crash" and not c.startswith("err")]
    accd = dict(zip(acc_idx, frames.parallel(lambda ch: frames.run_lines(plain, ch)[1], frames.split_chunks(["dec %d %s" % (len(cmeta[k][0]) + 70000, r2[k]) for k in acc_idx], 16))))
    for k, dres in accd.items():
        ev += 1
        if dres.startswith("err") and len(ctx.violations) < 8:
            ctx.violation("with validation on, ZSTD_compressSequences accepted a sequence list and emitted a frame the decoder rejects (%s): an offset beyond the available history, or lengths beyond the source, were let through" % dres,
                          dict(kind="monitor", op=cl2[k][:40000000], model_op=ml2[k][:40000000], frame=r2[k][:2000], decoder=dres))
    agree = {"accept": 0, "reject": 0}
    for ln, mln, c, m in zip(cl2, ml2, r2, m2):
        ev += 1
        if c == "crash":
            continue
        cacc = not c.startswith("err")
        macc = m == "accept"
        if cacc == macc:
            agree[m] += 1
        elif cacc and not macc:
            ctx.violation("with validation on, ZSTD_compressSequences ACCEPTED a list the model refuses (offset beyond window / history at match start, short match, delimiter or length mismatch)",
                          dict(kind="monitor", op=ln[:40000000], model_op=mln[:40000000], impl=c[:100], model=m))
        else:
            ctx.violation("model accepts a sequence list the implementation refuses: %s" % c, dict(kind="tie", correspondence="SeqApi.acceptExplicit vs ZSTD_compressSequences", op=ln[:40000000], model_op=mln[:40000000], impl=c, model=m), no_input=True)
        if len(ctx.violations) >= 8:
            break
    # (2b) the context after a ZSTD_compressSequences call: usable like a fresh one, without a reset after success
    nreuse = 60 if ctx.quick() else 1500
    rev = run_reuse_family(ctx, [l for l in lines if len(l) < 120000 and len(l.split(" ")) == 4][:nreuse] + [l for l in cl2 if len(l) < 120000 and len(l.split(" ")) == 4][:nreuse // 2])
    ev += rev
    # (3) registered block-level sequence producer: replayed parses, failures, fallback
    pcases = producer_cases(ctx, ctx.quick())
    pev, pstats = run_producer_family(ctx, pcases)
    ev += pev
    # (4) literal runs at the 16-bit boundary through ZSTD_generateSequences
    lev, lcases = run_ll64k(ctx)
    ev += lev
    # (5) ZSTD_mergeBlockDelimiters against the model; extracted lists with runs of bare delimiters merged and fed back
    mev, mstats = run_merge_family(ctx)
    ev += mev
    # (6) a history in front of the frame (prefix / dictionary / CDict), worker threads requested, raw offsets equal to repeat offsets out of history
    hev, hcases, hstats = run_hist_family(ctx)
    ev += hev
    return dict(evaluations=ev, distinct_nontrivial=len({l for l in lines}) + len({l for l in cl2}) + len(pcases) + lcases + mstats["arrays"] + mstats["extracted"] + hcases,
                rule="valid parses: random greedy parser (minMatch 3..7, windows 1 KiB..1 MiB, repcode-heavy sources, blocks cut at random sizes with explicit delimiters incl. matches split across blocks; delimiter-free lists with "
                     "matches crossing 128 KiB) and the library's extracted sequences (with / without merged delimiters), several levels / repcode-search modes / maxBlockSize; corruptions of valid explicit-delimiter lists "
                     "(offset +-, match length, literal length, delimiter removed / inserted / truncated list / extra entry / random entries) with validation on; ASan+UBSan build",
                samples=[dict(op=lines[0][:50] + " ... " + lines[0].split()[-1][:60], result=res[0][:40])], valid_parses=len(lines), corruptions=len(cl2), verdict_agreement=agree,
                producer_cases=len(pcases), producer_stats=pstats, literal_run_cases=lcases, merge=mstats, length_wrap_lists=nwrap, history_cases=hcases, history_stats=hstats)


def replay(ctx, data):
    exe = seqprod_harness("san") if data.get("harness") == "zvh_seqprod" or data.get("op", "").startswith("prod") else frames.harness("san")
    if data.get("harness") == "zvh_seqreuse":
        rc, out, err = frames.run_lines(seqreuse_harness("san"), [data["op"]])
        msg = reuse_monitor(out[0]) if out else "no answer"
        return dict(violates=bool(msg) or rc != 0, monitor=msg, impl=[o[:600] for o in out], rc=rc, stderr=err[-800:])
    rc, out, err = frames.run_lines(exe, [data["op"]])
    m = (seqprod_model([data["model_op"]]) if data["model_op"].startswith("merge ") else frames.model_lines([data["model_op"]])) if data.get("model_op") else None
    return dict(violates=True, impl=[o[:200] for o in out], model=m, rc=rc, stderr=err[-800:])
