"""C17 — sequence-level compression.  Valid parses (random greedy parser, the library's own extracted sequences, merged delimiters,
matches crossing block edges in delimiter-free mode, repcode-heavy data, minMatch 3..7, dictionaries) must yield a conformant frame
decoding to the source (library + independent Lean decoder + Conform); corrupted lists with validation on are accepted or refused exactly
as the Lean model SeqApi.acceptExplicit says (whose validation position is regenerated from the source); everything runs in the
ASan+UBSan build with exact-size sequence arrays."""
import build, zv, frames, datagen

ASSUMPTIONS = ["a registered external sequence producer is not driven yet (fallback switch untested)",
               "the delimiter-free transcriber is compared only through round trip + conformance, not against a block-by-block model"]


def parse(rng, x, window, minmatch, dictlen=0, rep_heavy=False):
    """random greedy parse of x: list of (offset, ll, ml) and the number of trailing literals"""
    seqs, i, anchor = [], 0, 0
    table = {}
    n = len(x)
    mm = max(minmatch, 3)
    last_off = 0
    while i + mm <= n:
        key = x[i:i + mm]
        cand = table.get(key)
        table[key] = i
        if rep_heavy and last_off and i >= last_off and x[i - last_off:i - last_off + mm] == key and rng.random() < 0.7:
            cand = i - last_off
        if cand is not None and i - cand <= window and i - cand >= 1 and rng.random() < 0.85:
            off = i - cand
            ml = mm
            lim = rng.choice([n, n, i + 200, i + 70000])
            while i + ml < n and i + ml < lim and x[cand + ml] == x[i + ml]:
                ml += 1
            seqs.append((off, i - anchor, ml))
            last_off = off
            i += ml
            anchor = i
        else:
            i += 1
    return seqs, n - anchor


def with_delimiters(rng, seqs, tail, blocklimit):
    out, cur, size = [], [], 0
    target = rng.choice([blocklimit, blocklimit, max(1, blocklimit // 2), max(1, blocklimit // 7)])
    for (off, ll, ml) in seqs:
        # a sequence never straddles a block: close the block (its pending literals go to the delimiter) when it would not fit
        if size + ll + ml > target:
            if ll + ml > blocklimit:
                # too long for any block: split the literals off, then cut the match
                pass
            room = target - size
            lit_here = min(ll, room)
            out += cur + [(0, lit_here, 0)] if (cur or lit_here) else []
            ll -= lit_here
            cur, size = [], 0
            target = rng.choice([blocklimit, max(1, blocklimit // 2), max(1, blocklimit // 5)])
            while ll + ml > target:
                # cut: literals first, then pieces of the match (each piece is a valid match of the same offset)
                if ll >= target:
                    out.append((0, target, 0)); ll -= target; continue
                piece = target - ll
                if piece < 4 or ml - piece < 4:
                    out.append((0, ll, 0)) if ll else None
                    ll = 0
                    if ml > target:
                        piece = min(target, ml - 4)
                        if piece < 4:
                            break
                        out += [(off, 0, piece), (0, 0, 0)]; ml -= piece
                    else:
                        break
                    continue
                out += [(off, ll, piece), (0, 0, 0)]; ll = 0; ml -= piece
        cur.append((off, ll, ml)); size += ll + ml
    # trailing literals: close the current block within its limit, then literal-only blocks
    room = max(0, blocklimit - size)
    first = min(tail, room)
    out += cur + [(0, first, 0)]
    tail -= first
    while tail > 0:
        k = min(tail, rng.choice([blocklimit, max(1, blocklimit // 2)]))
        out.append((0, k, 0)); tail -= k
    # drop empty blocks "(0,0,0)" that follow nothing
    res = []
    for s in out:
        if s == (0, 0, 0) and (not res or (res[-1][0] == 0 and res[-1][2] == 0)):
            continue
        res.append(s)
    return res


def dict_parse_case(rng):
    """formatted dictionary (offset-code table limited to what the first block can need) + hand-made parse over several 128 KiB blocks:
    Huffman-compressible literal runs, near matches, and matches into the start of the dictionary whose distance grows with every block"""
    import dictgen
    content = datagen.randbytes(rng, rng.choice([40000, 100000, 120000, 126000]))
    d, _ = dictgen.build_exact_of(rng, content)
    alpha = [rng.randrange(256) for _ in range(rng.choice([4, 16, 60]))]
    nblocks = rng.choice([2, 3, 3, 4])
    x = bytearray(); seqs = []
    for b in range(nblocks):
        size = 131072 if b + 1 < nblocks or rng.random() < 0.5 else rng.randint(20000, 131072)
        nseq = rng.choice([3, 20, 100, 300, 900]) if rng.random() < 0.85 else rng.choice([1100, 2500])
        start = len(x)
        lit = 0
        for _ in range(nseq):
            room = size - (len(x) - start)
            if room < 2200:
                break
            ll = min(rng.choice([0, 1, 30, 200, size // max(1, nseq)]), room - 2100)
            x += bytes(alpha[min(int(rng.expovariate(0.4)), len(alpha) - 1)] for _ in range(ll)); lit += ll
            pos = len(x)
            if rng.random() < 0.5:
                st = rng.randrange(0, min(len(content), 30000)); ml = rng.choice([5, 8, 40, 300, 2000]); ml = min(ml, len(content) - st)
                off = len(content) + pos - st
                x += content[st:st + ml]
            else:
                off = rng.choice([1, 2, 7, rng.randint(1, max(1, min(pos, 70000)))]) if pos else 0
                ml = rng.choice([5, 6, 20, 150])
                off = min(off, pos)
                if not off:
                    continue
                for _k in range(ml):
                    x.append(x[-off])
            seqs.append((off, lit, ml)); lit = 0
        rest = size - (len(x) - start)
        x += bytes(alpha[min(int(rng.expovariate(0.4)), len(alpha) - 1)] for _ in range(rest))
        seqs.append((0, lit + rest, 0))
    p = {100: rng.choice([1, 1, 2, 3, 4, 7]), 101: 21, 1008: 1, 1009: 1}
    if rng.random() < 0.3: p[201] = 1
    return bytes(x), p, seqs, d


def sstr(seqs):
    return ",".join("%d:%d:%d" % s for s in seqs) or "-"


def correspondence(ctx):
    rng = ctx.rng
    exe = frames.harness("san")
    plain = frames.harness("plain")
    ev = 0
    # (1) valid parses
    lines, meta = [], []
    for i in range(250 if ctx.quick() else 5000):
        kind, x = datagen.gen(rng, 300000 if i % 6 == 0 else 20000)
        if i % 5 == 0:
            x = datagen.repcodes(rng, rng.choice([3000, 150000]))
        noisy = i % 5 == 1
        if noisy:
            # barely compressible blocks that still hold a match, followed by blocks re-using the same distances (raw / RLE blocks + repeat offsets)
            x = datagen.noisecopies(rng, rng.choice([8000, 30000, 140000]))
        wl = rng.choice([10, 12, 15, 17, 17, 20])
        mm = rng.choice([3, 4, 4, 5, 6, 7])
        lvl = rng.choice([1, 3, 3, 5, 10, 13, 19])
        delim = rng.random() < 0.6
        p = {100: lvl, 101: wl, 105: mm, 1008: int(delim), 1009: 1}
        if rng.random() < 0.5: p[1016] = rng.randint(0, 2)
        if rng.random() < 0.3: p[201] = 1
        if rng.random() < 0.15: p[1015] = rng.choice([1024, 4096, 65536])
        if noisy:
            p[1015] = rng.choice([1024, 2048, 4096]); p[100] = rng.choice([1, 3, 19])
        limit = min(1 << wl, 131072, p.get(1015, 131072))
        src = rng.random()
        if src < 0.6 or noisy:
            seqs, tail = parse(rng, x, 1 << wl, mm, 0, rep_heavy=(i % 5 in (0, 1)))
            if delim:
                sq = with_delimiters(rng, seqs, tail, limit)
            else:
                sq = list(seqs)
            lines.append("cseq %s %s %s" % (frames.pstr(p), frames.hx(x), sstr(sq))); meta.append((x, p, "python parser"))
        else:
            # the library's own extracted sequences (optionally with merged delimiters)
            wl = max(wl, 17); p[101] = wl; p.pop(1015, None)      # extracted sequences come in 128 KiB blocks
            gp = {100: rng.choice([1, 3, 7, 16]), 101: wl}
            merge = 0 if delim else 1
            g = frames.run_lines(plain, ["genseq %s %s %d" % (frames.pstr(gp), frames.hx(x), merge)])[1][0]
            if g.startswith("err"):
                continue
            p[105] = 3        # extracted parses may contain 3-byte matches
            if not delim and g != "-":
                # merged form still carries the final literals as a delimiter-like entry: drop a trailing (0,ll,0)
                parts = g.split(",")
                if parts[-1].startswith("0:") and parts[-1].endswith(":0"):
                    g = ",".join(parts[:-1]) or "-"
            lines.append("cseq %s %s %s" % (frames.pstr(p), frames.hx(x), g)); meta.append((x, p, "ZSTD_generateSequences" + (" + merge" if merge else "")))
    dictof = {}
    for i in range(24 if ctx.quick() else 400):
        x, p, sq, d = dict_parse_case(rng)
        dictof[len(lines)] = d
        lines.append("cseq %s %s %s %s" % (frames.pstr(p), frames.hx(x), sstr(sq), frames.hx(d))); meta.append((x, p, "hand-made parse over a formatted dictionary"))
    outc = frames.parallel(lambda ch: [frames.run_lines(exe, ch, timeout=1800)], frames.split_chunks(lines, 16))
    res = []
    for rc, out, err in outc:
        res += out
        if rc != 0:
            ctx.violation("sanitizer build aborted in ZSTD_compressSequences on a VALID parse: %s" % err[-600:], dict(kind="monitor", stderr=err[-3000:]))
    dl, cl, wl_, keep = [], [], [], []
    refused = 0
    for k_, ((x, p, how), ln, f) in enumerate(zip(meta, lines, res)):
        ev += 1
        dh = frames.hx(dictof[k_]) if k_ in dictof else None
        if f.startswith("err"):
            refused += 1
            ctx.violation("a valid parse (%s) was refused: %s  params %s" % (how, f, frames.pstr(p)), dict(kind="monitor", op=ln[:400000], result=f))
            if len(ctx.violations) >= 4:
                break
            continue
        dl.append("dec %d %s%s" % (len(x), f, (" " + dh) if dh else "")); cl.append("conform %s %s %s %d 0" % (f, frames.hx(x), dh or "-", p.get(1015, 0))); wl_.append("xxh " + frames.hx(x)); keep.append((x, p, how, ln))
    cd = frames.parallel(lambda ch: frames.run_lines(plain, ch)[1], frames.split_chunks(dl, 16))
    cf = frames.parallel(lambda ch: frames.model_lines(ch), frames.split_chunks(cl, 16))
    ww = frames.parallel(lambda ch: frames.run_lines(plain, ch)[1], frames.split_chunks(wl_, 16))
    for (x, p, how, ln), a, b, w in zip(keep, cd, cf, ww):
        ev += 2
        rep = dict(kind="monitor", op=ln[:400000], library_decoder=a, conformance=b[:300], expected=w)
        if a != w:
            ctx.violation("frame from a valid parse (%s) does not decode to the source: %r expected %r (params %s)" % (how, a, w, frames.pstr(p)), rep)
        elif not b.startswith("ok"):
            ctx.violation("frame from a valid parse (%s) is not conformant / not decodable independently: %s (params %s)" % (how, b[:200], frames.pstr(p)), rep)
        if len(ctx.violations) >= 6:
            break
    # (2) corruptions, explicit delimiters, validation on: model verdict vs implementation verdict
    cl2, ml2, cmeta = [], [], []
    for i in range(600 if ctx.quick() else 20000):
        x = datagen.gen(rng, 6000)[1]
        if len(x) < 40:
            continue
        wl = rng.choice([10, 11, 12, 17]); mm = rng.choice([3, 4, 5])
        mbs = rng.choice([0, 0, 1024, 2048])
        limit = min(1 << wl, 131072, mbs or 131072)
        seqs, tail = parse(rng, x, 1 << wl, mm)
        sq = with_delimiters(rng, seqs, tail, limit)
        if not sq:
            continue
        k = rng.random()
        j = rng.randrange(len(sq))
        o, l, m = sq[j]
        if k < 0.25:
            o = max(0, o + rng.choice([1, -1, 5, 1000, 1 << wl, (1 << wl) + 1, m, l + m]))
        elif k < 0.4:
            m = rng.choice([0, 1, 2, 3, m + 1, max(0, m - 1)])
        elif k < 0.55:
            l = rng.choice([0, l + 1, max(0, l - 1), l + 1000])
        elif k < 0.65:
            sq = [s for s in sq if not (s[0] == 0 and s[2] == 0)] or sq      # all delimiters removed
            j = None
        elif k < 0.75:
            sq = sq[:j] + [(0, 0, 0)] + sq[j:]; j = None
        elif k < 0.8:
            sq = sq[:-1]; j = None
        elif k < 0.85:
            sq = sq + [(rng.randint(0, 50), rng.randint(0, 50), rng.randint(0, 50))]; j = None
        else:
            sq = [(rng.getrandbits(rng.choice([3, 16, 32])), rng.getrandbits(rng.choice([3, 16, 32])), rng.getrandbits(rng.choice([3, 16, 32]))) for _ in range(rng.randint(0, 8))]; j = None
        if j is not None:
            sq = sq[:j] + [(o, l, m)] + sq[j + 1:]
        p = {100: 3, 101: wl, 105: mm, 1008: 1, 1009: 1}
        if mbs: p[1015] = mbs
        cl2.append("cseq %s %s %s" % (frames.pstr(p), frames.hx(x), sstr(sq)))
        ml2.append("seqaccept %d %d 0 %d %d %s" % (limit, 1 << wl, mm, len(x), sstr(sq))); cmeta.append((x, p))
    oc = frames.parallel(lambda ch: [frames.run_lines(exe, ch, timeout=1800)], frames.split_chunks(cl2, 16))
    r2 = []
    for (rc, out, err), ch in zip(oc, frames.split_chunks(cl2, 16)):
        r2 += out + ["crash"] * (len(ch) - len(out))
        if rc != 0:
            bad = ch[min(len(out), len(ch) - 1)]
            ctx.violation("sanitizer build aborted in ZSTD_compressSequences on an arbitrary sequence array: %s" % err[-600:], dict(kind="monitor", op=bad[:400000], stderr=err[-3000:]))
    m2 = frames.parallel(lambda ch: frames.model_lines(ch), frames.split_chunks(ml2, 16))
    # accepted lists (valid by the rules, whatever their content) must at least produce a frame the decoder does not reject
    acc_idx = [k for k, c in enumerate(r2) if c != "crash" and not c.startswith("err")]
    accd = dict(zip(acc_idx, frames.parallel(lambda ch: frames.run_lines(plain, ch)[1], frames.split_chunks(["dec %d %s" % (len(cmeta[k][0]) + 70000, r2[k]) for k in acc_idx], 16))))
    for k, dres in accd.items():
        ev += 1
        if dres.startswith("err") and len(ctx.violations) < 8:
            ctx.violation("with validation on, ZSTD_compressSequences accepted a sequence list and emitted a frame the decoder rejects (%s): an offset beyond the available history was let through" % dres,
                          dict(kind="monitor", op=cl2[k][:400000], model_op=ml2[k][:400000], frame=r2[k][:2000], decoder=dres))
    agree = {"accept": 0, "reject": 0}
    for ln, mln, c, m in zip(cl2, ml2, r2, m2):
        ev += 1
        if c == "crash":
            continue
        cacc = not c.startswith("err")
        macc = m == "accept"
        if cacc == macc:
            agree[m] += 1
        elif cacc and not macc:
            ctx.violation("with validation on, ZSTD_compressSequences ACCEPTED a list the model refuses (offset beyond window / history at match start, short match, delimiter or length mismatch)",
                          dict(kind="monitor", op=ln[:400000], model_op=mln[:400000], impl=c[:100], model=m))
        else:
            ctx.violation("model accepts a sequence list the implementation refuses: %s" % c, dict(kind="tie", correspondence="SeqApi.acceptExplicit vs ZSTD_compressSequences", op=ln[:400000], model_op=mln[:400000], impl=c, model=m), no_input=True)
        if len(ctx.violations) >= 8:
            break
    return dict(evaluations=ev, distinct_nontrivial=len({l for l in lines}) + len({l for l in cl2}),
                rule="valid parses: random greedy parser (minMatch 3..7, windows 1 KiB..1 MiB, repcode-heavy sources, blocks cut at random sizes with explicit delimiters incl. matches split across blocks; delimiter-free lists with "
                     "matches crossing 128 KiB) and the library's extracted sequences (with / without merged delimiters), several levels / repcode-search modes / maxBlockSize; corruptions of valid explicit-delimiter lists "
                     "(offset +-, match length, literal length, delimiter removed / inserted / truncated list / extra entry / random entries) with validation on; ASan+UBSan build",
                samples=[dict(op=lines[0][:50] + " ... " + lines[0].split()[-1][:60], result=res[0][:40])], valid_parses=len(lines), corruptions=len(cl2), verdict_agreement=agree)


def replay(ctx, data):
    exe = frames.harness("san")
    rc, out, err = frames.run_lines(exe, [data["op"]])
    m = frames.model_lines([data["model_op"]]) if data.get("model_op") else None
    return dict(violates=True, impl=[o[:200] for o in out], model=m, rc=rc, stderr=err[-800:])
