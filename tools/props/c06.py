"""C06 — capacity discipline and size bounds.  Ties: ZSTD_compressBound vs Model/Bound.lean (function level); frame extents vs
Model/Walker.lean; monitors in the SANITIZER build with exact-size heap buffers: compression and decompression capacity
sweeps (error or n <= c, never a write past c; c >= bound => success), inspectors (decompressBound >= actual, content size exact,
findFrameCompressedSize = consumed), in-place decoding at the advertised margin."""
import build, zv, frames, datagen

ASSUMPTIONS = ["ASan redzones + a 64-byte canary detect writes past the capacity; reads past the source are detected by ASan on exact-size source buffers",
               "BlockPolicy (what the compressor emits per block) is observed, not proved; raw_fallback_fits proves the raw layout always fits"]


def correspondence(ctx):
    exe = frames.harness("san")
    plain = frames.harness("plain")
    rng = ctx.rng
    ev = 0
    # (a) compressBound function-level tie
    ns = [0, 1, 2, 255, 256, 257, 2047, 2048, 131071, 131072, 131073, 262144, 2**32 - 1, 2**32, 2**40, 2**62, 0xFF00FF00FF00FF00, 2**64 - 1]   # (values just below MAX_INPUT_SIZE give results inside the error-code range: not compared)
    ns += [rng.randrange(0, 300000) for _ in range(300)] + [rng.randrange(0, 2**40) for _ in range(100)]
    lines = ["cbound %d" % n for n in ns]
    c = frames.run_lines(plain, lines)[1]; m = frames.model_lines(lines)
    ev += len(lines)
    for ln, a, b in zip(lines, c, m):
        if a != b:
            ctx.violation("ZSTD_compressBound differs from Model/Bound.compressBound: %s -> impl %s model %s" % (ln, a, b),
                          dict(kind="tie", correspondence="ZSTD_compressBound vs Bound.compressBound", op=ln, impl=a, model=b), no_input=True)
            break
    # (b) compression capacity sweep
    cases = []
    ninputs = 40 if ctx.quick() else 200
    for i in range(ninputs):
        if i % 5 == 0:
            x = datagen.randbytes(rng, rng.choice([0, 1, 100, 5000, 131072, 140000])); kind = "incompressible"
        elif i % 5 == 1:
            x = datagen.blockstruct(rng, rng.choice([150000, 200000, 270000])); kind = "blockstruct"
        elif i % 5 == 2:
            # alternating compressible / random regions: fools the splitter and sub-block paths
            x = b"".join(datagen.text(rng, 8192) if j % 2 else datagen.randbytes(rng, 8192) for j in range(rng.randint(4, 24))); kind = "alternating"
        elif i % 10 == 3:
            # last block: more than 64 KiB of entropy-coded literals, fewer than 128 KiB left in an exactly sized destination
            x = datagen.longlits(rng, 131072 * rng.choice([1, 2]) + rng.randint(70000, 127000)); kind = "longlits"
        else:
            kind, x = datagen.gen(rng, 60000)
        p = frames.param_vector(rng, True, allow_fmt=False)
        if kind == "longlits":
            p = {100: rng.choice([1, 3, 5])}
        if kind in ("blockstruct", "alternating") and rng.random() < 0.7:
            p = {100: rng.choice([16, 17, 19]), **({130: 1340} if rng.random() < 0.3 else {}), **({1010: 1} if rng.random() < 0.5 else {})}
        cases.append((kind, x, p))
    # first pass: actual compressed size with a bound-sized buffer
    bound_lines = ["cbound %d" % len(x) for _, x, _ in cases]
    bounds = [int(b) for b in frames.run_lines(plain, bound_lines)[1]]
    first_pass = frames.parallel(lambda ch: frames.run_lines(exe, ch)[1], frames.split_chunks(["ccap %s %d %s" % (frames.pstr(p), b, frames.hx(x)) for (k, x, p), b in zip(cases, bounds)], 16))
    sweep, info = [], []
    for (kind, x, p), b, r in zip(cases, bounds, first_pass):
        ev += 1
        rep = dict(kind="monitor", params=p, input_hex=frames.hx(x)[:600000], capacity=b, result=r)
        if not r.startswith("ok") or "OVERRUN" in r or "MORE-THAN" in r:
            if r in ("err parameter_outOfBound", "err parameter_unsupported"):
                continue
            ctx.violation("compression into a ZSTD_compressBound(%d)=%d buffer: %s (params %s)" % (len(x), b, r, frames.pstr(p)), rep)
            continue
        csize = int(r.split()[1])
        caps = sorted(set([0, 1, 5, 6, 17, 18, 25, 40] + [csize + d for d in (-40, -9, -8, -3, -2, -1, 0, 1, 2, 8)] + [b - 1, b, b + 1] +
                          [rng.randrange(0, b + 10) for _ in range(6)] + ([csize - rng.randrange(1, 3000) for _ in range(6)] if csize > 3000 else [])))
        for cp in caps:
            if cp < 0:
                continue
            sweep.append("ccap %s %d %s" % (frames.pstr(p), cp, frames.hx(x))); info.append((kind, x, p, cp, b, csize))
    # dense sweeps: EVERY capacity from 0 to a little above the compressed size for a few small inputs (a write that is only bounded
    # by a check made earlier in the block shows for a window of a few dozen capacities somewhere inside the frame)
    for i in range(8 if ctx.quick() else 60):
        kind, x = datagen.gen(rng, rng.choice([3000, 8000, 40000]))
        if len(x) < 200:
            x = datagen.text(rng, 3000); kind = "text"
        p = {100: rng.choice([1, 3, 5, 9, 13, 16, 19])}
        if i % 2 == 0: p[130] = rng.choice([200, 1340, 1340, 4000])
        if rng.random() < 0.3: p[201] = 1
        if rng.random() < 0.2: p[1010] = 1
        r = frames.run_lines(plain, ["ccap %s %d %s" % (frames.pstr(p), len(x) + 1000, frames.hx(x))])[1][0]
        if not r.startswith("ok"):
            continue
        csize = int(r.split()[1]); b = len(x) + (len(x) >> 8) + 64
        top = min(csize + 12, 6000)
        for cp in range(0, top):
            sweep.append("ccap %s %d %s" % (frames.pstr(p), cp, frames.hx(x))); info.append((kind + "-dense", x, p, cp, b + 200, csize))
    res = frames.parallel(lambda ch: [frames.run_lines(exe, ch, timeout=1800)], frames.split_chunks(sweep, 16))
    # run_lines returns (rc,out,err): unpack per chunk
    flat = []
    k = 0
    chunks = frames.split_chunks(sweep, 16)
    pos = 0
    for i in range(len(res)):
        rc, out, err = res[i]
        ch = chunks[i]
        if rc != 0 or len(out) != len(ch):
            bad = ch[len(out)] if len(out) < len(ch) else ch[-1]
            kind, x, p, cp, b, csize = info[pos + min(len(out), len(ch) - 1)]
            ctx.violation("sanitizer build aborted during compression into %d bytes (needed %d): %s" % (cp, csize, (err or "")[-700:]),
                          dict(kind="monitor", params=p, capacity=cp, input_hex=frames.hx(x)[:600000], stderr=(err or "")[-3000:]))
            out = out + ["crash"] * (len(ch) - len(out))
        flat += out
        pos += len(ch)
    for r, (kind, x, p, cp, b, csize) in zip(flat, info):
        ev += 1
        if r == "crash":
            continue
        rep = dict(kind="monitor", params=p, capacity=cp, needed=csize, input_hex=frames.hx(x)[:600000], result=r)
        if "OVERRUN" in r or "MORE-THAN" in r:
            ctx.violation("compression wrote past / returned more than the capacity %d: %s" % (cp, r), rep)
        elif r.startswith("ok") and int(r.split()[1]) > cp:
            ctx.violation("compression returned %s for capacity %d" % (r, cp), rep)
        elif cp >= b and not r.startswith("ok"):
            ctx.violation("capacity %d >= ZSTD_compressBound = %d but compression failed: %s" % (cp, b, r), rep)
        if len(ctx.violations) >= 5:
            break
    # (b2) frame epilogue written by an input-less call into a destination with 0..12 spare bytes (stable output buffer, buffer-less API)
    elines = []
    for i in range(24 if ctx.quick() else 400):
        kind, x = datagen.gen(rng, rng.choice([2000, 60000, 200000]))
        p = {100: rng.choice([1, 3, 5, 9]), 201: rng.choice([0, 1, 1])}
        if rng.random() < 0.3: p[101] = rng.choice([10, 14, 17])
        elines.append("cend %s %s" % (frames.pstr(p), frames.hx(x)))
    eres = frames.parallel(lambda ch: [frames.run_lines(exe, ch, timeout=1800)], frames.split_chunks(elines, 16))
    ech = frames.split_chunks(elines, 16)
    for (rc, out, err), ch in zip(eres, ech):
        ev += len(ch) * 26
        if rc != 0 or len(out) != len(ch):
            bad = ch[min(len(out), len(ch) - 1)]
            ctx.violation("sanitizer build aborted while ending a frame into a destination with 0..12 spare bytes: %s" % (err or "")[-600:], dict(kind="monitor", op=bad[:40000000], stderr=(err or "")[-3000:]))
            continue
        for ln, r in zip(ch, out):
            if "OVER" in r:
                ctx.violation("frame epilogue written past the destination capacity: %s" % r[:300], dict(kind="monitor", op=ln[:40000000], result=r))
    # (b3) the sequence-level single-pass entry point: ZSTD_compressSequences into exact-size destinations (every capacity up to 40, around the
    # compressed size, around the bound)
    slines, sinfo = [], []
    for i in range(30 if ctx.quick() else 400):
        kind, x = datagen.gen(rng, rng.choice([0, 1, 40, 300, 3000, 20000, 140000]))
        p = {100: rng.choice([1, 3, 5, 9, 13]), 201: rng.choice([0, 1])}
        if rng.random() < 0.3: p[200] = 0
        r0 = frames.run_lines(plain, ["ccaps %s %d %s" % (frames.pstr(p), len(x) + (len(x) >> 7) + 1024, frames.hx(x))])[1]
        if not r0 or not r0[0].startswith("ok"):
            continue
        csize = int(r0[0].split()[1])
        n_ = len(x); sb = n_ + (n_ >> 8) + (((128 << 10) - n_) >> 11 if n_ < (128 << 10) else 0)      # ZSTD_compressBound
        for cp in sorted(set(list(range(0, 41)) + [csize + d for d in (-9, -5, -4, -3, -2, -1, 0, 1)] + [rng.randrange(0, csize + 2) for _ in range(6)] + [sb, sb + 1])):
            if cp >= 0:
                slines.append("ccaps %s %d %s" % (frames.pstr(p), cp, frames.hx(x))); sinfo.append((x, p, cp, sb))
    sres = frames.parallel(lambda ch: [frames.run_lines(exe, ch, timeout=1800)], frames.split_chunks(slines, 16))
    spos = 0
    for (rc, out, err), ch in zip(sres, frames.split_chunks(slines, 16)):
        ev += len(out)
        if rc != 0 or len(out) != len(ch):
            x, p, cp, csize = sinfo[spos + min(len(out), len(ch) - 1)]
            ctx.violation("sanitizer build aborted in ZSTD_compressSequences into %d bytes (needed %d): %s" % (cp, csize, (err or "")[-700:]),
                          dict(kind="monitor", api="compressSequences", params=p, capacity=cp, input_hex=frames.hx(x)[:600000], stderr=(err or "")[-3000:]))
        for r, (x, p, cp, csize) in zip(out, sinfo[spos:spos + len(ch)]):
            if "MORE-THAN" in r or (r.startswith("ok") and int(r.split()[1]) > cp):
                ctx.violation("ZSTD_compressSequences returned %s for capacity %d" % (r, cp), dict(kind="monitor", api="compressSequences", params=p, capacity=cp, input_hex=frames.hx(x)[:600000], result=r))
            elif cp >= csize and not r.startswith("ok"):
                ctx.violation("ZSTD_compressSequences failed (%s) in %d bytes >= ZSTD_compressBound = %d" % (r, cp, csize), dict(kind="monitor", api="compressSequences", params=p, capacity=cp, input_hex=frames.hx(x)[:600000], result=r))
        spos += len(ch)
    # (c) decode capacity sweep + inspectors + in-place
    lines, dinfo = [], []
    frs = frames.parallel(lambda ch: frames.run_lines(plain, ch)[1], frames.split_chunks(["comp2 c2 %s %s" % (frames.pstr(p), frames.hx(x)) for k, x, p in cases], 16))
    multi = []
    for (kind, x, p), f in zip(cases, frs):
        if f.startswith("err") or p.get(10):
            continue
        fb = bytes.fromhex(f) if f != "-" else b""
        multi.append((x, fb))
        n = len(x)
        for cp in sorted(set([0, 1, n - 1, n, n + 1, n // 2, max(0, n - 33)] + [rng.randrange(0, n + 2) for _ in range(3)])):
            if cp >= 0:
                lines.append("dcap %d %s" % (cp, f)); dinfo.append(("dcap", x, fb, cp))
    # compositions with skippable frames for the inspectors / in-place margin
    comps = []
    for _ in range(len(multi)):
        parts, content = [], b""
        for _ in range(rng.randint(1, 4)):
            if rng.random() < 0.35:
                pl = datagen.randbytes(rng, rng.choice([0, 1, 3, 50]))
                parts.append((0x184D2A50 + rng.randint(0, 15)).to_bytes(4, "little") + len(pl).to_bytes(4, "little") + pl)
            else:
                x, fb = rng.choice(multi); parts.append(fb); content += x
        if any(len(pp) and pp[:4] == b"\x28\xb5\x2f\xfd" for pp in parts):
            comps.append((content, b"".join(parts), len(parts[0])))
    # nearly incompressible compressed block (tiny window, no content size, raw literals, one short match) + many trailing
    # skippable frames: the margin must count their 8-byte headers
    tight = []
    for _ in range(6 if ctx.quick() else 40):
        x = bytearray(datagen.randbytes(rng, rng.choice([300, 1000, 1024, 3000])))
        if len(x) > 200:
            x[150:180] = x[20:50]
        tight.append(bytes(x))
    tf = frames.run_lines(plain, ["comp2 c2 100=1,101=10,200=0,1002=2 " + frames.hx(x) for x in tight])[1]
    for x, f in zip(tight, tf):
        if f.startswith("err"):
            continue
        fb = bytes.fromhex(f)
        for k in (1, 2, 6, 12):
            sk = b"".join((0x184D2A50 + j).to_bytes(4, "little") + (j % 3).to_bytes(4, "little") + bytes(j % 3) for j in range(k))
            comps.append((x, fb + sk, len(fb)))
    # a VALID frame the library never writes: compressed blocks that are LARGER than what they regenerate (raw literals of 4600 bytes + an empty sequences
    # section: 4604 bytes for 4600) - ZSTD_decompressionMargin budgets 3 bytes per block (known finding C06-margin-expanding-compressed-blocks)
    def expanding(nblocks):
        lit = bytes((j * 7 + 3) & 255 for j in range(4600))
        body = ((3 << 2) | (4600 << 4)).to_bytes(3, "little") + lit + b"\x00"
        blocks = b"".join((((len(body)) << 3) | (2 << 1) | (1 if k == nblocks - 1 else 0)).to_bytes(3, "little") + body for k in range(nblocks))
        return lit * nblocks, b"\x28\xb5\x2f\xfd" + bytes([0x00, 0x11]) + blocks
    expanding_frames = set()
    for nb in (3, 50):
        c_, f_ = expanding(nb); comps.append((c_, f_, len(f_))); expanding_frames.add(f_)
    for content, data, first in comps:
        lines.append("insp " + frames.hx(data)); dinfo.append(("insp", content, data, first))
        for delta in (0, 8, -1):
            lines.append("inplace %d %d %s" % (len(content), delta, frames.hx(data))); dinfo.append(("inplace%+d" % delta, content, data, first))
    want = frames.parallel(lambda ch: frames.run_lines(plain, ch)[1], frames.split_chunks(["xxh " + frames.hx(d[1]) for d in dinfo], 16))
    def run_checked(ch):
        rc, out, err = frames.run_lines(exe, ch, timeout=1800)
        if rc != 0 or len(out) != len(ch):
            bad = ch[min(len(out), len(ch) - 1)]
            ctx.violation("sanitizer build aborted in a decoding / inspection entry point: %s :: %s" % (bad[:100], (err or "")[-600:]), dict(kind="monitor", op=bad[:40000000], stderr=(err or "")[-3000:]))
            out = out + ["crash"] * (len(ch) - len(out))
        return out
    # (c2) source read discipline with decompression parameters set: checksummed frames cut 1..6 bytes short (and at random points) decoded with
    # ZSTD_d_forceIgnoreChecksum / small ZSTD_d_maxBlockSize / ZSTD_d_windowLogMax, single-call and streaming, from exact-size source buffers
    plines = []
    for (x, fb) in multi[: (40 if ctx.quick() else 400)]:
        for cut in sorted(set([1, 2, 3, 4, 5, 6] + [rng.randrange(1, max(2, len(fb))) for _ in range(2)])):
            if cut >= len(fb):
                continue
            dp = rng.choice(["1002=1", "1002=1", "1002=1,1005=1024", "100=10", "1004=1"])
            plines.append("decdp %s %s %d %s" % (dp, rng.choice("oos"), len(x), frames.hx(fb[:len(fb) - cut])))
        plines.append("decdp 1002=1 %s %d %s" % (rng.choice("os"), len(x), frames.hx(fb)))
    pres = frames.parallel(run_checked, frames.split_chunks(plines, 16))
    for ln, r in zip(plines, pres):
        ev += 1
        whole = ln.split()[4] in [frames.hx(fb) for _, fb in multi[:1]]   # (only the uncut line of the first frame is compared below)
        if r.startswith("ok") and int(r.split()[1]) > int(ln.split()[3]):
            ctx.violation("decoding with decompression parameters returned more than the capacity: %s" % r, dict(kind="monitor", op=ln[:40000000], result=r))
    # (c3) synthesized frames with > 64 KiB of literals and a few very long matches, decoded into every kind of capacity (exact, slightly too
    # small, far too small) by the default sequence decoder AND by the prefetching one (forced-long sanitizer build): an overflow that is
    # only discovered among the last sequences of the block must still be reported before anything is written past the destination
    import synth
    blines, binfo = [], []
    for _ in range(40 if ctx.quick() else 600):
        f, x, hand = synth.biglit_frame(rng, True)
        n_ = len(x)
        extra = [hand[0] + rng.randrange(0, hand[1]) for _ in range(3)] if hand and hand[1] > 0 else []
        for cp in sorted(set([n_, n_ - 1, n_ - rng.randint(2, 600), n_ - rng.randint(600, 5000), max(0, n_ - rng.randint(5000, 70000)), rng.randrange(0, n_)] + extra)):
            blines.append("dcap %d %s" % (cp, f.hex())); binfo.append((x, cp))
    bwant = frames.run_lines(plain, ["xxh " + x.hex() for x, cp in binfo])[1]
    for variant in ("san", "seqlongsan"):
        vexe = frames.harness(variant)
        def run_v(ch, vexe=vexe, variant=variant):
            rc, out, err = frames.run_lines(vexe, ch, timeout=1800)
            if rc != 0 or len(out) != len(ch):
                bad = ch[min(len(out), len(ch) - 1)]
                ctx.violation("sanitizer build (%s) aborted while decoding a valid frame into %s bytes: %s" % (variant, bad.split()[1], (err or "")[-600:]), dict(kind="monitor", op=bad[:40000000], variant=variant, stderr=(err or "")[-3000:]))
                out = out + ["crash"] * (len(ch) - len(out))
            return out
        bres = frames.parallel(run_v, frames.split_chunks(blines, 16))
        for ln, r, (x, cp), w in zip(blines, bres, binfo, bwant):
            ev += 1
            if r == "crash":
                continue
            if "OVERRUN" in r or "MORE-THAN" in r:
                ctx.violation("decompression (%s) wrote past the capacity %d: %s" % (variant, cp, r), dict(kind="monitor", op=ln[:40000000], variant=variant, result=r))
            elif cp >= len(x) and r.split("OVER")[0].strip() != w:
                ctx.violation("decompression (%s) of a valid frame into %d >= %d bytes gives %r, expected %r" % (variant, cp, len(x), r, w), dict(kind="monitor", op=ln[:40000000], variant=variant, result=r))
            elif cp < len(x) and r.startswith("ok"):
                ctx.violation("decompression (%s) into a too-small capacity %d (< %d) reported success" % (variant, cp, len(x)), dict(kind="monitor", op=ln[:40000000], variant=variant, result=r))
    # (c4) source read discipline on VALID input: raw literals referenced in place inside the last block of an exactly sized source, short sequences
    # section behind them, long literal runs (over-reading copies) - decoded with room to spare in the destination (fast copy paths)
    rlines = []
    for i in range(300 if ctx.quick() else 5000):
        f, x = synth.rawlit_tail(rng)
        cap = rng.choice([len(x) + 32, len(x) + 64, len(x) + 1000, 1 << 20])
        rlines.append(("dec %d %s" if i % 3 else "bufless %d %s") % (cap, f.hex()))
    rres = frames.parallel(run_checked, frames.split_chunks(rlines, 16))
    ev += len(rres)
    got = frames.parallel(run_checked, frames.split_chunks(lines, 16))
    walk = frames.model_lines(["walk " + frames.hx(d[2]) for d in dinfo if d[0] == "insp"])
    wi = 0
    for ln, r, w, d in zip(lines, got, want, dinfo):
        ev += 1
        if r == "crash":
            continue
        rep = dict(kind="monitor", op=ln[:200000], result=r)
        if d[0] == "dcap":
            _, x, fb, cp = d
            if "OVERRUN" in r or "MORE-THAN" in r:
                ctx.violation("decompression wrote past the capacity %d: %s" % (cp, r), rep)
            elif cp >= len(x) and r.split("OVER")[0].strip() != w:
                ctx.violation("decompression into capacity %d >= content size %d gives %r, expected %r" % (cp, len(x), r, w), rep)
            elif cp < len(x) and r.startswith("ok"):
                ctx.violation("decompression into a too-small capacity %d (< %d) reported success: %s" % (cp, len(x), r), rep)
        elif d[0] == "insp":
            _, content, data, first = d
            f = dict(kv.split("=") for kv in r.split())
            wk = walk[wi]; wi += 1
            if f["fsize"].startswith("E") or int(f["fsize"]) != first:
                ctx.violation("ZSTD_findFrameCompressedSize = %s but the first frame is %d bytes" % (f["fsize"], first), rep)
            if int(f["dbound"]) < len(content):
                ctx.violation("ZSTD_decompressBound = %s < decoded size %d" % (f["dbound"], len(content)), rep)
            if int(f["fdsize"]) >= 0 and int(f["fdsize"]) != len(content):
                ctx.violation("ZSTD_findDecompressedSize = %s != decoded size %d" % (f["fdsize"], len(content)), rep)
            if not wk.startswith("ok") or int(wk[3:].split(",")[0]) != first:
                ctx.violation("walker model frame extent %s != real first frame size %d" % (wk, first), dict(rep, kind="tie", correspondence="Walker.frameSize vs frames"), no_input=True)
        else:
            _, content, data, first = d
            if d[0] in ("inplace+0", "inplace+8"):
                if r.startswith("skip") or r.startswith("err margin"):
                    continue
                body = r.split(" ", 1)[1]
                if body != w:
                    ctx.violation("in-place decoding with the advertised margin%s failed: %s (expected %s)" % (d[0][7:], r, w), rep,
                                  key="C06-margin-expanding-compressed-blocks" if data in expanding_frames else None)
            else:
                if r.startswith("margin=") and r.split(" ", 1)[1].startswith("ok") and r.split(" ", 1)[1] != w:
                    ctx.violation("in-place decoding below the margin silently produced wrong data: %s" % r, rep)
        if len(ctx.violations) >= 8:
            break
    return dict(evaluations=ev, distinct_nontrivial=len({x for _, x, _ in cases if len(x) > 64}),
                rule="inputs (incompressible, block-grid structured, alternating 8 KiB compressible/random regions, generic) x parameter vectors (incl. optimal parser + splitter + targetCBlockSize); "
                     "for each: compression into exact-size heap buffers of ~40 capacities around 0, the needed size and ZSTD_compressBound in the ASan+UBSan build; decompression capacity sweeps; "
                     "frame inspectors and in-place decoding (margin +0, +8, -1) on compositions with skippable frames; distinct = distinct inputs > 64 bytes",
                samples=[dict(kind=cases[0][0], size=len(cases[0][1]), params=frames.pstr(cases[0][2]), bound_sized_result=first_pass[0])],
                compress_capacities=len(sweep), decode_ops=len(lines), bound_values=len(ns))


def replay(ctx, data):
    exe = frames.harness("san")
    if data.get("op"):
        if data.get("variant"):
            exe = frames.harness(data["variant"])
        rc, out, err = frames.run_lines(exe, [data["op"]])
        return dict(violates=rc != 0 or any("OVER" in o or "MORE" in o for o in out), rc=rc, result=out, stderr=err[-1500:])
    x = bytes.fromhex(data["input_hex"]) if data.get("input_hex", "-") != "-" else b""
    p = {int(k): v for k, v in (data.get("params") or {}).items()}
    rc, out, err = frames.run_lines(exe, ["%s %s %d %s" % ("ccaps" if data.get("api") == "compressSequences" else "ccap", frames.pstr(p), data.get("capacity", 0), frames.hx(x))])
    return dict(violates=rc != 0 or any("OVERRUN" in o or "MORE" in o for o in out), rc=rc, out=out, err=err[-1500:])
