"""C16 — parameter interface contract.  Tie: zvh_params (real API) vs zvdriver params (Lean model whose
per-parameter rows are regenerated from the source) on the exhaustive grid + random op sequences."""
import os, json
import build, zv

ASSUMPTIONS = [
    "the regex translator in tools/gen.py classifies each setter case correctly (validated by this differential run on the full grid)",
    "ZSTD_cParam_getBounds/ZSTD_dParam_getBounds values are dumped by a C program compiled against the current tree",
    "static (caller-memory) contexts: the model's two restrictions (nbWorkers != 0 on a static CCtx, refMultipleDDicts on a static DCtx) are written by hand from zstd.h / the setters; "
    "everything else on a static context is required to behave exactly like the heap context (driven on the full grid)",
    "the model of the level -> compression-parameter derivation (Model/LevelParams.lean) is written by hand from ZSTD_getCParams_internal / ZSTD_adjustCParams_internal; the level table, "
    "the level bounds and the numeric limits are regenerated; it is tied to every entry point taking a raw level on a directed level x source size x dictionary size grid",
]
INT_MIN, INT_MAX = -2**31, 2**31 - 1
BIG = {101: 22, 102: 22, 103: 22, 161: 22}    # ids whose large values make `start`/`frame` allocate GiBs


def harness():
    bd = build.build_dir()
    return build.link("zvh_params", ["zvh_params.c"], "plain", extra=["-I" + os.path.join(bd, "geninc")])


def grid_values(p):
    vs = [p["lo"] - 1, p["lo"], p["lo"] + 1, 0, p["dflt"], p["hi"] - 1, p["hi"], p["hi"] + 1, INT_MIN, INT_MAX, 1, 2, 5, -1]
    out = []
    for v in vs:
        v = max(INT_MIN, min(INT_MAX, v))
        if v not in out:
            out.append(v)
    return out


def gen_cases(ctx):
    """list of (tag, lines)"""
    cps, dps = ctx.gen["cps"], ctx.gen["dps"]
    cases = []
    for kind, ps in (("c", cps), ("p", cps), ("d", dps)):
        for p in ps:
            for v in grid_values(p):
                cases.append(("grid fresh", ["new " + kind, "set %d %d" % (p["id"], v)]))
                if kind != "p":
                    cases.append(("grid midframe", ["new " + kind, "start", "set %d %d" % (p["id"], v), "end"]))
                    for r in (1, 2, 3):
                        cases.append(("grid reset%d" % r, ["new " + kind, "set %d %d" % (p["id"], p["hi"]), "reset %d" % r, "set %d %d" % (p["id"], v), "reset %d" % r]))
                    cases.append(("grid midframe-reset", ["new " + kind, "set %d %d" % (p["id"], v), "start", "reset 2", "reset 1", "reset 2"]))
                cases.append(("grid after-error", ["new " + kind, "set %d %d" % (ps[-1]["id"], 99999), "set %d %d" % (p["id"], v)]))
    # ZSTD_compress2 (success and failure) must leave every parameter as it was
    for p in cps:
        if p["id"] in BIG or p["id"] in (400, 1006, 1007):
            continue
        cases.append(("compress2", ["new c", "set %d %d" % (p["id"], p["hi"]), "c2 100000", "c2 1", "reset 1", "c2 1", "set %d %d" % (p["id"], p["lo"]), "reset 1", "c2 100000"]))
    cases.append(("compress2", ["new c", "c2 1", "reset 1", "c2 100000", "frame 100", "set 1006 1", "c2 1", "reset 1", "set 1006 0", "frame 100", "c2 100000"]))
    # struct-level setters: one field out of bounds at a time, different frame parameters than the current ones, fresh and mid-frame
    byid = {p["id"]: p for p in cps}
    good = [byid[i]["lo"] + 1 for i in CP_IDS]
    for j, pid in enumerate(CP_IDS):
        for badv in (0, byid[pid]["hi"] + 1):
            cp = list(good); cp[j] = badv
            for fp in ("0 1 1", "1 0 0", "0 0 1"):
                cases.append(("struct setters", ["new c", "setparams %s %s" % (" ".join(map(str, cp)), fp), "frame 100", "setcparams " + " ".join(map(str, cp)), "setparams %s %s" % (" ".join(map(str, good)), fp), "frame 100",
                                                 "start", "setparams %s 1 1 0" % " ".join(map(str, good)), "setfparams 0 0 0", "end", "setfparams 0 1 1", "frame 5000"]))
    # decoding parameters stay in force for every following frame: checksum verification on / off between frames of one context
    for a in (0, 1):
        for b in (0, 1):
            # the window limit stays in force for every following frame, in both output buffer modes, across session resets; gone after a parameter reset
            for stable in (0, 1):
                cases.append(("dwin effect", ["new d", "set 100 %d" % (12 + a), "set 1001 %d" % stable, "dwin 11", "dwin 14", "dwin 20", "dwin 14", "reset 1", "dwin 20", "dwin 12",
                                              "set 100 21", "dwin 20", "dwin 22", "reset 2", "dwin 22", "set 1001 %d" % stable, "dwin 28" if b else "dwin 27", "dwin 16"]))
            cases.append(("dframe effect", ["new d", "dframe %d 0" % a, "dframe 1 0", "set 1002 1", "dframe 0 0", "dframe 1 0", "dframe %d 1" % b, "set 1002 0", "dframe 1 0", "dframe 0 0", "dframe 1 1",
                                            "set 1002 1", "reset 1", "dframe 1 0", "reset 2", "dframe 1 0", "dframe 0 0"]))
    # unknown parameter ids
    for kind in "cpd":
        cases.append(("unknown id", ["new " + kind, "set 7 1", "set 99999 1", "set -5 0"]))
    # effect persistence across frames and simple API
    rng = ctx.rng
    nseq = 150 if ctx.quick() else 3000
    for _ in range(nseq):
        lines = ["new c"]
        started = False
        for _ in range(rng.randint(3, 25)):
            k = rng.random()
            if 0.55 <= k < 0.72 and started:
                k = 0.85      # the simple API must not be called in the middle of a streaming frame (API misuse)
            if k < 0.55:
                p = rng.choice(cps)
                v = rng.choice(grid_values(p) + [rng.randint(p["lo"], p["hi"])])
                if p["id"] in BIG and v > BIG[p["id"]]:
                    v = BIG[p["id"]]
                if p["id"] in (1006, 1007) and v == 1:
                    v = 0      # stable-buffer modes impose caller obligations the scripted frames do not meet (set itself is on the grid)
                if p["id"] == 400 and v > 4:
                    v = rng.randint(0, 4)
                lines.append("set %d %d" % (p["id"], v))
            elif k < 0.60:
                lines.append(struct_setter(rng, cps))
            elif k < 0.65:
                lines.append("frame %d" % rng.choice([0, 1, 100, 5000, 60000]))
            elif k < 0.72:
                lines.append("simple %d %d" % (rng.choice([0, 100, 5000]), rng.randint(-5, 19)))
            elif k < 0.80:
                lines.append("start"); started = True
            elif k < 0.88:
                lines.append("end"); started = False
            elif k < 0.96:
                r = rng.randint(1, 3)
                lines.append("reset %d" % r)
                if r != 2:
                    started = False
            else:
                lines.append("dict")
        lines.append("end")
        cases.append(("random c-seq", lines))
    for _ in range(nseq // 3):
        kind = rng.choice("dp")
        ps = dps if kind == "d" else cps
        lines = ["new " + kind]
        for _ in range(rng.randint(3, 20)):
            k = rng.random()
            if k < 0.6:
                p = rng.choice(ps)
                lines.append("set %d %d" % (p["id"], rng.choice(grid_values(p) + [rng.randint(p["lo"], p["hi"])])))
            elif k < 0.7:
                lines.append("start")
            elif k < 0.8:
                lines.append("end")
            elif k < 0.9 and kind == "d":
                lines.append("dframe %d %d" % (rng.randint(0, 1), rng.randint(0, 1)))
            elif k < 0.95:
                lines.append("reset %d" % rng.randint(1, 3))
            else:
                lines.append("dict")
        cases.append(("random %s-seq" % kind, lines))
    cases += static_cases(ctx) + applied_cases(ctx) + derive_cases(ctx) + stage_cases(ctx)
    return cases


def stage_cases(ctx):
    """what "mid-frame" / "between frames" means for every way a compression frame can begin and end (the set / reset / dictionary / struct /
    parameter-object gates of one context, heap and static):
      * a frame that is begun AND completed by one call of ZSTD_compressSequences (`seqframe`) leaves the context between frames, like
        ZSTD_compress2 and a ZSTD_compressStream2(ZSTD_e_end) that returns 0: everything legal before it is legal after it, the next frame
        of any entry point starts clean; a call that fails after it began the frame leaves the context mid-frame (session reset required);
      * input accepted with ZSTD_e_continue in stable-input mode (`sstart`: reported consumed, compression deferred) begins the frame:
        every parameter x value, and every init-stage-only entry point, is gated exactly as after a `start` that produced a header."""
    cps = ctx.gen["cps"]
    rng = ctx.rng
    byid = {p["id"]: p for p in cps}
    good = [byid[i]["lo"] + 1 for i in CP_IDS]
    cases = []
    for kind in "cs":
        for p in cps:
            for v in grid_values(p):
                st = "set %d %d" % (p["id"], v)
                big = p["id"] in BIG and v > BIG[p["id"]]
                # after a complete one-call frame: fresh-context behaviour; and under the value in force, following frames of every entry point
                cases.append(("grid after-seqframe", ["new " + kind, "seqframe 1000 0", st, "reset 2", "seqframe 0 0", st] +
                              ([] if big else ["seqframe 1000 0", "frame 5000", "seqframe 1 0", "end", st]) + ["seqframe 700 1", st, "reset 1", st]))
                # deferred stable input: the frame has begun
                if p["id"] != 1006:
                    cases.append(("grid stable-deferred", ["new " + kind, "set 1006 1", "sstart 1000", st, "reset 1" if big else "end", st]))
                else:
                    cases.append(("grid stable-deferred", ["new " + kind, "set 1006 1", "sstart 1000", st, "sstart 2000", "end", st]))
        for n in (1, 1000, 60000):
            for gate in ("reset 2", "dict", "papply", "pledge", "prefix", "cdict", "setfparams 0 1 1", "setcparams " + " ".join(map(str, good)),
                         "setparams %s 1 1 0" % " ".join(map(str, good))):
                if gate == "dict" and kind == "s":
                    continue      # a static context cannot allocate the copy of a dictionary (memory_allocation, whatever the stage)
                cases.append(("gates stable-deferred", ["new " + kind, "pset 201 1", "set 1006 1", "sstart %d" % n, gate, "sstart 100", gate, "end", gate, "frame 100"]))
                cases.append(("gates stable-deferred", ["new " + kind, "set 1006 1", "sstart %d" % n, "start", gate, "sstart %d" % n, "end", gate, "sstart 5", "reset 1", gate]))
                cases.append(("gates after-seqframe", ["new " + kind, "pset 201 1", "seqframe %d 0" % n, gate, "frame 5000", "seqframe 10 1", gate, "reset 1", gate, "seqframe 0 0", "start", gate, "end"]))
        for d in (0, 1):
            cases.append(("gates after-seqframe", ["new " + kind, "set 1008 %d" % d, "seqframe 1000 0", "set 201 1", "seqframe 1000 0", "seqframe 0 0", "frame 100", "start", "end", "seqframe 5 0", "applied 3000",
                                                   "seqframe 1000 0", "c2 100000", "seqframe 1000 0", "simple 100 3", "seqframe 3 1", "reset 3", "seqframe 1000 0", "dict" if kind == "c" else "cdict", "seqframe 1000 0", "prefix", "seqframe 8 0"]))
    gates = ["reset 2", "dict", "papply", "pledge", "prefix", "cdict"]
    gates_static = [g for g in gates if g != "dict"]
    nseq = 120 if ctx.quick() else 3000
    for _ in range(nseq):
        kind = rng.choice("ccs")
        lines = ["new " + kind]
        if rng.random() < 0.7:
            lines.append("set 1006 1")
        started = False
        nstable = 0
        for _ in range(rng.randint(3, 25)):
            k = rng.random()
            if started and (0.40 <= k < 0.50 or 0.60 <= k < 0.66 or 0.84 <= k < 0.90):
                k = 0.80      # whole-frame entry points must not be called in the middle of a streaming frame (API misuse): finish it
            if k < 0.30:
                p = rng.choice(cps)
                v = rng.choice(grid_values(p) + [rng.randint(p["lo"], p["hi"])])
                if p["id"] in BIG and v > BIG[p["id"]]:
                    v = BIG[p["id"]]
                if p["id"] == 1007 and v == 1:
                    v = 0      # stable OUTPUT imposes obligations the scripted frames do not meet (stable INPUT is honoured by the harness)
                if p["id"] == 400 and v > 4:
                    v = rng.randint(0, 4)
                lines.append("set %d %d" % (p["id"], v))
            elif k < 0.34:
                lines.append("set 1006 %d" % rng.randint(0, 1))
            elif k < 0.40:
                lines.append(rng.choice(gates if kind == "c" else gates_static))
            elif k < 0.50:
                lines.append("seqframe %d %d" % (rng.choice([0, 1, 100, 1000]), int(rng.random() < 0.15)))
                if lines[-1].endswith(" 1"):
                    # the call failed after it began the frame: mid-frame gates apply, and only a session reset re-opens the context
                    if rng.random() < 0.7:
                        p = rng.choice(cps)
                        lines.append(rng.choice((gates if kind == "c" else gates_static) + ["set %d %d" % (p["id"], p["dflt"])]))
                    lines.append("reset %d" % rng.choice([1, 3]))
            elif k < 0.60 and nstable < 8:
                lines.append("sstart %d" % rng.choice([1, 100, 1000, 5000])); started = True; nstable += 1
            elif k < 0.63:
                lines.append("simple %d %d" % (rng.choice([0, 100, 5000]), rng.randint(-5, 19)))
            elif k < 0.66:
                lines.append("applied %d" % rng.choice([0, 100, 5000]))
            elif k < 0.70:
                lines.append(struct_setter(rng, cps) if rng.random() < 0.5 else "pset %d %d" % (201, rng.randint(0, 1)))
            elif k < 0.76:
                lines.append("start"); started = True
            elif k < 0.84:
                lines.append("end"); started = False
            elif k < 0.90:
                lines.append("frame %d" % rng.choice([0, 1, 100, 5000, 60000])); started = False
            else:
                r = rng.randint(1, 3)
                lines.append("reset %d" % r)
                if r != 2:
                    started = False
        lines.append("end")
        # the applied-parameter comparison and the all-at-once setter are modelled without a dictionary in play (a dictionary's size enters the derivation, and
        # ZSTD_CCtx_setParametersUsingCCtxParams is refused while a CDict is attached): once a history has touched a dictionary, those two ops are not issued
        seen_dict = False
        for j_, ln_ in enumerate(lines):
            if ln_ in ("dict", "prefix", "cdict"):
                seen_dict = True
            elif seen_dict and (ln_.startswith("applied") or ln_ == "papply"):
                lines[j_] = "reset 1"
        cases.append(("random stage c-seq", lines))
    return cases


def static_cases(ctx):
    """contexts in caller-provided memory (`new s` = ZSTD_initStaticCCtx, `new t` = ZSTD_initStaticDCtx): the whole single-parameter grid
    x stages again - a static context must answer exactly like a heap context except for the two documented restrictions -, frames after
    every set (the value in force, or the refusal, is the same for every following frame), and random histories"""
    cps, dps = ctx.gen["cps"], ctx.gen["dps"]
    rng = ctx.rng
    cases = []
    for kind, ps in (("s", cps), ("t", dps)):
        for p in ps:
            for v in grid_values(p):
                st = "set %d %d" % (p["id"], v)
                cases.append(("grid static fresh", ["new " + kind, st, st]))
                cases.append(("grid static midframe", ["new " + kind, "start", st, "end", st]))
                for r in (1, 2, 3):
                    cases.append(("grid static reset%d" % r, ["new " + kind, "set %d %d" % (p["id"], p["hi"]), "reset %d" % r, st, "reset %d" % r]))
                cases.append(("grid static after-error", ["new " + kind, "set %d %d" % (ps[-1]["id"], 99999), st]))
                if kind == "s":
                    # the value in force (or the refusal) holds for every following frame, small and large, one-shot and streaming
                    cases.append(("grid static frames", ["new s", st, "frame 100", "applied 3000", "frame 60000", st, "c2 100000", "simple 5000 3", "applied 3000", "reset 1", "applied 3000",
                                                         "reset 2", "applied 3000", st, "reset 3", "applied 100"]))
                else:
                    cases.append(("grid static frames", ["new t", st, "dframe 0 0", "dframe 1 1", st, "dframe 0 1", "reset 1", "dframe 1 0", "reset 2", "dframe 0 0", st, "reset 3", "dframe 1 0"]))
    for kind in "st":
        cases.append(("unknown id", ["new " + kind, "set 7 1", "set 99999 1", "set -5 0"]))
    # struct-level setters on a static context
    byid = {p["id"]: p for p in cps}
    good = [byid[i]["lo"] + 1 for i in CP_IDS]
    for j, pid in enumerate(CP_IDS):
        cp = list(good); cp[j] = byid[pid]["hi"] + 1
        cases.append(("struct setters static", ["new s", "setparams %s 0 1 1" % " ".join(map(str, cp)), "frame 100", "setcparams " + " ".join(map(str, cp)), "setparams %s 1 0 0" % " ".join(map(str, good)),
                                                "applied 5000", "start", "setparams %s 1 1 0" % " ".join(map(str, good)), "setfparams 0 0 0", "end", "setfparams 0 1 1", "frame 5000"]))
    nseq = 60 if ctx.quick() else 1500
    for _ in range(nseq):
        lines = ["new s"]
        started = False
        for _ in range(rng.randint(3, 25)):
            k = rng.random()
            if 0.60 <= k < 0.76 and started:
                k = 0.85
            if k < 0.55:
                p = rng.choice(cps) if rng.random() < 0.8 else byid[400]
                v = rng.choice(grid_values(p) + [rng.randint(p["lo"], p["hi"])])
                if p["id"] in BIG and v > BIG[p["id"]]:
                    v = BIG[p["id"]]
                if p["id"] in (1006, 1007) and v == 1:
                    v = 0
                lines.append("set %d %d" % (p["id"], v))
            elif k < 0.60:
                lines.append(struct_setter(rng, cps))
            elif k < 0.65:
                lines.append("frame %d" % rng.choice([0, 1, 100, 5000, 60000]))
            elif k < 0.71:
                lines.append("applied %d" % rng.choice([0, 1, 100, 5000, 60000]))
            elif k < 0.76:
                lines.append("simple %d %d" % (rng.choice([0, 100, 5000]), rng.randint(-5, 19)))
            elif k < 0.82:
                lines.append("start"); started = True
            elif k < 0.90:
                lines.append("end"); started = False
            else:
                r = rng.randint(1, 3)
                lines.append("reset %d" % r)
                if r != 2:
                    started = False
        lines.append("end")
        cases.append(("random static c-seq", lines))
    for _ in range(nseq // 3):
        lines = ["new t"]
        for _ in range(rng.randint(3, 20)):
            k = rng.random()
            if k < 0.6:
                p = rng.choice(dps)
                lines.append("set %d %d" % (p["id"], rng.choice(grid_values(p) + [rng.randint(p["lo"], p["hi"])])))
            elif k < 0.7:
                lines.append("start")
            elif k < 0.8:
                lines.append("end")
            elif k < 0.9:
                lines.append("dframe %d %d" % (rng.randint(0, 1), rng.randint(0, 1)))
            else:
                lines.append("reset %d" % rng.randint(1, 3))
        cases.append(("random static d-seq", lines))
    return cases


def applied_cases(ctx):
    """the compression parameters a frame is really compressed with (ZSTD_compress2 -> appliedParams) follow the parameter state: every
    parameter x value, for two following frames, after a session reset, and back to the defaults' parameters after a parameter reset"""
    cps = ctx.gen["cps"]
    cases = []
    for p in cps:
        for v in grid_values(p):
            if p["id"] in BIG and v > BIG[p["id"]] and p["id"] == 161:
                continue
            st = "set %d %d" % (p["id"], v)
            cases.append(("applied sticky", ["new c", "applied 3000", st, "applied 3000", "applied 3000", "applied 100", "reset 1", "applied 3000", "applied 60000",
                                             "reset 2", "applied 3000", st, "reset 3", "applied 3000"]))
            # set in the middle of a frame (stored for the next frame when update-authorised, refused otherwise), frame abandoned
            cases.append(("applied midframe", ["new c", "start", st, "reset 1", "applied 3000", "applied 3000", "reset 3", "applied 3000"]))
    # a whole ZSTD_CCtx_params object applied to the context (ZSTD_CCtx_setParametersUsingCCtxParams): outside a frame only, all values at once,
    # in force for the following frames like single sets; on a heap and on a static context (which refuses an object that asks for worker threads,
    # like the single-parameter setter does: fix 3ca0aa5)
    for kind in "cs":
        for p in cps:
            for v in grid_values(p):
                if p["id"] in BIG and v > BIG[p["id"]] and p["id"] == 161:
                    continue
                cases.append(("grid papply", ["new " + kind, "pset %d %d" % (p["id"], v), "applied 3000", "papply", "applied 3000", "applied 3000", "reset 2", "applied 3000", "start", "papply", "end",
                                              "pset 201 1", "papply", "applied 100", "frame 100"]))
    # pairs: the level together with one explicit compression parameter / long-distance matching / the row-finder switch
    byid = {p["id"]: p for p in cps}
    for lv in (byid[100]["lo"], -1, 1, 4, 7, 13, 19, byid[100]["hi"]):
        for pid in CP_IDS + [160, 1011, 1004]:
            p = byid[pid]
            for v in (p["lo"], p["lo"] + 1, min(p["hi"], BIG.get(pid, p["hi"]))):
                cases.append(("applied pairs", ["new c", "set 100 %d" % lv, "set %d %d" % (pid, v), "applied 0", "applied 1", "applied 5000", "applied 60000", "reset 2", "applied 5000"]))
    return cases


DERIVE_PURE = (0, 1, 8)


def derive_levels(ctx):
    lv = {p["id"]: p for p in ctx.gen["cps"]}[100]
    lo, hi, dflt = lv["lo"], lv["hi"], lv["dflt"]
    out = []
    for v in [INT_MIN, INT_MIN + 1, -2**30, lo - 100000, lo - 2, lo - 1, lo, lo + 1, lo // 2, -1000, -7, -2, -1, 0, 1, 2, dflt, 6, 12, 13, 16, 19, hi - 1, hi, hi + 1, 1000, INT_MAX - 1, INT_MAX]:
        v = max(INT_MIN, min(INT_MAX, v))
        if v not in out:
            out.append(v)
    return out


def derive_cases(ctx):
    """every entry point that takes a RAW compression level (no setter in between): the compression parameters it derives, on the grid
    {levels far below / at / around the bounds, INT_MIN, INT_MAX} x source sizes around the table tiers x dictionary sizes.
    One case = one (entry, source size, dictionary size), all levels (the monitor compares levels outside the bounds with the nearest bound)."""
    levels = derive_levels(ctx)
    hi = {p["id"]: p for p in ctx.gen["cps"]}[100]["hi"]
    K = 1024
    cases = []
    srcs = [0, 1, 100, 513, 16 * K - 1, 16 * K, 16 * K + 1, 128 * K, 128 * K + 1, 256 * K, 256 * K + 1, 1 << 20, 1 << 30, (1 << 30) + 1, 1 << 32, 2**64 - 2]
    dicts = [0, 1, 100, 16 * K, 110 * K, 300000, (1 << 30) + 1]
    for e in DERIVE_PURE:
        for sz in srcs:
            for d in dicts:
                cases.append(("derive", ["derive %d %d %d %d" % (e, lv, sz, d) for lv in levels]))

    def fam(e, sz, d, maxlevel=None, extra=()):
        ls = [lv for lv in levels if maxlevel is None or lv <= maxlevel or lv in extra]
        cases.append(("derive", ["derive %d %d %d %d" % (e, lv, sz, d) for lv in ls]))
    for sz in (0, 1, 100, 16 * K, 16 * K + 1):
        fam(2, sz, 0)
        fam(10, sz, 0)
    for sz in (128 * K + 1, 256 * K + 1, 1000000):
        fam(2, sz, 0, 3)
        fam(10, sz, 0, 3)
    for d in (100, 20000):
        for sz in (0, 1000):
            fam(3, sz, d)
        fam(3, 140000, d, 3)
        fam(7, 0, d)
    fam(4, 0, 0, 12, extra=(INT_MAX,))
    fam(9, 0, 0, 12, extra=(hi + 1,))
    for d in (1, 100, 20000, 200000):
        fam(5, 0, d)
        fam(6, 0, d)
    fam(6, 0, 0, 3)
    return cases


CP_IDS = [101, 103, 102, 104, 105, 106, 107]


def struct_setter(rng, cps):
    """a call of ZSTD_CCtx_setCParams / setFParams / setParams: mostly valid fields, sometimes one field outside its bounds (0, max+1, huge)"""
    byid = {p["id"]: p for p in cps}
    cp = []
    bad = rng.randrange(7) if rng.random() < 0.4 else -1
    for j, pid in enumerate(CP_IDS):
        p = byid[pid]
        v = rng.randint(p["lo"], min(p["hi"], p["lo"] + 12))
        if j == bad:
            v = rng.choice([0, p["hi"] + 1, p["lo"] - 1, 1 << 30])
        cp.append(max(0, v))
    fp = [rng.choice([0, 1, 1, 7]), rng.choice([0, 1]), rng.choice([0, 1])]
    k = rng.random()
    if k < 0.3:
        return "setcparams " + " ".join(map(str, cp))
    if k < 0.5:
        return "setfparams " + " ".join(map(str, fp))
    return "setparams " + " ".join(map(str, cp + fp))


def monitor(ctx, lines, couts):
    """property-level monitor on the IMPLEMENTATION's outputs alone (no model): returns a description of the
    first property failure or None."""
    cps, dps = ctx.gen["cps"], ctx.gen["dps"]
    kind, ps, prev, started = "c", cps, None, False
    static = False
    par_workers = 0          # worker count held by the separate ZSTD_CCtx_params object (pset 400 v accepted)
    applied_seen = {}
    unsure = False           # a frame operation failed unexpectedly: the context may be mid-frame until the next session reset
    after_seqframe = False   # the previous operation was a successful whole frame through ZSTD_compressSequences
    if lines and lines[0].startswith("derive"):
        return monitor_derive(ctx, lines, couts)
    for ln, out in zip(lines, couts):
        w = ln.split()
        if " | " not in out and not out.endswith("|"):
            return "harness produced no state dump for %r: %r" % (ln, out)
        status, _, vals = out.partition(" |")
        vals = vals.split()
        was_after_seqframe, after_seqframe = after_seqframe, False
        if kind == "c" and was_after_seqframe and w[0] in ("frame", "end", "start", "sstart", "seqframe", "applied", "simple") and status.startswith("err") and not (w[0] == "seqframe" and w[2] == "1"):
            return "%s failed (%s) right after a complete, successful ZSTD_compressSequences frame (the context did not return to the init stage: stale pledged size / stage)" % (ln, status)
        if kind == "c" and w[0] in ("start", "sstart", "end", "frame", "simple", "applied") and status.startswith("err"):
            unsure = True
        if w[0] == "new":
            kind = w[1]; static = kind in "st"; kind = {"s": "c", "t": "d"}.get(kind, kind)
            ps = dps if kind == "d" else cps; started = False; par_workers = 0; unsure = False
            defaults = [str(p["dflt"]) for p in ps]
            if vals != defaults:
                return "fresh object does not read back the defaults"
        elif w[0] == "set":
            pid, v = int(w[1]), int(w[2])
            idx = [i for i, p in enumerate(ps) if p["id"] == pid]
            if not idx:
                if status.startswith("ok"):
                    return "unknown parameter id %d accepted" % pid
            else:
                i = idx[0]; p = ps[i]
                # a context in caller-provided memory: multi-threading (zstd.h, ZSTD_initStaticCCtx, "Limitation 2") and the table of
                # several DDicts need allocations it cannot make - the SETTER refuses, nothing is stored
                restricted = static and ((kind == "c" and pid == 400 and v != 0) or (kind == "d" and pid == 1003))
                if static and kind == "c" and pid == 400 and not started and (vals[i] != "0" or (p["lo"] <= v <= p["hi"] and v != 0 and status != "err:unsupported")):
                    return "static CCtx: set(ZSTD_c_nbWorkers,%d) -> %s, reads back %s (a worker count must be refused by the setter with parameter_unsupported: static contexts cannot run workers)" % (v, status, vals[i])
                if static and kind == "d" and pid == 1003 and v == 1 and status.startswith("ok"):
                    return "static DCtx: set(ZSTD_d_refMultipleDDicts,1) accepted (the DDict table cannot be allocated by a static context)"
                if status == "err:stage" and kind == "c" and not started and not unsure:
                    return "set(%s,%d) refused with stage_wrong although no frame is in progress (the previous frame is complete / nothing was started)" % (p["name"], v)
                if status.startswith("err"):
                    if vals != prev:
                        return "rejected set(%s,%d) changed the state" % (p["name"], v)
                    if p["lo"] <= v <= p["hi"] and not restricted and not (started and not (kind == "c" and p["mid"])) and status != "err:stage":
                        return "in-range value rejected: set(%s,%d) -> %s with bounds [%d,%d]" % (p["name"], v, status, p["lo"], p["hi"])
                else:
                    rb = int(vals[i])
                    others_same = all(a == b for j, (a, b) in enumerate(zip(vals, prev)) if j != i)
                    if not others_same:
                        return "set(%s,%d) changed another parameter" % (p["name"], v)
                    if not (p["lo"] <= rb <= p["hi"]) and not (rb == 0 and v == 0):
                        return "set(%s,%d) accepted and read back as %d outside advertised bounds [%d,%d]" % (p["name"], v, rb, p["lo"], p["hi"])
                    if started and not (kind == "c" and p["mid"]) and kind != "p":
                        return "set(%s) accepted mid-frame although not update-authorised" % p["name"]
        elif w[0] in ("setcparams", "setfparams", "setparams"):
            if status.startswith("err") and vals != prev:
                return "rejected %s changed the state (all-or-nothing contract of the struct-level setters)" % w[0]
            if status.startswith("ok") and started:
                return "%s accepted mid-frame (window log / frame parameters are not update-authorised)" % w[0]
            if status == "err:stage" and not started and not unsure:
                return "%s refused with stage_wrong although no frame is in progress" % w[0]
        elif w[0] in ("dict", "pledge", "prefix", "cdict") and kind == "c":
            what = {"dict": "ZSTD_CCtx_loadDictionary", "pledge": "ZSTD_CCtx_setPledgedSrcSize", "prefix": "ZSTD_CCtx_refPrefix", "cdict": "ZSTD_CCtx_refCDict"}[w[0]]
            if status.startswith("ok") and started:
                return "%s accepted mid-frame (input has already been accepted for the frame in progress)" % what
            if status == "err:stage" and not started and not unsure:
                return "%s refused with stage_wrong although no frame is in progress" % what
        elif w[0] == "sstart" and kind == "c":
            if status == "ok":
                started = True
        elif w[0] == "seqframe" and kind == "c":
            if status.startswith("ok"):
                started = False; after_seqframe = True
            elif w[2] == "1":
                started = True      # failed after the frame was begun: like ZSTD_compress2, the context stays mid-frame
            else:
                return "ZSTD_compressSequences of %s literal bytes failed (%s) with an accepted parameter state" % (w[1], status)
        elif w[0] == "dwin" and kind == "d":
            started = False
            # the window limit in force (ZSTD_d_windowLogMax, 0 = the default 27) decides, whatever the other parameters say (output buffer mode, checksums, ...)
            idx = [i for i, p in enumerate(ps) if p["id"] == 100]
            lim = int(vals[idx[0]]) if idx else 0
            lim = lim or 27
            wl_ = int(w[1])
            if wl_ > lim and status != "err:window":
                return "a frame declaring a 2^%d window was not refused for its window (%s) although ZSTD_d_windowLogMax reads back %d (parameters in force: %s)" % (wl_, status, lim, " ".join(vals))
            if wl_ <= lim and not status.startswith("ok"):
                return "a valid frame declaring a 2^%d window was refused (%s) with ZSTD_d_windowLogMax = %d in force (parameters: %s)" % (wl_, status, lim, " ".join(vals))
        elif w[0] == "dframe":
            started = False        # the harness resets the session before and after the frame
            idx = [i for i, p in enumerate(ps) if p["id"] == 1002]
            ign = int(vals[idx[0]]) if idx and kind == "d" else 0
            if w[1] == "0" and not status.startswith("ok"):
                return "a valid checksummed frame was refused (%s) with ZSTD_d_forceIgnoreChecksum=%d in force" % (status, ign)
            if w[1] == "1" and ign == 0 and status.startswith("ok"):
                return "a frame with a damaged checksum was accepted although checksums are verified"
            if w[1] == "1" and ign == 1 and not status.startswith("ok"):
                return "ZSTD_d_forceIgnoreChecksum is set (reads back 1) but the frame's checksum was still verified: %s" % status
        elif w[0] == "start" and status == "ok" and kind != "p":
            started = True
        elif w[0] in ("end",) and status == "ok":
            started = False
        elif w[0] == "frame" and status.startswith("ok"):
            started = False
        elif w[0] == "pset":
            if vals != prev:
                return "setting a parameter of a separate ZSTD_CCtx_params object changed the context's parameters"
            if w[1] == "400" and status.startswith("ok"):
                hi = [p for p in cps if p["id"] == 400][0]["hi"]
                par_workers = max(0, min(int(w[2]), hi))
        elif w[0] == "papply":
            if status.startswith("err") and vals != prev:
                return "refused ZSTD_CCtx_setParametersUsingCCtxParams changed the state"
            if status.startswith("ok") and started:
                return "ZSTD_CCtx_setParametersUsingCCtxParams accepted mid-frame"
            if static and par_workers != 0 and not started and status != "err:unsupported":
                return "static CCtx: ZSTD_CCtx_setParametersUsingCCtxParams with nbWorkers=%d in the object -> %s (worker threads must be refused with parameter_unsupported: a static context cannot allocate them)" % (par_workers, status)
            if not status.startswith("ok") and not started and not (static and par_workers != 0):
                return "ZSTD_CCtx_setParametersUsingCCtxParams refused outside a frame: %s" % status
        elif w[0] == "applied":
            if not status.startswith("ok ap="):
                return "ZSTD_compress2 of %s bytes failed (%s) with an accepted parameter state" % (w[1], status)
            started = False
            # the parameters a frame is compressed with are a function of the parameter state in force (and the source size): same state,
            # same size => same applied parameters, whatever happened in between (earlier frames, session resets, a parameter reset back to it)
            key = (tuple(vals), w[1])
            if applied_seen.setdefault(key, status) != status:
                return "two frames of %s bytes compressed under the same parameter state used different compression parameters: %s vs %s" % (w[1], applied_seen[key], status)
            ap = [int(x) for x in status[len("ok ap="):].split(",")]
            for j, pid in enumerate(CP_IDS):
                q = [x for x in cps if x["id"] == pid][0]
                if not (q["lo"] <= ap[j] <= q["hi"]):
                    return "frame compressed with %s=%d outside the advertised bounds [%d,%d]" % (q["name"], ap[j], q["lo"], q["hi"])
        elif w[0] == "reset":
            r = int(w[1])
            if kind == "p":
                if vals != [str(p["dflt"]) for p in ps]:
                    return "ZSTD_CCtxParams_reset did not restore every default"
                prev = vals
                continue
            if r == 3 or (r == 2 and status == "ok"):
                if vals != [str(p["dflt"]) for p in ps]:
                    return "parameter reset did not restore every default"
            if r == 2 and started and status == "ok" and kind != "p":
                return "parameter reset accepted mid-frame"
            if r == 2 and kind == "c" and status == "err:stage" and not started and not unsure:
                return "parameter reset refused with stage_wrong although no frame is in progress"
            if r in (1, 3):
                started = False; unsure = False
            if r == 1 and vals != prev:
                return "session-only reset changed a parameter"
        if w[0] == "c2":
            started = status != "ok"
        if w[0] in ("start", "end", "frame", "simple", "dict", "c2", "dframe", "applied", "sstart", "seqframe", "pledge", "prefix", "cdict") and prev is not None and vals != prev:
            return "%s changed a stored parameter" % w[0]
        prev = vals
    return None


def monitor_derive(ctx, lines, couts):
    """model-independent checks on one `derive` case (one entry point, source size, dictionary size; all levels): every derived structure
    passes ZSTD_checkCParams and the struct-level setters, and a level outside [ZSTD_minCLevel(), ZSTD_maxCLevel()] derives what the nearest
    bound derives (0 derives what the default level derives)"""
    lv = {p["id"]: p for p in ctx.gen["cps"]}[100]
    res = {}
    for ln, out in zip(lines, couts):
        w = ln.split()
        status = out.partition(" |")[0]
        level = int(w[2])
        what = "%s(level=%d, srcSize=%s, dictSize=%s)" % (DERIVE_NAMES.get(int(w[1]), "entry " + w[1]), level, w[3], w[4])
        if not status.startswith("ok cp="):
            return "%s failed: %s" % (what, status)
        f = dict(x.split("=", 1) for x in status.split()[1:])
        if f.get("chk") != "0":
            return "%s derives compression parameters outside the advertised bounds: {wlog,clog,hlog,slog,mml,tlen,strat} = %s (ZSTD_checkCParams refuses them)" % (what, f["cp"])
        if "acc" in f and f["acc"] != "ok":
            return "%s returns a structure that ZSTD_CCtx_setCParams / ZSTD_CCtx_setParams refuse: %s -> %s" % (what, f["cp"], f["acc"])
        res[level] = (f["cp"], what)
    for level, (cp, what) in res.items():
        ref = lv["lo"] if level < lv["lo"] else lv["hi"] if level > lv["hi"] else lv["dflt"] if level == 0 else None
        if ref is not None and ref in res and res[ref][0] != cp:
            return "%s derives %s, but level %d (the nearest accepted level) derives %s" % (what, cp, ref, res[ref][0])
    return None


DERIVE_NAMES = {0: "ZSTD_getCParams", 1: "ZSTD_getParams", 2: "ZSTD_compressCCtx", 3: "ZSTD_compress_usingDict", 4: "ZSTD_compressBegin", 5: "ZSTD_compressBegin_usingDict",
                6: "ZSTD_createCDict", 7: "ZSTD_createCDict_byReference", 8: "ZSTD_CCtxParams_init+ZSTD_getCParamsFromCCtxParams", 9: "ZSTD_initCStream", 10: "ZSTD_CCtx_setParameter(level)+ZSTD_compress2"}


def run_cases(ctx, exe, cases):
    """all cases in one process pair; returns list of (case_index, first_diff_line)"""
    lines, spans = [], []
    for tag, ls in cases:
        spans.append((len(lines), len(lines) + len(ls)))
        lines += ls
    c, m, crc, cerr = zv.differential(exe, "params", lines, timeout=900)
    bad = []
    if crc != 0:
        bad.append((None, "harness exit status %d: %s" % (crc, cerr[-500:])))
    for ci, (a, b) in enumerate(spans):
        if c[a:b] != m[a:b]:
            d = zv.first_diff(c[a:b], m[a:b])
            bad.append((ci, d))
    return lines, spans, c, m, bad


def correspondence(ctx):
    exe = harness()
    cases = gen_cases(ctx)
    lines, spans, c, m, bad = run_cases(ctx, exe, cases)
    # monitors on every case
    nmon = 0
    for ci, (tag, ls) in enumerate(cases):
        a, b = spans[ci]
        msg = monitor(ctx, ls, c[a:b])
        if msg:
            nmon += 1
            key = None
            ctx.violation("C16 monitor: " + msg, dict(kind="monitor", case=tag, ops=ls, impl=c[a:b], model=m[a:b]), key=key)
            if nmon >= 3:
                break
    for ci, d in bad[:3]:
        if ci is None:
            ctx.violation("harness failed: " + d, dict(kind="harness"), no_input=True)
            continue
        tag, ls = cases[ci]
        a, b = spans[ci]
        msg = monitor(ctx, ls, c[a:b])
        if msg:
            continue   # already reported with its concrete input
        ctx.violation("model/implementation disagree on %s at op %d (%s): impl=%r model=%r; the property monitor found no property failure on this case"
                      % (tag, d, ls[d] if d < len(ls) else "?", (c[a:b] + ["<missing>"])[d] if d <= len(c[a:b]) else "?", (m[a:b] + ["<missing>"])[d]),
                      dict(kind="tie", correspondence="zvh_params vs Model/Params.lean", case=tag, ops=ls, impl=c[a:b], model=m[a:b], first_diff=d), no_input=True)
    # what the reset directives drop on the decoding side, the references collected under ZSTD_d_refMultipleDDicts included ("a parameter reset restores
    # every default and drops dictionaries"): histories over one context and a pool of DDicts, judged by tools/ddset.py
    import ddset
    dlines = ddset.run(ctx, "C16", dict(reset=ddset.gen_reset(ddset.hx("plain"), ctx.rng, 80 if ctx.quick() else 2000)))
    tags = {"ddict-set-across-resets": len(dlines)}
    for tag, ls in cases:
        tags[tag] = tags.get(tag, 0) + 1
    distinct = len({tuple(ls) for tag, ls in cases}) + len(set(dlines))
    sets = {ln for tag, ls in cases for ln in ls if ln.startswith("set")}
    return dict(evaluations=len(lines) + len(dlines), distinct_nontrivial=distinct,
                rule="exhaustive grid: every parameter (regenerated from zstd.h) x {lo-1,lo,lo+1,0,default,hi-1,hi,hi+1,INT_MIN,INT_MAX,1,2,5,-1} x "
                     "{fresh, mid-frame, after error, after each reset kind, after a whole ZSTD_compressSequences frame, after deferred stable input} x {CCtx, CCtx_params, DCtx, static CCtx, static DCtx} + random op sequences; "
                     "compression parameters applied to following frames (every parameter x value, level x parameter pairs); raw-level entry points "
                     "(getCParams/getParams/compressCCtx/compress_usingDict/compressBegin[_usingDict]/createCDict[_byReference]/CCtxParams_init/initCStream) x levels "
                     "{INT_MIN .. lo-1, lo .. hi, hi+1 .. INT_MAX} x source sizes around the table tiers x dictionary sizes; a case is distinct by its op list; "
                     "every op's full parameter read-back is compared with the Lean model and checked by a model-independent monitor; "
                     "decoder histories over a pool of DDicts: ZSTD_d_refMultipleDDicts x refDDict x the three reset directives x frames of dictionaries referenced before / after the reset",
                samples=[dict(case=cases[i][0], ops=cases[i][1], impl=c[spans[i][0]:spans[i][1]][-1][:160]) for i in (0, len(cases) // 2, len(cases) - 1)],
                case_kinds=tags, distinct_set_ops=len(sets), exhaustive=True, model_impl_disagreements=len(bad))


def search_failing_input(ctx, broken, log):
    """a Props/C16 obligation broke (e.g. all_rows_wf): look for a concrete parameter/value that violates the
    property on the real code, using the monitor on the grid."""
    exe = harness()
    cases = [cs for cs in gen_cases(ctx) if cs[0].startswith("grid") or cs[0] == "derive"]
    lines, spans, c, m, bad = run_cases(ctx, exe, cases)
    for ci, (tag, ls) in enumerate(cases):
        a, b = spans[ci]
        msg = monitor(ctx, ls, c[a:b])
        if msg:
            return dict(desc=msg, ops=ls, impl=c[a:b])
    return None


def replay(ctx, data):
    if str(data.get("op", "")).startswith("ddh "):
        import ddset
        return ddset.replay(ctx, data)
    exe = harness()
    ops = data.get("ops") or (data.get("witness") or {}).get("ops")
    if not ops:
        return dict(violates=False, note="no ops in replay file (broken proof obligation without concrete input)", broken=data.get("broken"))
    c, m, crc, cerr = zv.differential(exe, "params", ops)
    msg = monitor(ctx, ops, c)
    return dict(violates=bool(msg) or c != m, monitor=msg, impl=c, model=m)
