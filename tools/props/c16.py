"""C16 — parameter interface contract.  Tie: zvh_params (real API) vs zvdriver params (Lean model whose
per-parameter rows are regenerated from the source) on the exhaustive grid + random op sequences."""
import os, json
import build, zv

ASSUMPTIONS = [
    "the regex translator in tools/gen.py classifies each setter case correctly (validated by this differential run on the full grid)",
    "ZSTD_cParam_getBounds/ZSTD_dParam_getBounds values are dumped by a C program compiled against the current tree",
    "static (caller-memory) contexts are not driven here (nbWorkers / refMultipleDDicts restrictions)",
]
INT_MIN, INT_MAX = -2**31, 2**31 - 1
BIG = {101: 22, 102: 22, 103: 22, 161: 22}    # ids whose large values make `start`/`frame` allocate GiBs


def harness():
    bd = build.build_dir()
    return build.link("zvh_params", ["zvh_params.c"], "plain", extra=["-I" + os.path.join(bd, "geninc")])


def grid_values(p):
    vs = [p["lo"] - 1, p["lo"], p["lo"] + 1, 0, p["dflt"], p["hi"] - 1, p["hi"], p["hi"] + 1, INT_MIN, INT_MAX, 1, 2, 5, -1]
    out = []
    for v in vs:
        v = max(INT_MIN, min(INT_MAX, v))
        if v not in out:
            out.append(v)
    return out


def gen_cases(ctx):
    """list of (tag, lines)"""
    cps, dps = ctx.gen["cps"], ctx.gen["dps"]
    cases = []
    for kind, ps in (("c", cps), ("p", cps), ("d", dps)):
        for p in ps:
            for v in grid_values(p):
                cases.append(("grid fresh", ["new " + kind, "set %d %d" % (p["id"], v)]))
                if kind != "p":
                    cases.append(("grid midframe", ["new " + kind, "start", "set %d %d" % (p["id"], v), "end"]))
                    for r in (1, 2, 3):
                        cases.append(("grid reset%d" % r, ["new " + kind, "set %d %d" % (p["id"], p["hi"]), "reset %d" % r, "set %d %d" % (p["id"], v), "reset %d" % r]))
                    cases.append(("grid midframe-reset", ["new " + kind, "set %d %d" % (p["id"], v), "start", "reset 2", "reset 1", "reset 2"]))
                cases.append(("grid after-error", ["new " + kind, "set %d %d" % (ps[-1]["id"], 99999), "set %d %d" % (p["id"], v)]))
    # ZSTD_compress2 (success and failure) must leave every parameter as it was
    for p in cps:
        if p["id"] in BIG or p["id"] in (400, 1006, 1007):
            continue
        cases.append(("compress2", ["new c", "set %d %d" % (p["id"], p["hi"]), "c2 100000", "c2 1", "reset 1", "c2 1", "set %d %d" % (p["id"], p["lo"]), "reset 1", "c2 100000"]))
    cases.append(("compress2", ["new c", "c2 1", "reset 1", "c2 100000", "frame 100", "set 1006 1", "c2 1", "reset 1", "set 1006 0", "frame 100", "c2 100000"]))
    # struct-level setters: one field out of bounds at a time, different frame parameters than the current ones, fresh and mid-frame
    byid = {p["id"]: p for p in cps}
    good = [byid[i]["lo"] + 1 for i in CP_IDS]
    for j, pid in enumerate(CP_IDS):
        for badv in (0, byid[pid]["hi"] + 1):
            cp = list(good); cp[j] = badv
            for fp in ("0 1 1", "1 0 0", "0 0 1"):
                cases.append(("struct setters", ["new c", "setparams %s %s" % (" ".join(map(str, cp)), fp), "frame 100", "setcparams " + " ".join(map(str, cp)), "setparams %s %s" % (" ".join(map(str, good)), fp), "frame 100",
                                                 "start", "setparams %s 1 1 0" % " ".join(map(str, good)), "setfparams 0 0 0", "end", "setfparams 0 1 1", "frame 5000"]))
    # decoding parameters stay in force for every following frame: checksum verification on / off between frames of one context
    for a in (0, 1):
        for b in (0, 1):
            cases.append(("dframe effect", ["new d", "dframe %d 0" % a, "dframe 1 0", "set 1002 1", "dframe 0 0", "dframe 1 0", "dframe %d 1" % b, "set 1002 0", "dframe 1 0", "dframe 0 0", "dframe 1 1",
                                            "set 1002 1", "reset 1", "dframe 1 0", "reset 2", "dframe 1 0", "dframe 0 0"]))
    # unknown parameter ids
    for kind in "cpd":
        cases.append(("unknown id", ["new " + kind, "set 7 1", "set 99999 1", "set -5 0"]))
    # effect persistence across frames and simple API
    rng = ctx.rng
    nseq = 150 if ctx.quick() else 3000
    for _ in range(nseq):
        lines = ["new c"]
        started = False
        for _ in range(rng.randint(3, 25)):
            k = rng.random()
            if 0.55 <= k < 0.72 and started:
                k = 0.85      # the simple API must not be called in the middle of a streaming frame (API misuse)
            if k < 0.55:
                p = rng.choice(cps)
                v = rng.choice(grid_values(p) + [rng.randint(p["lo"], p["hi"])])
                if p["id"] in BIG and v > BIG[p["id"]]:
                    v = BIG[p["id"]]
                if p["id"] in (1006, 1007) and v == 1:
                    v = 0      # stable-buffer modes impose caller obligations the scripted frames do not meet (set itself is on the grid)
                if p["id"] == 400 and v > 4:
                    v = rng.randint(0, 4)
                lines.append("set %d %d" % (p["id"], v))
            elif k < 0.60:
                lines.append(struct_setter(rng, cps))
            elif k < 0.65:
                lines.append("frame %d" % rng.choice([0, 1, 100, 5000, 60000]))
            elif k < 0.72:
                lines.append("simple %d %d" % (rng.choice([0, 100, 5000]), rng.randint(-5, 19)))
            elif k < 0.80:
                lines.append("start"); started = True
            elif k < 0.88:
                lines.append("end"); started = False
            elif k < 0.96:
                r = rng.randint(1, 3)
                lines.append("reset %d" % r)
                if r != 2:
                    started = False
            else:
                lines.append("dict")
        lines.append("end")
        cases.append(("random c-seq", lines))
    for _ in range(nseq // 3):
        kind = rng.choice("dp")
        ps = dps if kind == "d" else cps
        lines = ["new " + kind]
        for _ in range(rng.randint(3, 20)):
            k = rng.random()
            if k < 0.6:
                p = rng.choice(ps)
                lines.append("set %d %d" % (p["id"], rng.choice(grid_values(p) + [rng.randint(p["lo"], p["hi"])])))
            elif k < 0.7:
                lines.append("start")
            elif k < 0.8:
                lines.append("end")
            elif k < 0.9 and kind == "d":
                lines.append("dframe %d %d" % (rng.randint(0, 1), rng.randint(0, 1)))
            elif k < 0.95:
                lines.append("reset %d" % rng.randint(1, 3))
            else:
                lines.append("dict")
        cases.append(("random %s-seq" % kind, lines))
    return cases


CP_IDS = [101, 103, 102, 104, 105, 106, 107]


def struct_setter(rng, cps):
    """a call of ZSTD_CCtx_setCParams / setFParams / setParams: mostly valid fields, sometimes one field outside its bounds (0, max+1, huge)"""
    byid = {p["id"]: p for p in cps}
    cp = []
    bad = rng.randrange(7) if rng.random() < 0.4 else -1
    for j, pid in enumerate(CP_IDS):
        p = byid[pid]
        v = rng.randint(p["lo"], min(p["hi"], p["lo"] + 12))
        if j == bad:
            v = rng.choice([0, p["hi"] + 1, p["lo"] - 1, 1 << 30])
        cp.append(max(0, v))
    fp = [rng.choice([0, 1, 1, 7]), rng.choice([0, 1]), rng.choice([0, 1])]
    k = rng.random()
    if k < 0.3:
        return "setcparams " + " ".join(map(str, cp))
    if k < 0.5:
        return "setfparams " + " ".join(map(str, fp))
    return "setparams " + " ".join(map(str, cp + fp))


def monitor(ctx, lines, couts):
    """property-level monitor on the IMPLEMENTATION's outputs alone (no model): returns a description of the
    first property failure or None."""
    cps, dps = ctx.gen["cps"], ctx.gen["dps"]
    kind, ps, prev, started = "c", cps, None, False
    for ln, out in zip(lines, couts):
        w = ln.split()
        if " | " not in out and not out.endswith("|"):
            return "harness produced no state dump for %r: %r" % (ln, out)
        status, _, vals = out.partition(" |")
        vals = vals.split()
        if w[0] == "new":
            kind = w[1]; ps = dps if kind == "d" else cps; started = False
            defaults = [str(p["dflt"]) for p in ps]
            if vals != defaults:
                return "fresh object does not read back the defaults"
        elif w[0] == "set":
            pid, v = int(w[1]), int(w[2])
            idx = [i for i, p in enumerate(ps) if p["id"] == pid]
            if not idx:
                if status.startswith("ok"):
                    return "unknown parameter id %d accepted" % pid
            else:
                i = idx[0]; p = ps[i]
                if status.startswith("err"):
                    if vals != prev:
                        return "rejected set(%s,%d) changed the state" % (p["name"], v)
                    if p["lo"] <= v <= p["hi"] and not (started and not (kind == "c" and p["mid"])) and status != "err:stage":
                        return "in-range value rejected: set(%s,%d) -> %s with bounds [%d,%d]" % (p["name"], v, status, p["lo"], p["hi"])
                else:
                    rb = int(vals[i])
                    others_same = all(a == b for j, (a, b) in enumerate(zip(vals, prev)) if j != i)
                    if not others_same:
                        return "set(%s,%d) changed another parameter" % (p["name"], v)
                    if not (p["lo"] <= rb <= p["hi"]) and not (rb == 0 and v == 0):
                        return "set(%s,%d) accepted and read back as %d outside advertised bounds [%d,%d]" % (p["name"], v, rb, p["lo"], p["hi"])
                    if started and not (kind == "c" and p["mid"]) and kind != "p":
                        return "set(%s) accepted mid-frame although not update-authorised" % p["name"]
        elif w[0] in ("setcparams", "setfparams", "setparams"):
            if status.startswith("err") and vals != prev:
                return "rejected %s changed the state (all-or-nothing contract of the struct-level setters)" % w[0]
        elif w[0] == "dframe":
            started = False        # the harness resets the session before and after the frame
            idx = [i for i, p in enumerate(ps) if p["id"] == 1002]
            ign = int(vals[idx[0]]) if idx and kind == "d" else 0
            if w[1] == "0" and not status.startswith("ok"):
                return "a valid checksummed frame was refused (%s) with ZSTD_d_forceIgnoreChecksum=%d in force" % (status, ign)
            if w[1] == "1" and ign == 0 and status.startswith("ok"):
                return "a frame with a damaged checksum was accepted although checksums are verified"
            if w[1] == "1" and ign == 1 and not status.startswith("ok"):
                return "ZSTD_d_forceIgnoreChecksum is set (reads back 1) but the frame's checksum was still verified: %s" % status
        elif w[0] == "start" and status == "ok" and kind != "p":
            started = True
        elif w[0] in ("end",) and status == "ok":
            started = False
        elif w[0] == "frame" and status.startswith("ok"):
            started = False
        elif w[0] == "reset":
            r = int(w[1])
            if kind == "p":
                if vals != [str(p["dflt"]) for p in ps]:
                    return "ZSTD_CCtxParams_reset did not restore every default"
                prev = vals
                continue
            if r == 3 or (r == 2 and status == "ok"):
                if vals != [str(p["dflt"]) for p in ps]:
                    return "parameter reset did not restore every default"
            if r == 2 and started and status == "ok" and kind != "p":
                return "parameter reset accepted mid-frame"
            if r in (1, 3):
                started = False
            if r == 1 and vals != prev:
                return "session-only reset changed a parameter"
        if w[0] == "c2":
            started = status != "ok"
        if w[0] in ("start", "end", "frame", "simple", "dict", "c2", "dframe") and prev is not None and vals != prev:
            return "%s changed a stored parameter" % w[0]
        prev = vals
    return None


def run_cases(ctx, exe, cases):
    """all cases in one process pair; returns list of (case_index, first_diff_line)"""
    lines, spans = [], []
    for tag, ls in cases:
        spans.append((len(lines), len(lines) + len(ls)))
        lines += ls
    c, m, crc, cerr = zv.differential(exe, "params", lines, timeout=900)
    bad = []
    if crc != 0:
        bad.append((None, "harness exit status %d: %s" % (crc, cerr[-500:])))
    for ci, (a, b) in enumerate(spans):
        if c[a:b] != m[a:b]:
            d = zv.first_diff(c[a:b], m[a:b])
            bad.append((ci, d))
    return lines, spans, c, m, bad


def correspondence(ctx):
    exe = harness()
    cases = gen_cases(ctx)
    lines, spans, c, m, bad = run_cases(ctx, exe, cases)
    # monitors on every case
    nmon = 0
    for ci, (tag, ls) in enumerate(cases):
        a, b = spans[ci]
        msg = monitor(ctx, ls, c[a:b])
        if msg:
            nmon += 1
            key = None
            ctx.violation("C16 monitor: " + msg, dict(kind="monitor", case=tag, ops=ls, impl=c[a:b], model=m[a:b]), key=key)
            if nmon >= 3:
                break
    for ci, d in bad[:3]:
        if ci is None:
            ctx.violation("harness failed: " + d, dict(kind="harness"), no_input=True)
            continue
        tag, ls = cases[ci]
        a, b = spans[ci]
        msg = monitor(ctx, ls, c[a:b])
        if msg:
            continue   # already reported with its concrete input
        ctx.violation("model/implementation disagree on %s at op %d (%s): impl=%r model=%r; the property monitor found no property failure on this case"
                      % (tag, d, ls[d] if d < len(ls) else "?", (c[a:b] + ["<missing>"])[d] if d <= len(c[a:b]) else "?", (m[a:b] + ["<missing>"])[d]),
                      dict(kind="tie", correspondence="zvh_params vs Model/Params.lean", case=tag, ops=ls, impl=c[a:b], model=m[a:b], first_diff=d), no_input=True)
    tags = {}
    for tag, ls in cases:
        tags[tag] = tags.get(tag, 0) + 1
    distinct = len({tuple(ls) for tag, ls in cases})
    sets = {ln for tag, ls in cases for ln in ls if ln.startswith("set")}
    return dict(evaluations=len(lines), distinct_nontrivial=distinct,
                rule="exhaustive grid: every parameter (regenerated from zstd.h) x {lo-1,lo,lo+1,0,default,hi-1,hi,hi+1,INT_MIN,INT_MAX,1,2,5,-1} x "
                     "{fresh, mid-frame, after error, after each reset kind} x {CCtx, CCtx_params, DCtx} + random op sequences; a case is distinct by its op list; "
                     "every op's full parameter read-back is compared with the Lean model and checked by a model-independent monitor",
                samples=[dict(case=cases[i][0], ops=cases[i][1], impl=c[spans[i][0]:spans[i][1]][-1][:160]) for i in (0, len(cases) // 2, len(cases) - 1)],
                case_kinds=tags, distinct_set_ops=len(sets), exhaustive=True, model_impl_disagreements=len(bad))


def search_failing_input(ctx, broken, log):
    """a Props/C16 obligation broke (e.g. all_rows_wf): look for a concrete parameter/value that violates the
    property on the real code, using the monitor on the grid."""
    exe = harness()
    cases = [cs for cs in gen_cases(ctx) if cs[0].startswith("grid")]
    lines, spans, c, m, bad = run_cases(ctx, exe, cases)
    for ci, (tag, ls) in enumerate(cases):
        a, b = spans[ci]
        msg = monitor(ctx, ls, c[a:b])
        if msg:
            return dict(desc=msg, ops=ls, impl=c[a:b])
    return None


def replay(ctx, data):
    exe = harness()
    ops = data.get("ops") or (data.get("witness") or {}).get("ops")
    if not ops:
        return dict(violates=False, note="no ops in replay file (broken proof obligation without concrete input)", broken=data.get("broken"))
    c, m, crc, cerr = zv.differential(exe, "params", ops)
    msg = monitor(ctx, ops, c)
    return dict(violates=bool(msg) or c != m, monitor=msg, impl=c, model=m)
