"""C07 — compressed output is a pure function of input, parameters, dictionary and calls.  Paired executions, byte-compared:
fresh heap context vs {context with a random prior history incl. failed / aborted operations and resets; context whose match tables
were overwritten with in-window garbage before the reset; caller-provided (static) memory; misaligned source / destination buffers;
tiny random output capacities; 2..4 workers vs 1 worker (also under perturbed timing through different chunkings)}."""
import build, zv, frames

ASSUMPTIONS = ["'for all prior histories' is established for the explored histories only; the mechanism (stale indices fall below the new lowLimit, job cuts depend on byte counts only) is what Props/C07.lean proves",
               "worker scheduling is the OS's: sampled; single-thread vs multithread outputs are not expected to be equal, only w>=1 among themselves"]


def hx():
    return build.link("zvh_window", ["zvh_window.c"], "plain", exclude=("zstd_compress.c",))


def correspondence(ctx):
    rng = ctx.rng
    exe = hx()
    lines = []
    n = 800 if ctx.quick() else 12000
    for i in range(n):
        variant = ["hist", "poison", "static", "align", "outcap", "histnr", "poison", "outcapE", "histso", "hist", "static", "histso", "outcap", "histnr", "poison", "outcapE"][i % 16]
        p = frames.param_vector(rng, True, allow_fmt=False)
        p.pop(400, None)
        size = rng.choice([1000, 40000, 150000, 300000, 700000])
        if variant == "poison" and rng.random() < 0.6:
            p = {100: rng.choice([13, 16, 17, 19]), 105: 3}        # 3-byte hash table in play (btlazy2 / opt parsers)
            size = rng.choice([100000, 200000])
        dsz = rng.choice([0, 0, 0, 2000, 65536]) if variant in ("hist", "histnr", "poison") else 0
        if variant == "poison" and dsz:
            p[1001] = rng.choice([0, 2])      # default / force-copy of the CDict tables
        ins = ",".join(str(rng.choice([1000, 40000, 131072, 200000, 1000000])) for _ in range(rng.randint(1, 3)))
        if variant.startswith("outcap") and rng.random() < 0.7:
            ins = ",".join(str(rng.choice([1, 700, 5000, 65536, 131072])) for _ in range(rng.randint(1, 3)))       # input in several calls: no one-shot shortcut
        dirs = "".join(rng.choice("cccfe") for _ in range(rng.randint(1, 4)))
        if variant == "outcap" and i % 16 == 12:
            # worker threads: job cuts (incl. rsyncable cut points) may not depend on how much output room each call offers
            p = {100: rng.choice([1, 3]), 400: rng.choice([1, 2, 3]), 401: 524288, 500: rng.choice([0, 1, 1])}
            if rng.random() < 0.5: p[402] = rng.randint(0, 9)
            size = rng.choice([5000000, 12000000, 24000000])
            ins = rng.choice(["65536", "65536", "1000000", "300000,70000"])
        lines.append("det %s %s %d %d %s %s %d %d" % (variant, frames.pstr(p), size, rng.randrange(1 << 30), ins, dirs, dsz, rng.randrange(1 << 30)))
    # worker-count independence (LDM on and off), jobs smaller than the input
    for i in range(14 if ctx.quick() else 200):
        p = {100: rng.choice([1, 3, 5]), 401: rng.choice([524288, 1048576, 2097152]), 402: rng.randint(0, 9)}
        if i % 2 == 0:
            p[160] = 1; p[101] = rng.choice([20, 21, 22]); p[164] = rng.choice([4, 7, 9])
        size = rng.choice([12000000, 24000000, 48000000])
        w = rng.choice([2, 3, 4, 6])
        lines.append("det w%d %s %d %d %s c 0 %d" % (w, frames.pstr(p), size, rng.randrange(1 << 30), rng.choice(["1000000", "3000000,500000", "65536"]), rng.randrange(1 << 30)))
    def run(chunk):
        rc, out, err = frames.run_lines(exe, chunk, timeout=3000)
        if rc != 0 or len(out) != len(chunk):
            bad = chunk[min(len(out), len(chunk) - 1)]
            ctx.violation("library crashed in a determinism scenario (exit %d): %s" % (rc, bad[:150]), dict(kind="monitor", op=bad, stderr=err[-1500:]))
            out = out + ["skip crashed"] * (len(chunk) - len(out))
        return out
    res = frames.parallel(run, frames.split_chunks(lines, 16))
    kinds, skipped = {}, 0
    if len(res) != len(lines):
        ctx.violation("determinism harness crashed / lost output lines (%d of %d)" % (len(res), len(lines)), dict(kind="monitor"), no_input=True)
    for ln, r in zip(lines, res):
        v = ln.split()[1]
        kinds[v] = kinds.get(v, 0) + 1
        if r.startswith("same"):
            continue
        if r.startswith("skip"):
            skipped += 1; continue
        if r.startswith("err") and ("parameter" in r.lower() or "Unsupported" in r):
            skipped += 1; continue
        w = ln.split()
        key = None
        if v == "outcapE" and r.startswith("DIFF"):
            key = "C07-end-with-input-shortcut-depends-on-output-capacity"      # input delivered together with ZSTD_e_end
        ctx.violation("output depends on more than (input, parameters, dictionary, calls): variant '%s' -> %s" % (v, r), dict(kind="monitor", op=ln, result=r), key=key)
        if len(ctx.violations) >= 6:
            break
    return dict(evaluations=len(lines), distinct_nontrivial=len(set(lines)),
                rule="pairs (fresh heap context, roomy output) vs variant, same input cut at the same places with the same directives: prior histories (1-4 random frames incl. too-small-destination failures and aborted streams, "
                     "other parameters / dictionaries, then reset), poisoned match tables (hash / chain / 3-byte hash filled with random in-window indices before the reset), static context of exactly the estimated size, "
                     "source / destination misaligned by 1..63 bytes, random 1..4000-byte output capacities, 2-6 workers vs 1 worker with and without long-distance matching; distinct = distinct op lines",
                samples=[dict(op=lines[0], result=res[0])], variants=kinds, skipped=skipped)


def replay(ctx, data):
    rc, out, err = frames.run_lines(hx(), [data["op"]], timeout=3000)
    return dict(violates=not (out and out[0].startswith(("same", "skip"))), result=out)
