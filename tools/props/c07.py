"""C07 — compressed output is a pure function of input, parameters, dictionary and calls.  Paired executions, byte-compared:
fresh heap context vs {context with a random prior history incl. failed / aborted operations and resets; context whose match tables
were overwritten with in-window garbage before the reset; caller-provided (static) memory; misaligned source / destination buffers;
tiny random output capacities; 2..4 workers vs 1 worker (also under perturbed timing through different chunkings)}.
Two directed families through harness/zvh_det.c (op px): frames compressed WITH A DICTIONARY (every supply mode x attach / copy / load x fast levels
x sizes around the cut-offs) on contexts whose history keeps the table indices running, and OPTIMAL-PARSER levels on short-match-dense inputs over
contexts whose memory held different bytes before (pre-filled static buffers, filling malloc, overwritten scratch tables, deeper prior frames).
copy_ctx_lines: the same through ZSTD_copyCCtx (frame begun on a prepared context, finished on a copy whose destination - and source - have a history).
Three more directed families: BUFFER PLACEMENT (harness/zvh_place.c: dictionary / prefix and input, or the segments of a buffer-less frame, laid out in one
arena adjacent-after / adjacent-before / one byte apart / far / on dead memory - never overlapping live history, same contiguity pattern), END WITH A LARGE
INPUT AFTER THE INTERNAL BUFFER WAS DRAINED (flush or exactly filled blocks, then >= 1 block with ZSTD_e_end: roomy vs piecewise output; the recorded
known finding only covers an EMPTY internal buffer), and the same histories through the Lean model of the streaming buffer machine (tools/ent_cstream.py)."""
import build, zv, frames

ASSUMPTIONS = ["'for all prior histories' is established for the explored histories only; the mechanism (stale indices fall below the new lowLimit, job cuts depend on byte counts only) is what Props/C07.lean proves",
               "worker scheduling is the OS's: sampled; single-thread vs multithread outputs are not expected to be equal, only w>=1 among themselves"]


def hx():
    return build.link("zvh_window", ["zvh_window.c"], "plain", exclude=("zstd_compress.c",))


def hx2():
    return build.link("zvh_det", ["zvh_det.c"], "plain", exclude=("zstd_compress.c",))


# source / dictionary sizes on both sides of the cut-offs that select how a CDict reaches the working context:
# attach (source <= 8 KB fast / 16 KB dfast / 32 KB others, or size unknown), copy of the CDict's tables (above), reload of the dictionary
# content into the context's own tables (source >= 128 KB and >= 6 x dictionary content, or ZSTD_dictForceLoad)
DICT_CUTS = [(8192, 3000), (8193, 3000), (16384, 2000), (16385, 5000), (32768, 4000), (32769, 4000), (100000, 8000), (131071, 2000), (131072, 21845),
             (131072, 21846), (131073, 1000), (140000, 20000), (140000, 40000), (200000, 33333), (200000, 33334), (300000, 32768), (327680, 32768), (400000, 60000)]
# what the variant context did before the compared frame (letters: harness/zvh_det.c); 'a' / 'b' / 'g' leave the workspace size unchanged, so the
# table indices continue and the tables keep the previous frames' entries; 'T' / 'O' overwrite tables / optimal-parser scratch between frames
DICT_HISTS = ["aR", "aP", "bR", "gR", "aTR", "aaR", "hR", "gbP", "afR", "asR", "daR", "caP", "arTR", "baR"]
OPT_CTX = [("s7f/s00", "-"), ("s7f/sff", "-"), ("s00/s7f", "-"), ("p7f/p00", "-"), ("p7f/pff", "-"), ("p7f/p80", "-"), ("h/p7f", "-"), ("p7f/h", "-"), ("pa5/p01", "-"),
           ("p7f/h", "aR"), ("p7f/h", "gR"), ("p7f/h", "aOR"), ("p7f/s00", "aR"), ("s7f/sff", "aR"), ("p7f/p7f", "aR"), ("p7f/p7f", "gR"), ("p7f/p7f", "gOP"), ("h", "aaR"), ("h", "gOR"),
           ("h", "aP"), ("p7f/p7f", "afR"), ("p7f/p7f", "asR"), ("s7f/s7f", "gOR"), ("p00/p00", "aOR")]


def dict_history_lines(rng, quick):
    """family 1: the frame compressed with a dictionary may not depend on what the context compressed before — every way of supplying the
    dictionary x attach / copy / load preference x the fast strategies (where the dictionary is indexed sparsely into the context's own tables)
    x sizes around the cut-offs x histories that keep the table indices running."""
    out = []
    k = 0
    for rnd_ in range(2 if quick else 12):
        for sup in "cClLxuUdiB":
            for lv in (1, 2, 3, 4):
                for att in (0, 1, 2, 3):
                    if sup in "uUdB" and att != (lv + rnd_) % 4:
                        continue                      # the simple API has no attach preference: one line per level and round
                    k += 1
                    n, d = DICT_CUTS[(k * 7 + rnd_ * 5) % len(DICT_CUTS)]
                    if k % 3 == 0:
                        n, d = rng.choice([(300000, 32768), (140000, 2000), (140000, 20000), (262144, 43690), (1000000, 110000)])     # reload route (by size) more often
                    hist = DICT_HISTS[(k * 5 + rnd_) % len(DICT_HISTS)]
                    api = "2pke"[(k + rnd_) % 4]
                    p = {100: lv}
                    if sup in "uUdB":
                        api = "-"
                        if k % 2: hist = hist[:-1] or "a"              # these entry points reset the session themselves: also without any reset call
                    else:
                        p[1001] = att
                    ctxk = "h"
                    if k % 5 == 0: ctxk = rng.choice(["pa5", "pff", "p00/p7f"])
                    if k % 7 == 0 and sup not in "lL" and "c" not in hist and "d" not in hist: ctxk = rng.choice(["s7f", "sff", "s00/sff"])
                    if k % 11 == 0 and sup in "clLCx" and ctxk[0] != "s" and "s" not in ctxk: p[400] = 1 + k % 2           # worker contexts are pooled and reused as well
                    if rng.random() < 0.2: p[201] = 1
                    dk = "z" if k % 4 == 1 else "r"
                    out.append("px %s %s %s %s %s %d:%s df:%d %d %d" % (ctxk, hist, sup, api, frames.pstr(p), d, dk, n, rng.choice([4096, 30000, 65536, 131072]), rng.randrange(1 << 30)))
    # the same with every other level / explicit strategies (row-based finders, dedicated dictionary search, binary trees)
    for i in range(70 if quick else 1500):
        sup = "cClLxuUdiB"[i % 10]
        p = {100: rng.choice([-5, -1, 5, 6, 7, 8, 9, 10, 12, 13, 15, 16, 17, 19])}
        if sup not in "uUdB":
            p[1001] = i % 4
            if rng.random() < 0.4: p[107] = rng.randint(1, 9)
            if rng.random() < 0.2: p[1005] = 1
            if rng.random() < 0.2: p[1011] = rng.randint(1, 2)
        n, d = rng.choice(DICT_CUTS)
        if p[100] >= 15 and n > 140000: n, d = 140000, 20000
        hist = rng.choice(DICT_HISTS)
        ctxk = "h"
        if i % 6 == 0 and sup not in "lL" and "c" not in hist and "d" not in hist: ctxk = rng.choice(["s7f", "sff"]); p[1004] = n
        out.append("px %s %s %s %s %s %d:%s %s:%d %d %d" % (ctxk, hist, sup, "-" if sup in "uUdB" else rng.choice("2pke"), frames.pstr(p), d, rng.choice("rrz"), rng.choice(["df", "df", "mix"]), n,
                                                          rng.choice([4096, 30000, 65536]), rng.randrange(1 << 30)))
    return out


def copy_ctx_lines(rng, quick):
    """family 1b: a frame started on one context, duplicated with ZSTD_copyCCtx into another and finished there (supply K: ZSTD_compressBegin_usingDict, size unknown;
    J: ZSTD_compressBegin_advanced with the parameters of (level, size, dictionary size)) may depend neither on what the DESTINATION of the copy compressed before nor on
    what the prepared context did before: every structure the rest of the frame searches (hash / chain / 3-byte tables, and for the row-based finder of
    greedy / lazy / lazy2 - levels 5..12 once the window exceeds 2^14 - the tag table and the salt of its hashes) has to come over with the copy.
    Levels of every strategy, dictionaries from 2 KB to 110 KB, inputs made of dictionary fragments, histories of the destination that end without any reset
    call (ZSTD_copyCCtx resets the destination itself), with a reset, with overwritten tables."""
    out = []
    hists = ["c", "a", "b", "cc", "ca", "da", "gb", "aT", "cf", "cs", "cR", "aP", "h", "dcT"]
    lvls = [5, 6, 7, 8, 9, 10, 11, 12, 5, 8, 6, 7, 1, 3, 4, 13, 16, 19, -1, 2]
    for i in range(44 if quick else 900):
        lv = lvls[i % len(lvls)]
        sup = "KKJ"[i % 3]
        n, d = rng.choice([(300000, 100000), (140000, 20000), (20000, 2000), (60000, 32768), (600000, 110000), (131072, 21846), (16385, 5000), (250000, 60000)])
        if lv >= 16 and n > 140000: n, d = 140000, 20000
        ctxk = "h" if i % 4 else rng.choice(["pa5", "pff", "p00/p7f", "p7f/h"])
        hist = hists[(i // 2) % len(hists)]
        out.append("px %s %s %s - %s %d:%s %s:%d %d %d" % (ctxk, hist, sup, frames.pstr({100: lv}), d, rng.choice("rrrz"), rng.choice(["df", "df", "df", "mix"]), n, 65536, rng.randrange(1 << 30)))
    return out


def opt_memory_lines(rng, quick):
    """family 2: at the optimal-parser levels the frame may depend neither on what the context's memory held before (static contexts over
    pre-filled buffers, heap contexts whose malloc returns filled blocks, scratch tables overwritten between frames) nor on the frames before.
    Inputs dense in short matches separated by one or two literals (tables of small records, small-alphabet repeats) make the parser weigh
    'match + one literal' alternatives at the far end of its price table in almost every series."""
    out = []
    lvls = [16, 17, 18, 19, 20, 21, 22, 18, 19, 13]
    for i in range(168 if quick else 3000):
        ctxk, hist = OPT_CTX[i % len(OPT_CTX)]
        gen = ["sm", "rec", "sm", "rec", "sm", "rec", "mix"][(i // len(OPT_CTX) + i) % 7]
        n = [16384, 32768, 65536, 8192, 150000, 4096, 40000][(i // 3) % 7]
        p = {100: lvls[i % len(lvls)]}
        if i % 8 == 3: p = {100: rng.choice([5, 13, 19]), 107: rng.choice([7, 8, 8, 9, 9]), 105: rng.choice([3, 4]), 101: rng.choice([17, 18, 20])}     # explicit btopt / btultra / btultra2
        if i % 16 == 7: p[106] = rng.choice([16, 48, 999])
        api = "2" if i % 4 else "kpe"[(i // 4) % 3]
        if api != "2" or "s" in ctxk: p[1004] = n              # size hint: keeps the estimated / allocated workspaces small at the high levels
        sup, d = "n", 0
        if i % 12 == 5: sup, d = rng.choice(["x", "c", "C"]), rng.choice([1500, 20000])
        out.append("px %s %s %s %s %s %d:r %s:%d %d %d" % (ctxk, hist, sup, api, frames.pstr(p), d, gen, n, rng.choice([5000, 32768, 131072]), rng.randrange(1 << 30)))
    return out


def hx3():
    return build.link("zvh_place", ["zvh_place.c"], "plain")


def hx4():
    return build.link("zvh_endroom", ["zvh_endroom.c"], "plain", exclude=("zstd_compress.c",))


def cbound(n):
    return n + (n >> 8) + (((131072 - n) >> 11) if n < 131072 else 0)


def drained_end_lines(rng, quick):
    """family 3 (harness/zvh_endroom.c, op er; directed): the internal input buffer holds already-compressed data only (a flush, or input that filled whole blocks
    exactly), then the rest of the input - at least one block, at least 8 KB - arrives together with ZSTD_e_end; roomy output vs 1..4000-byte pieces.
    Nothing is pending and the buffer is not empty: the emitted bytes may not depend on the room (the known finding is about an EMPTY buffer)."""
    out = []
    lvls = [1, 3, 5, 2, 7, 4, 9, 6, 13, 1, 16, 3]
    for i in range(24 if quick else 240):
        lv = lvls[i % len(lvls)]
        p = {100: lv}
        shape = i % 4
        if shape == 0:                       # default block size, flushed partial block
            blk = 131072; a = rng.choice([1, 700, 20000, 100000]); b = rng.choice([131072, 200000, 262144 + 5]); dirs = "fe"
        elif shape == 1:                     # small blocks (maxBlockSize), flushed partial block
            blk = rng.choice([4096, 8192, 16384]); p[1015] = blk; a = rng.randrange(1, blk); b = blk * rng.choice([2, 3, 5]) + rng.choice([0, 1, 1808]); dirs = "fe"
        elif shape == 2:                     # small window: block = window, whole blocks filled by continue calls
            wl = rng.choice([13, 14, 15]); blk = 1 << wl; p[101] = wl; a = blk; b = blk * rng.choice([1, 2, 3]) + rng.choice([0, 100]); dirs = "ce"
        else:                                # small blocks, whole blocks filled by continue calls
            blk = rng.choice([8192, 16384, 65536]); p[1015] = blk; a = blk * rng.choice([1, 2]); b = blk * rng.choice([1, 2, 4]) + rng.choice([0, 33]); dirs = "ce"
        if lv >= 13: b = min(b, 150000)
        if i % 5 == 0: p[201] = 1
        out.append("er %s %d %d %d,%d %s %d" % (frames.pstr(p), a + b, rng.randrange(1 << 30), a, b, dirs, rng.randrange(1 << 30)))
    # undirected histories of the same kind (several input calls, the last bytes travel with e_end): here the harness can tell the documented shortcut from anything else
    for i in range(40 if quick else 600):
        p = {100: rng.choice([1, 2, 3, 4, 5, 6, 7, 9])}
        if rng.random() < 0.5: p[101] = rng.choice([12, 14, 16, 17, 18])
        if rng.random() < 0.3: p[1015] = rng.choice([1024, 4096, 65536])
        if rng.random() < 0.2: p[201] = 1
        n = rng.choice([1000, 40000, 150000, 300000])
        ins = ",".join(str(rng.choice([1, 700, 5000, 16384, 65536, 131072, 200000])) for _ in range(rng.randint(1, 3)))
        out.append("er %s %d %d %s %s %d" % (frames.pstr(p), n, rng.randrange(1 << 30), ins, "".join(rng.choice("cccfe") for _ in range(rng.randint(1, 4))), rng.randrange(1 << 30)))
    return out


def drained_end_model_ops(rng, quick):
    """the same histories (and the room of the final call at / around ZSTD_compressBound(final input)) through the differential tie with the Lean model of
    ZSTD_compressStream_generic (Model/CStream.lean: direct compression into dst only when the internal buffer is empty): chunk by chunk, call by call"""
    ops = []
    lvls = [1, 3, 5, 7, 9, 13, 16, 2, 4]
    for i in range(36 if quick else 400):
        wl = [12, 13, 14, 15, 16, 17][i % 6]
        p = {100: lvls[i % len(lvls)], 101: wl}
        if i % 3 == 1: p[1015] = [1024, 4096, 65536][(i // 3) % 3]
        if i % 7 == 3: p[201] = 1
        if i % 11 == 5: p[9000] = 1
        blk = min(1 << wl, p.get(1015, 131072), 131072)
        if i % 2 == 0:
            a = rng.randrange(1, blk); d = rng.choice(["fE", "fE", "cfE"]) if blk > 1 else "fE"
            ins = [a] if d == "fE" else [a // 2 + 1, a - a // 2 - 1 or 1]
        else:
            a = blk * rng.choice([1, 1, 2]); d = rng.choice(["CE", "cE"]); ins = [a]
        b = blk * rng.choice([1, 2, 3]) + rng.choice([0, 1, 777])
        if p[100] >= 13: b = min(b, 100000)
        n = sum(ins) + b
        room = [n + n // 128 + 4096, cbound(b), cbound(b) - 1, cbound(b) + 1, 700][(i // 2) % 5]
        outs = [n + n // 128 + 4096] * len(ins) + [room]
        ops.append("cs %s %d %d %s %s %s" % (frames.pstr(p), n, rng.randrange(1 << 30), ",".join(map(str, ins + [b])), ",".join(map(str, outs)), d))
    return ops


PLACE_COMBOS = [("x", "2"), ("x", "e"), ("x", "s"), ("x", "2"), ("L", "2"), ("R", "2"), ("x", "k"), ("L", "e"), ("R", "e"), ("b", "-"), ("x", "2"), ("a", "-"), ("L", "s")]
PLACE_LEVELS = [1, 2, 3, 4, 5, 6, 7, 9, 12, 13, 16, 19]


def placement_lines(rng, quick):
    """family 4: where the caller's buffers lie.  pd: (dictionary | prefix, input) in one arena - input exactly after / exactly before / one byte away from /
    far from the dictionary, every way of handing over a dictionary whose CONTENT STAYS IN THE CALLER'S BUFFER (prefix, by-reference dictionary, by-reference
    CDict, compressBegin_usingDict, compress_usingDict), every strategy class; the adjacent-after placement is compared when contiguity was switched off
    (ZSTD_c_deterministicRefPrefix) and the content is loaded from the caller's buffer.  ps: buffer-less frames (compressBegin / Continue / End) whose
    non-contiguous segments go to different places of the arena, incl. exactly at the end / start of memory that is no longer part of the history."""
    out = []
    dsizes = [8, 12, 100, 1000, 4096, 30000, 100000]
    nsizes = [500, 5000, 20000, 60000, 140000, 200000]
    for k in range(78 if quick else 780):
        sup, api = PLACE_COMBOS[k % len(PLACE_COMBOS)]
        lv = PLACE_LEVELS[k % len(PLACE_LEVELS)] if k % 17 else -1
        p = {100: lv}
        if k % 6 != 5: p[1012] = 1
        if sup in "LR": p[1001] = 3 if k % 5 else [0, 1, 2][(k // 5) % 3]
        if k % 9 == 4: p[201] = 1
        if k % 10 == 7 and lv < 13: p[160] = 1
        dn = dsizes[(k * 5 + 1) % 7]; n = nsizes[(k * 3 + k // 6) % 6]
        if lv >= 13: n = min(n, 20000 if lv >= 16 else 60000)
        out.append("pd %s %s %s %d %d %d" % (sup, api, frames.pstr(p), dn, n, rng.randrange(1 << 30)))
    # the recorded design dependence (known finding C07-input-exactly-behind-by-reference-dictionary): the adjacent-after placement forced into the comparison
    out += ["pd L 2 100=3,1012=1,1001=2,9999=1 30000 160000 9", "pd R 2 100=3,1012=1,1001=2,9999=1 30000 160000 10", "pd a - 100=3,9999=1 30000 300000 9"]
    lens = [1, 7, 100, 1000, 5000, 20000, 50000, 131077]
    for k in range(30 if quick else 300):
        lv = PLACE_LEVELS[(k * 5) % len(PLACE_LEVELS)] if k % 13 else -3
        ns = 3 + k % 6
        ls = [lens[(k + 3 * j + rng.randrange(3)) % len(lens)] for j in range(ns)]
        if lv >= 13: ls = [min(x, 20000) for x in ls]
        pat = "".join("n" if (j == k % (ns - 1) or rng.random() < 0.7) else "c" for j in range(ns - 1))
        out.append("ps %d %d %s %s %d" % (lv, [0, 17, 0, 14, 0, 20][k % 6], pat, ",".join(map(str, ls)), rng.randrange(1 << 30)))
    return out


def window_update_ops(rng, quick):
    """function level: ZSTD_window_update against Model/WindowUpdate.lean on sequences of segments placed contiguously (with and without the forced split),
    far away, exactly before / exactly behind the current run or the external dictionary, one byte off, overlapping them from either side (ring reuse), tiny and
    empty - the limits and the contiguity answer after every segment"""
    ops = []
    for i in range(400 if quick else 6000):
        b0 = (1 << 32) + rng.randrange(1 << 20)
        c0 = c1 = b0 + 2; p0 = p1 = b0
        segs = []
        for j in range(rng.randint(1, 9)):
            n = rng.choice([0, 1, 7, 8, 9, 100, 1000, 65536, 131072, rng.randrange(1, 300000)])
            kind = rng.randrange(14)
            force = 1 if rng.random() < 0.3 else 0
            if kind < 3: ip = c1
            elif kind == 3: ip = c1; force = 1
            elif kind == 4: ip = c1 + rng.choice([1, 7, 8])
            elif kind == 5: ip = c0 - n
            elif kind == 6: ip = c0 - n - rng.choice([1, 8])
            elif kind == 7: ip = c0 + rng.randrange(0, max(1, c1 - c0))              # over the current run
            elif kind == 8: ip = p1                                                   # exactly behind the older run
            elif kind == 9: ip = p0 - n                                               # exactly before it
            elif kind == 10: ip = p0 + rng.randrange(-n, max(1, p1 - p0) + 1) if n else p0   # overlapping it from either side
            elif kind == 11: ip = p1 - rng.choice([1, 7, 8, 9])
            elif kind == 12: ip = c1 - rng.choice([1, 8, 100])
            else: ip = (1 << 32) + rng.randrange(1 << 31)
            ip = max(ip, 1 << 31)
            segs.append("%d:%d:%d" % (ip, n, force))
            if n:
                if ip != c1 or force: p0, p1, c0, c1 = c0, c1, ip, ip + n
                else: c1 += n
        ops.append("wupd %d %s" % (b0, ",".join(segs)))
    return ops


def correspondence(ctx):
    rng = ctx.rng
    exe = hx()
    lines = []
    n = 800 if ctx.quick() else 12000
    for i in range(n):
        variant = ["hist", "poison", "static", "align", "outcap", "histnr", "poison", "outcapE", "histso", "hist", "static", "histso", "outcap", "histnr", "poison", "outcapE"][i % 16]
        p = frames.param_vector(rng, True, allow_fmt=False)
        p.pop(400, None)
        size = rng.choice([1000, 40000, 150000, 300000, 700000])
        if variant == "poison" and rng.random() < 0.6:
            p = {100: rng.choice([13, 16, 17, 19]), 105: 3}        # 3-byte hash table in play (btlazy2 / opt parsers)
            size = rng.choice([100000, 200000])
        dsz = rng.choice([0, 0, 0, 2000, 65536]) if variant in ("hist", "histnr", "poison") else 0
        if variant == "poison" and dsz:
            p[1001] = rng.choice([0, 2])      # default / force-copy of the CDict tables
        ins = ",".join(str(rng.choice([1000, 40000, 131072, 200000, 1000000])) for _ in range(rng.randint(1, 3)))
        if variant.startswith("outcap") and rng.random() < 0.7:
            ins = ",".join(str(rng.choice([1, 700, 5000, 65536, 131072])) for _ in range(rng.randint(1, 3)))       # input in several calls: no one-shot shortcut
        dirs = "".join(rng.choice("cccfe") for _ in range(rng.randint(1, 4)))
        if variant == "outcap" and i % 16 == 12:
            # worker threads: job cuts (incl. rsyncable cut points) may not depend on how much output room each call offers
            p = {100: rng.choice([1, 3]), 400: rng.choice([1, 2, 3]), 401: 524288, 500: rng.choice([0, 1, 1])}
            if rng.random() < 0.5: p[402] = rng.randint(0, 9)
            size = rng.choice([5000000, 12000000, 24000000])
            ins = rng.choice(["65536", "65536", "1000000", "300000,70000"])
        lines.append("det %s %s %d %d %s %s %d %d" % (variant, frames.pstr(p), size, rng.randrange(1 << 30), ins, dirs, dsz, rng.randrange(1 << 30)))
    # worker-count independence (LDM on and off), jobs smaller than the input
    for i in range(14 if ctx.quick() else 200):
        p = {100: rng.choice([1, 3, 5]), 401: rng.choice([524288, 1048576, 2097152]), 402: rng.randint(0, 9)}
        if i % 2 == 0:
            p[160] = 1; p[101] = rng.choice([20, 21, 22]); p[164] = rng.choice([4, 7, 9])
        size = rng.choice([12000000, 24000000, 48000000])
        w = rng.choice([2, 3, 4, 6])
        lines.append("det w%d %s %d %d %s c 0 %d" % (w, frames.pstr(p), size, rng.randrange(1 << 30), rng.choice(["1000000", "3000000,500000", "65536"]), rng.randrange(1 << 30)))
    # directed: long-distance matching over a block-periodic input several round-buffer laps long, jobs of 1-2 MiB with jobSize * workers on
    # both sides of the window size: the matcher's window is segmented where the round input buffer wraps, and that place moves with the worker count
    for i in range(10 if ctx.quick() else 60):
        if i % 2 == 0:
            p = {100: 1, 160: 1, 101: 22, 401: 2097152, 164: 9}; w = rng.choice([4, 6]); size = 64000000
        else:
            wl = rng.choice([22, 21, 20])
            p = {100: rng.choice([1, 1, 3]), 160: 1, 101: wl, 401: rng.choice([2097152, 1048576]), 164: rng.choice([9, 8, 7]), 402: rng.choice([0, 3, 6, 9])}
            w = rng.choice([3, 4, 6]); size = rng.choice([64000000, 48000000])
        lines.append("det w%d %s %d %d %s c 0 %d" % (w, frames.pstr(p), size, rng.randrange(1 << 29) * 2 + 1, rng.choice(["1000000", "3000000,500000"]), rng.randrange(1 << 30)))
    import random
    rng2 = random.Random(ctx.seed * 7919 + 7)          # the added families draw from their own stream: the families above see the same sequence as before
    n_det = len(lines)
    lines += dict_history_lines(rng, ctx.quick())
    n_dict = len(lines) - n_det
    lines += opt_memory_lines(rng, ctx.quick())
    lines += copy_ctx_lines(random.Random(ctx.seed * 104729 + 11), ctx.quick())        # own stream as well
    n_px = len(lines)
    lines += placement_lines(rng2, ctx.quick())
    n_pl = len(lines)
    lines += drained_end_lines(rng2, ctx.quick())
    exe2 = hx2()
    exe3 = hx3()
    exe4 = hx4()
    def run(chunk):
        if chunk and chunk[0].startswith("px "):
            rc, out, err = frames.run_lines(exe2, chunk, timeout=3000)
        elif chunk and chunk[0].startswith(("pd ", "ps ")):
            rc, out, err = frames.run_lines(exe3, chunk, timeout=3000)
        elif chunk and chunk[0].startswith("er "):
            rc, out, err = frames.run_lines(exe4, chunk, timeout=3000)
        else:
            rc, out, err = frames.run_lines(exe, chunk, timeout=3000)
        if rc != 0 or len(out) != len(chunk):
            bad = chunk[min(len(out), len(chunk) - 1)]
            ctx.violation("library crashed in a determinism scenario (exit %d): %s" % (rc, bad[:150]), dict(kind="monitor", op=bad, stderr=err[-1500:]))
            out = out + ["skip crashed"] * (len(chunk) - len(out))
        return out
    res = frames.parallel(run, frames.split_chunks(lines[:n_det], 16) + frames.split_chunks(lines[n_det:n_px], 16) + frames.split_chunks(lines[n_px:n_pl], 8) + frames.split_chunks(lines[n_pl:], 8))
    kinds, skipped = {}, 0
    if len(res) != len(lines):
        ctx.violation("determinism harness crashed / lost output lines (%d of %d)" % (len(res), len(lines)), dict(kind="monitor"), no_input=True)
    for ln, r in zip(lines, res):
        v = ln.split()[1]
        if ln.startswith("px "):
            w = ln.split()
            v = "px-copy" if w[3] in ("K", "J") else "px-opt" if w[7].split(":")[0] in ("sm", "rec") or (w[3] == "n") else "px-dict"
        elif ln.startswith(("pd ", "ps ")):
            v = "place-" + ln[:2]
        elif ln.startswith("er "):
            v = "endroom"
        kinds[v] = kinds.get(v, 0) + 1
        if r.startswith("same"):
            continue
        if r.startswith("skip"):
            skipped += 1; continue
        if r.startswith("err") and ("parameter" in r.lower() or "Unsupported" in r):
            skipped += 1; continue
        w = ln.split()
        key = None
        if v == "outcapE" and r.startswith("DIFF"):
            key = "C07-end-with-input-shortcut-depends-on-output-capacity"      # input delivered together with ZSTD_e_end
        if v == "place-pd" and "9999=1" in ln and r.startswith("DIFF placement A:"):
            # input lying exactly behind a dictionary handed over by reference is taken as a contiguous continuation of it (only this placement, only when forced
            # into the comparison: every other placement difference, and this one where contiguity is switched off and honoured, stays a violation)
            key = "C07-input-exactly-behind-by-reference-dictionary"
        if v == "endroom":
            # the known finding is the direct compression of the caller's input under e_end while the internal input buffer is EMPTY (d0); anything else is not covered by it
            if r.startswith("DIFF") and r.endswith("dn=0") and " d0=0 " not in r:
                key = "C07-end-with-input-shortcut-depends-on-output-capacity"
            ctx.violation("output depends on the room offered by the output buffers: %s -> %s" % (ln, r), dict(kind="monitor", op=ln, result=r), key=key)
        elif v.startswith("place-"):
            ctx.violation("output depends on where the caller's buffers lie: %s -> %s" % (ln, r), dict(kind="monitor", op=ln, result=r), key=key)
        elif ln.startswith("px "):
            ctx.violation("output depends on more than (input, parameters, dictionary, calls): context '%s' with history '%s', dictionary supply '%s', api '%s', parameters %s, dictionary %s, input %s -> %s"
                          % (w[1], w[2], w[3], w[4], w[5], w[6], w[7], r), dict(kind="monitor", op=ln, result=r), key=key)
        else:
            ctx.violation("output depends on more than (input, parameters, dictionary, calls): variant '%s' -> %s" % (v, r), dict(kind="monitor", op=ln, result=r), key=key)
        if len(ctx.violations) >= 6:
            break
    # the streaming buffer machine against its Lean model on the drained-buffer histories (which chunk is compressed from where, in which call)
    import ent_cstream
    cs_ops = drained_end_model_ops(rng2, ctx.quick())
    bad, cl, ml = ent_cstream.compare(cs_ops, chunks=8)
    for desc, data in bad[:4]:
        data = dict(data); data["tie"] = "cstream"
        ctx.violation(desc, data)
    lines = lines + cs_ops
    kinds["cstream-model"] = len(cs_ops)
    # ZSTD_window_update against its Lean model (the theorems of Props/C07.lean section 3 are about that model)
    wu = window_update_ops(rng2, ctx.quick())
    cw, mw, crc, cerr = zv.differential(exe, "windowupd", wu, timeout=600)
    nbad = 0
    for ln, a, b in zip(wu, cw + ["<missing>"] * len(wu), mw + ["<missing>"] * len(wu)):
        if a != b:
            k = zv.first_diff(a.split(), b.split())
            ctx.violation("ZSTD_window_update and its model disagree at segment %s of '%s': implementation %s, model %s (c<contiguous>/base/dictBase/nextSrc/lowLimit/dictLimit)"
                          % (k, ln, (a.split() + ["<end>"])[k or 0], (b.split() + ["<end>"])[k or 0]), dict(kind="tie", tie="windowupd", op=ln, impl=a, model=b))
            nbad += 1
            if nbad >= 3: break
    lines = lines + wu
    kinds["window-update-model"] = len(wu)
    return dict(evaluations=len(lines), distinct_nontrivial=len(set(lines)),
                rule="pairs (fresh heap context, roomy output) vs variant, same input cut at the same places with the same directives: prior histories (1-4 random frames incl. too-small-destination failures and aborted streams, "
                     "other parameters / dictionaries, then reset), poisoned match tables (hash / chain / 3-byte hash filled with random in-window indices before the reset), static context of exactly the estimated size, "
                     "source / destination misaligned by 1..63 bytes, random 1..4000-byte output capacities, 2-6 workers vs 1 worker with and without long-distance matching; "
                     "px-dict: frame with a dictionary (CDict by reference built with a level / with the context's parameters, loadDictionary by copy / by reference, prefix, usingCDict(+_advanced), usingDict, "
                     "initCStream_usingCDict, compressBegin_usingCDict_advanced) x attach / copy / load preference x levels 1-4 (and others) x one-shot / pledged / unknown-size / single-end-call x source and dictionary "
                     "sizes on both sides of the attach / copy / reload cut-offs, after histories that keep the table indices running (same-size frames with and without the dictionary, larger frames, failed and aborted "
                     "frames, tables overwritten, each reset kind or none), on heap, filled-malloc and static contexts; px-copy: frame begun on a prepared context (compressBegin_usingDict / compressBegin_advanced), ZSTD_copyCCtx into a context with a history "
                     "(and from a prepared context with a history), compressEnd there, levels of every strategy incl. the row-based finder 5-12; px-opt: optimal-parser levels 13-22 and explicit btopt / btultra / btultra2 on inputs dense in short "
                     "matches, pairs of static contexts over buffers pre-filled with 0x00 / 0x7F / 0xFF, heap contexts whose malloc fills blocks with 0x00 / 0x01 / 0x7F / 0x80 / 0xA5 / 0xFF, price / match / frequency tables "
                     "overwritten between frames, and prior frames that reached deeper into the price table; endroom: flush / exactly filled blocks, then >= 1 block of input with e_end (and undirected histories), roomy vs three "
                     "piecewise output schedules (a DIFF is the known finding only if every direct compression of the caller's input met an empty internal buffer); place-pd / place-ps: the same calls with the caller's buffers at 7 / 5 relative placements "
                     "in one arena; cstream-model: drained-buffer histories, C buffer machine vs Model/CStream.lean; window-update-model: segment sequences, ZSTD_window_update vs Model/WindowUpdate.lean; distinct = distinct op lines",
                samples=[dict(op=lines[0], result=res[0])], variants=kinds, skipped=skipped)


def replay(ctx, data):
    if data.get("tie") == "cstream":
        import ent_cstream
        return ent_cstream.replay(ctx, data)
    if data.get("tie") == "windowupd":
        cw, mw, crc, cerr = zv.differential(hx(), "windowupd", [data["op"]], timeout=600)
        return dict(violates=cw != mw, impl=cw, model=mw)
    op = data["op"]
    rc, out, err = frames.run_lines(hx2() if op.startswith("px ") else hx3() if op.startswith(("pd ", "ps ")) else hx4() if op.startswith("er ") else hx(), [op], timeout=3000)
    return dict(violates=not (out and out[0].startswith(("same", "skip"))), result=out)
