"""C07 — compressed output is a pure function of input, parameters, dictionary and calls.  Paired executions, byte-compared:
fresh heap context vs {context with a random prior history incl. failed / aborted operations and resets; context whose match tables
were overwritten with in-window garbage before the reset; caller-provided (static) memory; misaligned source / destination buffers;
tiny random output capacities; 2..4 workers vs 1 worker (also under perturbed timing through different chunkings)}.
Two directed families through harness/zvh_det.c (op px): frames compressed WITH A DICTIONARY (every supply mode x attach / copy / load x fast levels
x sizes around the cut-offs) on contexts whose history keeps the table indices running, and OPTIMAL-PARSER levels on short-match-dense inputs over
contexts whose memory held different bytes before (pre-filled static buffers, filling malloc, overwritten scratch tables, deeper prior frames)."""
import build, zv, frames

ASSUMPTIONS = ["'for all prior histories' is established for the explored histories only; the mechanism (stale indices fall below the new lowLimit, job cuts depend on byte counts only) is what Props/C07.lean proves",
               "worker scheduling is the OS's: sampled; single-thread vs multithread outputs are not expected to be equal, only w>=1 among themselves"]


def hx():
    return build.link("zvh_window", ["zvh_window.c"], "plain", exclude=("zstd_compress.c",))


def hx2():
    return build.link("zvh_det", ["zvh_det.c"], "plain", exclude=("zstd_compress.c",))


# source / dictionary sizes on both sides of the cut-offs that select how a CDict reaches the working context:
# attach (source <= 8 KB fast / 16 KB dfast / 32 KB others, or size unknown), copy of the CDict's tables (above), reload of the dictionary
# content into the context's own tables (source >= 128 KB and >= 6 x dictionary content, or ZSTD_dictForceLoad)
DICT_CUTS = [(8192, 3000), (8193, 3000), (16384, 2000), (16385, 5000), (32768, 4000), (32769, 4000), (100000, 8000), (131071, 2000), (131072, 21845),
             (131072, 21846), (131073, 1000), (140000, 20000), (140000, 40000), (200000, 33333), (200000, 33334), (300000, 32768), (327680, 32768), (400000, 60000)]
# what the variant context did before the compared frame (letters: harness/zvh_det.c); 'a' / 'b' / 'g' leave the workspace size unchanged, so the
# table indices continue and the tables keep the previous frames' entries; 'T' / 'O' overwrite tables / optimal-parser scratch between frames
DICT_HISTS = ["aR", "aP", "bR", "gR", "aTR", "aaR", "hR", "gbP", "afR", "asR", "daR", "caP", "arTR", "baR"]
OPT_CTX = [("s7f/s00", "-"), ("s7f/sff", "-"), ("s00/s7f", "-"), ("p7f/p00", "-"), ("p7f/pff", "-"), ("p7f/p80", "-"), ("h/p7f", "-"), ("p7f/h", "-"), ("pa5/p01", "-"),
           ("p7f/h", "aR"), ("p7f/h", "gR"), ("p7f/h", "aOR"), ("p7f/s00", "aR"), ("s7f/sff", "aR"), ("p7f/p7f", "aR"), ("p7f/p7f", "gR"), ("p7f/p7f", "gOP"), ("h", "aaR"), ("h", "gOR"),
           ("h", "aP"), ("p7f/p7f", "afR"), ("p7f/p7f", "asR"), ("s7f/s7f", "gOR"), ("p00/p00", "aOR")]


def dict_history_lines(rng, quick):
    """family 1: the frame compressed with a dictionary may not depend on what the context compressed before — every way of supplying the
    dictionary x attach / copy / load preference x the fast strategies (where the dictionary is indexed sparsely into the context's own tables)
    x sizes around the cut-offs x histories that keep the table indices running."""
    out = []
    k = 0
    for rnd_ in range(2 if quick else 12):
        for sup in "cClLxuUdiB":
            for lv in (1, 2, 3, 4):
                for att in (0, 1, 2, 3):
                    if sup in "uUdB" and att != (lv + rnd_) % 4:
                        continue                      # the simple API has no attach preference: one line per level and round
                    k += 1
                    n, d = DICT_CUTS[(k * 7 + rnd_ * 5) % len(DICT_CUTS)]
                    if k % 3 == 0:
                        n, d = rng.choice([(300000, 32768), (140000, 2000), (140000, 20000), (262144, 43690), (1000000, 110000)])     # reload route (by size) more often
                    hist = DICT_HISTS[(k * 5 + rnd_) % len(DICT_HISTS)]
                    api = "2pke"[(k + rnd_) % 4]
                    p = {100: lv}
                    if sup in "uUdB":
                        api = "-"
                        if k % 2: hist = hist[:-1] or "a"              # these entry points reset the session themselves: also without any reset call
                    else:
                        p[1001] = att
                    ctxk = "h"
                    if k % 5 == 0: ctxk = rng.choice(["pa5", "pff", "p00/p7f"])
                    if k % 7 == 0 and sup not in "lL" and "c" not in hist and "d" not in hist: ctxk = rng.choice(["s7f", "sff", "s00/sff"])
                    if k % 11 == 0 and sup in "clLCx" and ctxk[0] != "s" and "s" not in ctxk: p[400] = 1 + k % 2           # worker contexts are pooled and reused as well
                    if rng.random() < 0.2: p[201] = 1
                    dk = "z" if k % 4 == 1 else "r"
                    out.append("px %s %s %s %s %s %d:%s df:%d %d %d" % (ctxk, hist, sup, api, frames.pstr(p), d, dk, n, rng.choice([4096, 30000, 65536, 131072]), rng.randrange(1 << 30)))
    # the same with every other level / explicit strategies (row-based finders, dedicated dictionary search, binary trees)
    for i in range(70 if quick else 1500):
        sup = "cClLxuUdiB"[i % 10]
        p = {100: rng.choice([-5, -1, 5, 6, 7, 8, 9, 10, 12, 13, 15, 16, 17, 19])}
        if sup not in "uUdB":
            p[1001] = i % 4
            if rng.random() < 0.4: p[107] = rng.randint(1, 9)
            if rng.random() < 0.2: p[1005] = 1
            if rng.random() < 0.2: p[1011] = rng.randint(1, 2)
        n, d = rng.choice(DICT_CUTS)
        if p[100] >= 15 and n > 140000: n, d = 140000, 20000
        hist = rng.choice(DICT_HISTS)
        ctxk = "h"
        if i % 6 == 0 and sup not in "lL" and "c" not in hist and "d" not in hist: ctxk = rng.choice(["s7f", "sff"]); p[1004] = n
        out.append("px %s %s %s %s %s %d:%s %s:%d %d %d" % (ctxk, hist, sup, "-" if sup in "uUdB" else rng.choice("2pke"), frames.pstr(p), d, rng.choice("rrz"), rng.choice(["df", "df", "mix"]), n,
                                                          rng.choice([4096, 30000, 65536]), rng.randrange(1 << 30)))
    return out


def opt_memory_lines(rng, quick):
    """family 2: at the optimal-parser levels the frame may depend neither on what the context's memory held before (static contexts over
    pre-filled buffers, heap contexts whose malloc returns filled blocks, scratch tables overwritten between frames) nor on the frames before.
    Inputs dense in short matches separated by one or two literals (tables of small records, small-alphabet repeats) make the parser weigh
    'match + one literal' alternatives at the far end of its price table in almost every series."""
    out = []
    lvls = [16, 17, 18, 19, 20, 21, 22, 18, 19, 13]
    for i in range(168 if quick else 3000):
        ctxk, hist = OPT_CTX[i % len(OPT_CTX)]
        gen = ["sm", "rec", "sm", "rec", "sm", "rec", "mix"][(i // len(OPT_CTX) + i) % 7]
        n = [16384, 32768, 65536, 8192, 150000, 4096, 40000][(i // 3) % 7]
        p = {100: lvls[i % len(lvls)]}
        if i % 8 == 3: p = {100: rng.choice([5, 13, 19]), 107: rng.choice([7, 8, 8, 9, 9]), 105: rng.choice([3, 4]), 101: rng.choice([17, 18, 20])}     # explicit btopt / btultra / btultra2
        if i % 16 == 7: p[106] = rng.choice([16, 48, 999])
        api = "2" if i % 4 else "kpe"[(i // 4) % 3]
        if api != "2" or "s" in ctxk: p[1004] = n              # size hint: keeps the estimated / allocated workspaces small at the high levels
        sup, d = "n", 0
        if i % 12 == 5: sup, d = rng.choice(["x", "c", "C"]), rng.choice([1500, 20000])
        out.append("px %s %s %s %s %s %d:r %s:%d %d %d" % (ctxk, hist, sup, api, frames.pstr(p), d, gen, n, rng.choice([5000, 32768, 131072]), rng.randrange(1 << 30)))
    return out


def correspondence(ctx):
    rng = ctx.rng
    exe = hx()
    lines = []
    n = 800 if ctx.quick() else 12000
    for i in range(n):
        variant = ["hist", "poison", "static", "align", "outcap", "histnr", "poison", "outcapE", "histso", "hist", "static", "histso", "outcap", "histnr", "poison", "outcapE"][i % 16]
        p = frames.param_vector(rng, True, allow_fmt=False)
        p.pop(400, None)
        size = rng.choice([1000, 40000, 150000, 300000, 700000])
        if variant == "poison" and rng.random() < 0.6:
            p = {100: rng.choice([13, 16, 17, 19]), 105: 3}        # 3-byte hash table in play (btlazy2 / opt parsers)
            size = rng.choice([100000, 200000])
        dsz = rng.choice([0, 0, 0, 2000, 65536]) if variant in ("hist", "histnr", "poison") else 0
        if variant == "poison" and dsz:
            p[1001] = rng.choice([0, 2])      # default / force-copy of the CDict tables
        ins = ",".join(str(rng.choice([1000, 40000, 131072, 200000, 1000000])) for _ in range(rng.randint(1, 3)))
        if variant.startswith("outcap") and rng.random() < 0.7:
            ins = ",".join(str(rng.choice([1, 700, 5000, 65536, 131072])) for _ in range(rng.randint(1, 3)))       # input in several calls: no one-shot shortcut
        dirs = "".join(rng.choice("cccfe") for _ in range(rng.randint(1, 4)))
        if variant == "outcap" and i % 16 == 12:
            # worker threads: job cuts (incl. rsyncable cut points) may not depend on how much output room each call offers
            p = {100: rng.choice([1, 3]), 400: rng.choice([1, 2, 3]), 401: 524288, 500: rng.choice([0, 1, 1])}
            if rng.random() < 0.5: p[402] = rng.randint(0, 9)
            size = rng.choice([5000000, 12000000, 24000000])
            ins = rng.choice(["65536", "65536", "1000000", "300000,70000"])
        lines.append("det %s %s %d %d %s %s %d %d" % (variant, frames.pstr(p), size, rng.randrange(1 << 30), ins, dirs, dsz, rng.randrange(1 << 30)))
    # worker-count independence (LDM on and off), jobs smaller than the input
    for i in range(14 if ctx.quick() else 200):
        p = {100: rng.choice([1, 3, 5]), 401: rng.choice([524288, 1048576, 2097152]), 402: rng.randint(0, 9)}
        if i % 2 == 0:
            p[160] = 1; p[101] = rng.choice([20, 21, 22]); p[164] = rng.choice([4, 7, 9])
        size = rng.choice([12000000, 24000000, 48000000])
        w = rng.choice([2, 3, 4, 6])
        lines.append("det w%d %s %d %d %s c 0 %d" % (w, frames.pstr(p), size, rng.randrange(1 << 30), rng.choice(["1000000", "3000000,500000", "65536"]), rng.randrange(1 << 30)))
    # directed: long-distance matching over a block-periodic input several round-buffer laps long, jobs of 1-2 MiB with jobSize * workers on
    # both sides of the window size: the matcher's window is segmented where the round input buffer wraps, and that place moves with the worker count
    for i in range(10 if ctx.quick() else 60):
        if i % 2 == 0:
            p = {100: 1, 160: 1, 101: 22, 401: 2097152, 164: 9}; w = rng.choice([4, 6]); size = 64000000
        else:
            wl = rng.choice([22, 21, 20])
            p = {100: rng.choice([1, 1, 3]), 160: 1, 101: wl, 401: rng.choice([2097152, 1048576]), 164: rng.choice([9, 8, 7]), 402: rng.choice([0, 3, 6, 9])}
            w = rng.choice([3, 4, 6]); size = rng.choice([64000000, 48000000])
        lines.append("det w%d %s %d %d %s c 0 %d" % (w, frames.pstr(p), size, rng.randrange(1 << 29) * 2 + 1, rng.choice(["1000000", "3000000,500000"]), rng.randrange(1 << 30)))
    n_det = len(lines)
    lines += dict_history_lines(rng, ctx.quick())
    n_dict = len(lines) - n_det
    lines += opt_memory_lines(rng, ctx.quick())
    exe2 = hx2()
    def run(chunk):
        if chunk and chunk[0].startswith("px "):
            rc, out, err = frames.run_lines(exe2, chunk, timeout=3000)
        else:
            rc, out, err = frames.run_lines(exe, chunk, timeout=3000)
        if rc != 0 or len(out) != len(chunk):
            bad = chunk[min(len(out), len(chunk) - 1)]
            ctx.violation("library crashed in a determinism scenario (exit %d): %s" % (rc, bad[:150]), dict(kind="monitor", op=bad, stderr=err[-1500:]))
            out = out + ["skip crashed"] * (len(chunk) - len(out))
        return out
    res = frames.parallel(run, frames.split_chunks(lines[:n_det], 16) + frames.split_chunks(lines[n_det:], 16))
    kinds, skipped = {}, 0
    if len(res) != len(lines):
        ctx.violation("determinism harness crashed / lost output lines (%d of %d)" % (len(res), len(lines)), dict(kind="monitor"), no_input=True)
    for ln, r in zip(lines, res):
        v = ln.split()[1]
        if ln.startswith("px "):
            w = ln.split()
            v = "px-opt" if w[7].split(":")[0] in ("sm", "rec") or (w[3] == "n") else "px-dict"
        kinds[v] = kinds.get(v, 0) + 1
        if r.startswith("same"):
            continue
        if r.startswith("skip"):
            skipped += 1; continue
        if r.startswith("err") and ("parameter" in r.lower() or "Unsupported" in r):
            skipped += 1; continue
        w = ln.split()
        key = None
        if v == "outcapE" and r.startswith("DIFF"):
            key = "C07-end-with-input-shortcut-depends-on-output-capacity"      # input delivered together with ZSTD_e_end
        if ln.startswith("px "):
            ctx.violation("output depends on more than (input, parameters, dictionary, calls): context '%s' with history '%s', dictionary supply '%s', api '%s', parameters %s, dictionary %s, input %s -> %s"
                          % (w[1], w[2], w[3], w[4], w[5], w[6], w[7], r), dict(kind="monitor", op=ln, result=r), key=key)
        else:
            ctx.violation("output depends on more than (input, parameters, dictionary, calls): variant '%s' -> %s" % (v, r), dict(kind="monitor", op=ln, result=r), key=key)
        if len(ctx.violations) >= 6:
            break
    return dict(evaluations=len(lines), distinct_nontrivial=len(set(lines)),
                rule="pairs (fresh heap context, roomy output) vs variant, same input cut at the same places with the same directives: prior histories (1-4 random frames incl. too-small-destination failures and aborted streams, "
                     "other parameters / dictionaries, then reset), poisoned match tables (hash / chain / 3-byte hash filled with random in-window indices before the reset), static context of exactly the estimated size, "
                     "source / destination misaligned by 1..63 bytes, random 1..4000-byte output capacities, 2-6 workers vs 1 worker with and without long-distance matching; "
                     "px-dict: frame with a dictionary (CDict by reference built with a level / with the context's parameters, loadDictionary by copy / by reference, prefix, usingCDict(+_advanced), usingDict, "
                     "initCStream_usingCDict, compressBegin_usingCDict_advanced) x attach / copy / load preference x levels 1-4 (and others) x one-shot / pledged / unknown-size / single-end-call x source and dictionary "
                     "sizes on both sides of the attach / copy / reload cut-offs, after histories that keep the table indices running (same-size frames with and without the dictionary, larger frames, failed and aborted "
                     "frames, tables overwritten, each reset kind or none), on heap, filled-malloc and static contexts; px-opt: optimal-parser levels 13-22 and explicit btopt / btultra / btultra2 on inputs dense in short "
                     "matches, pairs of static contexts over buffers pre-filled with 0x00 / 0x7F / 0xFF, heap contexts whose malloc fills blocks with 0x00 / 0x01 / 0x7F / 0x80 / 0xA5 / 0xFF, price / match / frequency tables "
                     "overwritten between frames, and prior frames that reached deeper into the price table; distinct = distinct op lines",
                samples=[dict(op=lines[0], result=res[0])], variants=kinds, skipped=skipped)


def replay(ctx, data):
    rc, out, err = frames.run_lines(hx2() if data["op"].startswith("px ") else hx(), [data["op"]], timeout=3000)
    return dict(violates=not (out and out[0].startswith(("same", "skip"))), result=out)
