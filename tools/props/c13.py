"""C13 — allocation failure anywhere: exhaustive k-th-request failure per scenario, decided by the Lean ledger.
For every scenario S of the catalogue (harness/zvh_fault.c) and EVERY k in 1..allocs(S) (thorough: also pairs k<k'), the operation
runs with the k-th request of the caller's allocator answered NULL; the whole allocator event log of the scenario's life is replayed
by the Lean ledger model (zvdriver ledger), which decides leak / double free / foreign free; the harness resets the context and
repeats the operation with memory available (must succeed and round-trip).  dictBuilder's direct malloc/free calls are redirected
to the same allocator."""
import re
import build, zv, frames

ASSUMPTIONS = ["the catalogue of scenarios is finite (45: 30 + 11 in which the failing context only references objects the caller still owns + 4 in which the caller frees a context mid-frame while its jobs run on a borrowed thread pool); for each scenario the enumeration over k is complete, the allocation sites themselves are not modelled",
               "in multithreaded scenarios the k-th request depends on the OS schedule (sampled); allocations by libc / pthread outside ZSTD_customMem are not failed"]

SRCS = ["zvh_fault.c"] + ["zvh_fault_%s.c" % f for f in ("cover", "fastcover", "zdict", "divsufsort")]
EXCL = ("cover.c", "fastcover.c", "zdict.c", "divsufsort.c")


def hx(variant="plain"):
    return build.link("zvh_fault", SRCS, variant, exclude=EXCL)


def parse(o):
    m = re.match(r"fault=(\d+) allocs=(\d+) op=(\S+) (?:probe=(\S+) )?(?:retry=(\S+) )?retry2=(\S+) log=(.*)$", o)
    if not m:
        return None
    g = m.groups()
    retry = g[4] if g[4] else g[5]          # a failing smaller job after the reset is reported first
    return (g[0], g[1], g[2], retry, g[6], g[3])


def owned(n):
    """scenario family: objects the caller still owns (shared thread pool, referenced CDict / DDict / prefix) must survive a failed call"""
    return n.startswith("own_")


def abandon(n):
    """scenario family: the caller frees a context in the middle of a frame while its jobs run on a thread pool it only borrowed
    (ZSTD_createThreadPool / ZSTD_CCtx_refThreadPool, pool shared with a second context); the harness holds the jobs inside the allocator
    so that they are certainly in flight when ZSTD_freeCCtx is entered"""
    return n.startswith("own_pool_mt_abandon")


def scen_of(op):
    return op.split()[1]


def run_ops(exe, ops):
    """each op in its own harness process group of ~12 (a crash must not hide the others)"""
    def work(chunk):
        res = []
        i = 0
        while i < len(chunk):
            rc, out, err = frames.run_lines(exe, chunk[i:], timeout=1500)
            res += [(o, None) for o in out[:len(chunk) - i]]
            i += len(out)
            if i < len(chunk):
                # the op at index i killed the harness
                head = " | ".join(l.strip()[:300] for l in err.split("\n") if re.search(r"ERROR: \w+Sanitizer|^SUMMARY: |runtime error:", l))[:900]
                res.append((None, "exit %d: %s%s" % (rc, (head + " || ") if head else "", err[-1200:])))
                i += 1
        return res
    return frames.parallel(work, frames.split_chunks(ops, 16))


def judge(ctx, ops, results, variant, stats):
    logs, idx = [], []
    for op, (o, crash) in zip(ops, results):
        if crash is not None or o is None or o.startswith("TIMEOUT"):
            ctx.violation("[%s build] crash / sanitizer report / hang when an allocation fails: %s -> %s" % (variant, op, (crash or o or "")[:900] if " || " in (crash or "") else (crash or o or "")[-400:]), dict(kind="monitor", op=op, variant=variant, stderr=crash or o))
            continue
        g = parse(o)
        if not g:
            ctx.violation("unparsable harness line for %s: %s" % (op, o[:200]), dict(kind="internal", op=op, line=o[:500]), no_input=True)
            continue
        fault, allocs, opres, retry, log, probe = g
        stats["runs"] += 1
        stats["fired"] += int(fault)
        if fault != "0" and opres == "ok":
            stats["fault_survived"] += 1
        if fault != "0" and ":" in opres:
            ctx.violation("[%s] wrong result (not an error) under allocation failure: %s -> op=%s" % (variant, op, opres), dict(kind="monitor", op=op, variant=variant, result=o[:300]))
        if owned(scen_of(op)) and probe is None:
            ctx.violation("the harness did not probe the caller-owned objects of %s: %s" % (op, o[:200]), dict(kind="internal", op=op, line=o[:500]), no_input=True)
        if probe is not None and not probe.startswith("ok"):
            ctx.violation("[%s] an object the caller still owns (it was only referenced by the context) did not survive the failed call: %s -> probe=%s (call: %s)" % (variant, op, probe, opres),
                          dict(kind="monitor", op=op, variant=variant, result=o[:300]))
        if not retry.startswith("ok"):
            ctx.violation("[%s] context not reusable after the failed call + reset: %s -> retry=%s (first call: %s)" % (variant, op, retry, opres), dict(kind="monitor", op=op, variant=variant, result=o[:300]))
        logs.append(log.strip() or "-")
        idx.append((op, o))
    if logs:
        rc, mout, merr = zv.run([zv.driver_exe(), "ledger"], "\n".join(logs) + "\n", timeout=1200)
        mo = mout.split("\n")
        for (op, o), verdict in zip(idx, mo):
            if not verdict.startswith("clean"):
                ctx.violation("[%s] allocator ledger not clean: %s -> %s" % (variant, op, verdict), dict(kind="monitor(lean-ledger)", op=op, variant=variant, verdict=verdict, result=o[:2000]))
        stats["ledgers"] += len(logs)


def correspondence(ctx):
    quick = ctx.quick()
    rng = ctx.rng
    stats = dict(runs=0, fired=0, fault_survived=0, ledgers=0)
    exe = hx("plain")
    rc, out, err = frames.run_lines(exe, ["list"])
    names = out[0].split()
    base = run_ops(exe, ["run %s 0" % n for n in names])
    allocs = {}
    for n, (o, crash) in zip(names, base):
        g = parse(o) if o else None
        if g and g[2] == "ok" and g[3].startswith("ok") and g[5] is not None and not g[5].startswith("ok"):
            allocs[n] = int(g[1])        # only the probe of the caller-owned objects fails: judge() below reports it with the op as input; every k is still run
            continue
        if crash is not None and abandon(n):
            continue                     # the harness died in the fault-free run of a lifecycle scenario: judge() below reports the crash with the op as input
        if not g or g[2] != "ok" or not g[3].startswith("ok") or (g[5] is not None and not g[5].startswith("ok")):
            ctx.violation("scenario %s fails without any fault: %s" % (n, (o or crash or "")[:300]), dict(kind="internal", op="run %s 0" % n), no_input=True)
            continue
        allocs[n] = int(g[1])
    judge(ctx, ["run %s 0" % n for n in names], base, "plain", stats)
    ops = []
    for n, a in allocs.items():
        mt = n.startswith("mt") or n.startswith("opt_") or "_mt" in n
        top = a + ((8 if owned(n) else 3) if mt else 0)     # worker-side requests come and go with the schedule (own_pool_mt_public: 13..21)
        ks = list(range(1, top + 1))
        if quick and len(ks) > 48 and not owned(n):
            ks = ks[:24] + sorted(rng.sample(ks[24:], 24))
        ops += ["run %s %d" % (n, k) for k in ks]
        if not quick and a <= 60:
            ops += ["run %s %d %d" % (n, k, k2) for k in range(1, a + 1) for k2 in range(k + 1, a + 2)]
        elif not quick:
            for _ in range(300):
                k = rng.randint(1, a); ops.append("run %s %d %d" % (n, k, rng.randint(k + 1, a + 1)))
    res = run_ops(exe, ops)
    judge(ctx, ops, res, "plain", stats)
    # sanitizer build: use-after-free of a quarantined (poisoned) block, overflow inside a half-initialised object
    exe_s = hx("san")
    sops = ops if not quick else [o for o in ops if rng.random() < 0.45 or any(t in o for t in ("grow", "more_workers")) or owned(scen_of(o))]
    res_s = run_ops(exe_s, sops)
    judge(ctx, sops, res_s, "san", stats)
    return dict(evaluations=stats["runs"], distinct_nontrivial=len(set(ops)),
                rule="one evaluation = one (scenario, k[, k2]) run in one build; distinct = distinct (scenario, k, k2); every k in 1..allocs(S) (+3 / +8 for multithreaded scenarios whose count varies) in the plain build, "
                     "a 45% sample + all growth scenarios + all caller-owned-object scenarios (own_*: every k, never sampled) in the ASan+UBSan build (quick) / everything in both builds + all pairs (thorough)",
                samples=[dict(op=ops[0], result=(res[0][0] or "")[:300])], scenarios=allocs, faults_fired=stats["fired"], op_succeeded_despite_fault=stats["fault_survived"], ledgers_replayed_in_lean=stats["ledgers"])


def search_failing_input(ctx, broken, log):
    """a broken C13 proof obligation (e.g. cwksp_fail_resettable after ZSTD_cwksp_free stopped clearing its descriptor): look for a concrete
    scenario / k whose ledger is not clean"""
    exe = hx("plain")
    for n in ("oneshot_grow", "stream_grow", "oneshot_ldm", "mt_grow"):
        ops = ["run %s %d" % (n, k) for k in range(1, 12)]
        for op, (o, crash) in zip(ops, run_ops(exe, ops)):
            g = parse(o) if o else None
            if not g:
                return dict(desc="%s crashes: %s" % (op, (crash or "")[-200:]), op=op)
            rc, mout, merr = zv.run([zv.driver_exe(), "ledger"], g[4].strip() + "\n")
            if not mout.startswith("clean") or not g[3].startswith("ok"):
                return dict(desc="%s -> ledger %s retry=%s" % (op, mout.strip(), g[3]), op=op, result=o[:1500])
    return None


def replay(ctx, data):
    op = data.get("op") or data.get("witness", {}).get("op")
    exe = hx(data.get("variant", "plain"))
    res = run_ops(exe, [op])
    o, crash = res[0]
    if o is None:
        return dict(violates=True, crash=crash)
    g = parse(o)
    rc, mout, merr = zv.run([zv.driver_exe(), "ledger"], (g[4].strip() or "-") + "\n")
    return dict(violates=(not mout.startswith("clean")) or not g[3].startswith("ok") or (g[5] is not None and not g[5].startswith("ok")), ledger=mout.strip(), result=o[:400])
