"""C19 — the command-line tool.  (1) sparse writer: AIO_fwriteSparse / AIO_fwriteSparseEnd (fileio_asyncio.c #included, fwrite / seek wrapped) vs
Model/Sparse.lean on generated buffer sequences: same seek / write calls, same file; (2) file-operation protocol: the zstd binary built from the
current tree runs under strace on generated invocations x file sets; the normalised open / close / unlink / SIGINT-handler / exit skeleton must equal
Cli.program; directory monitors (recoverable, no clobber, no artefact, exit status = library verdict, --sparse == --no-sparse); (3) kill points: every
system call of selected runs is the point of a SIGKILL (and of a SIGINT): afterwards the source is intact or the destination complete.
(1b) the sparse writer on zero runs of 1 / 2 / 4 / 8 GiB and around (virtual file: harness/zvh_sparsebig.c) vs the length view of the model (unbounded
pending skip); (2b) several inputs into one destination (-o FILE) x compress / decompress x -qq / -q / default / -v x -f x --rm x the answer at the
prompt: same skeleton as Cli.program, sources never removed nor modified, nothing touched when refused."""
import os, re, shutil, subprocess, tempfile, hashlib
import build, zv, frames, clitrace

ASSUMPTIONS = ["data for which write() returned is durable: power loss and fsync semantics are outside the model; system-call ERRORS (ENOSPC ...) are outside the property's quantifier",
               "the invocation grammar is finite: compress / decompress / test x --rm x -f x -c x -o (one input, or 2-3 inputs into the one output) x -qq / -q / default / -v x answer at the prompt (y / n / end of file) x 1-3 inputs x pre-existing / missing / corrupted files; other options are exercised by the pinned test suite only",
               "sparse writer: buffers handed to AIO_fwriteSparse are at most 1 MiB each (the CLI's are 128 KiB); zero RUNS are unbounded (tied up to 8 GiB + 1 MiB)"]


def hx_sparse():
    return build.link("zvh_sparse", ["zvh_sparse.c"], "plain", extra=["-I" + os.path.join(build.REPO, "programs")])


def hx_sparsebig():
    return build.link("zvh_sparsebig", ["zvh_sparsebig.c"], "plain", extra=["-I" + os.path.join(build.REPO, "programs")])


GIB = 1 << 30
BIG_BUFS = [131072, 131072, 32768, 65536 + 8, 131072 + 5, 1 << 20, 4096 * 3 + 1]     # 131072 = the CLI's write-job size; +5 / +1: the byte-wise tail also accumulates


def big_items(rng, skip, bsize, shape):
    """items (zvh_sparsebig / `zvdriver cli` sparsebig syntax) in which the writer's PENDING SKIP is exactly `skip` bytes when it is consumed
    (by the next write, or by the explicit last zero).  What counts towards it (fileio_asyncio.c): whole zero buffers; the leading zero WORDS of the
    buffer that follows; leading zero bytes of its last partial word.  Zeros after a non-zero word in the preceding buffer are written, not skipped."""
    def nz(n):
        return bytes(rng.randint(1, 255) for _ in range(n))
    items = []
    if shape != "nohead":
        h, hz = rng.choice([(1, 0), (7, 0), (8, 0), (9, 0), (24, 0), (8, 8), (3, 5), (1, 7), (16, 40)])      # trailing zeros only up to a word boundary: written with their segment
        items.append((nz(h) + bytes(hz)).hex())
    counted = 0
    if shape != "notail":
        w, z, m = rng.choice([0, 0, 1, 2, 5]), rng.choice([0, 0, 1, 3, 7]), rng.choice([1, 2, 8, 9])
        counted = 8 * w + (z if z + m < 8 else 0)          # z zeros sharing a whole word with data are written; in the last partial word they are skipped
        tail = (bytes(8 * w + z) + nz(m)).hex()
    mid = skip - counted
    cnt, rest = divmod(mid, bsize)
    k = rng.randrange(cnt + 1) if rng.random() < 0.5 else cnt                   # the shorter buffer somewhere inside the run
    if k:
        items.append("z%dx%d" % (bsize, k))
    if rest:
        items.append("z%dx1" % rest)
    if cnt - k:
        items.append("z%dx%d" % (bsize, cnt - k))
    if shape != "notail":
        items.append(tail)
    return items


def gen_big(rng, quick):
    """directed: pending skips just below, exactly at and just above 1, 2, 4 and 8 GiB (and 3, 6: an accumulator that is drained or wraps at
    another power of two), consumed in the middle of the data, with nothing before, at the end (the explicit last zero), and two such runs
    separated by a few bytes (the count must start again from zero)"""
    lines = []
    for t in (1, 2, 4, 8):
        for d in (-8, -1, 0, 1, 8):                                               # one word / one byte below, exactly, one byte / one word above
            lines.append("sparsebig " + " ".join(big_items(rng, t * GIB + d, 131072, "mid")))
        for shape in ("notail", "nohead"):
            lines.append("sparsebig " + " ".join(big_items(rng, t * GIB + rng.choice([0, 1, 8, 4096, 131072, rng.randrange(1, 1 << 20)]), rng.choice(BIG_BUFS), shape)))
        lines.append("sparsebig " + " ".join(big_items(rng, t * GIB - rng.choice([1, 8, 4096, rng.randrange(1, 1 << 20)]), rng.choice(BIG_BUFS), rng.choice(["mid", "notail", "nohead"]))))
        a = big_items(rng, t * GIB + rng.randrange(0, 1 << 16), rng.choice(BIG_BUFS), "mid")
        b = big_items(rng, rng.choice([1, 2, 4]) * GIB + rng.randrange(0, 1 << 16), rng.choice(BIG_BUFS), "nohead")
        lines.append("sparsebig " + " ".join(a + b))
    for t in ((3, 6) if quick else (3, 5, 6, 7, 12, 16)):
        lines.append("sparsebig " + " ".join(big_items(rng, t * GIB + rng.randrange(-(1 << 20), 1 << 20), rng.choice(BIG_BUFS), rng.choice(["mid", "notail"]))))
    for _ in range(4 if quick else 40):                                         # any length in between
        lines.append("sparsebig " + " ".join(big_items(rng, rng.randrange(1 << 20, 9 * GIB), rng.choice(BIG_BUFS), rng.choice(["mid", "notail", "nohead"]))))
    return lines


def big_total(line):
    """bytes handed to the writer by a sparsebig line"""
    tot = 0
    for it in line.split()[1:]:
        if it.startswith("z"):
            a, b = it[1:].split("x")
            tot += int(a) * int(b)
        elif it != "-":
            tot += len(it) // 2
    return tot


def big_frame(segments):
    """a valid zstd frame (no content size, no checksum, 128 KiB window) that decodes to the segments: bytes = literal data (raw blocks),
    int = that many zero bytes (RLE blocks of a zero byte, 128 KiB each + one shorter): ~1 byte of frame per 32 KiB of zeros"""
    def bh(last, btype, size):
        return ((size << 3) | (btype << 1) | last).to_bytes(3, "little")
    blk = 128 * 1024
    out = bytearray(b"\x28\xb5\x2f\xfd\x00\x38")
    for seg in segments:
        if isinstance(seg, int):
            n, r = divmod(seg, blk)
            out += (bh(0, 1, blk) + b"\0") * n
            if r:
                out += bh(0, 1, r) + b"\0"
        else:
            for i in range(0, len(seg), blk):
                out += bh(0, 0, len(seg[i:i + blk])) + seg[i:i + blk]
    out += bh(1, 0, 0)
    return bytes(out)


def holes_supported(d):
    p = os.path.join(d, ".holes")
    with open(p, "wb") as f:
        f.seek(8 << 20); f.write(b"x")
    st = os.stat(p)
    os.unlink(p)
    return st.st_blocks * 512 < (4 << 20) and hasattr(os, "SEEK_DATA")


def check_sparse_file(path, segments, budget=256 << 20):
    """is the file exactly the concatenation of the segments?  Only its data extents are read (SEEK_DATA / SEEK_HOLE): a hole reads as zeros by definition.
    Returns None or a description of the first difference."""
    total = sum(s if isinstance(s, int) else len(s) for s in segments)
    marks, off = [], 0
    for sg in segments:
        if not isinstance(sg, int):
            marks.append((off, sg))
        off += sg if isinstance(sg, int) else len(sg)
    size = os.stat(path).st_size
    if size != total:
        return "the file has %d bytes, the library decodes %d bytes (%d missing = %.3f GiB)" % (size, total, total - size, (total - size) / GIB)
    fd = os.open(path, os.O_RDONLY)
    try:
        for o, m in marks:
            if os.pread(fd, len(m), o) != m:
                return "the %d data bytes the library decodes at offset %d are not there" % (len(m), o)
        pos, readb = 0, 0
        while pos < size:
            try:
                a = os.lseek(fd, pos, os.SEEK_DATA)
            except OSError:
                break                                                   # ENXIO: only a hole up to the end
            b = os.lseek(fd, a, os.SEEK_HOLE)
            while a < b and readb < budget:
                n = min(b - a, 1 << 20)
                got = os.pread(fd, n, a)
                exp = bytearray(n)
                for o, m in marks:
                    lo, hi = max(o, a), min(o + len(m), a + n)
                    if lo < hi:
                        exp[lo - a:hi - a] = m[lo - o:hi - o]
                if got != bytes(exp):
                    k = next(i for i in range(n) if got[i] != exp[i])
                    return "byte at offset %d is 0x%02x, the library decodes 0x%02x" % (a + k, got[k], exp[k])
                a += n; readb += n
            pos = b
    finally:
        os.close(fd)
    return None


def big_cli_jobs(rng, quick):
    """end to end through the write pool of the real binary: decompression of frames whose content has zero runs beyond 4 GiB / 8 GiB"""
    def mk(n):
        return bytes(rng.randint(1, 255) for _ in range(n))
    d1, d2, d3 = (rng.choice([0, 8, 4096, 131072, rng.randrange(1, 1 << 22)]) for _ in range(3))
    jobs = [dict(name="runs", flags=["--sparse"], preexisting=False, segments=[mk(16), 4 * GIB + d1, mk(rng.choice([1, 8, 21])), 2 * GIB + d2, mk(16)]),
            dict(name="end", flags=["-f"], preexisting=True, segments=[mk(rng.choice([5, 16, 70000])), 8 * GIB + d3])]      # default sparse mode: existing regular file + -f; file ends inside the run
    if not quick:
        jobs.append(dict(name="long", flags=["--sparse"], preexisting=False, segments=[mk(9), 12 * GIB + d1, mk(3), 4 * GIB - d2 - 1, mk(2), 4 * GIB + d3]))
    return jobs


def big_cli_one(exe, root, job):
    d = tempfile.mkdtemp(prefix="big-", dir=root)
    try:
        open(os.path.join(d, "img.zst"), "wb").write(big_frame(job["segments"]))
        if job["preexisting"]:
            open(os.path.join(d, "img"), "wb").write(b"previous content")
        t = subprocess.run([exe, "-q", "-t", "img.zst"], cwd=d, stdout=subprocess.DEVNULL, stderr=subprocess.PIPE)
        r = subprocess.run([exe, "-q", "-d"] + job["flags"] + ["img.zst", "-o", "img"], cwd=d, stdout=subprocess.DEVNULL, stderr=subprocess.PIPE, timeout=600)
        shape = " ".join(("%d zeros (%.3f GiB)" % (s, s / GIB)) if isinstance(s, int) else "<%d bytes>" % len(s) for s in job["segments"])
        cmd = "zstd -q -d %s img.zst -o img   [content: %s]" % (" ".join(job["flags"]), shape)
        if t.returncode != 0:
            return "check machinery: the library rejects the generated frame: %s" % t.stderr.decode(errors="replace")[-200:], cmd, True
        if r.returncode != 0:
            return "exit status %d although the library accepts the frame (zstd -t): %s" % (r.returncode, r.stderr.decode(errors="replace")[-200:]), cmd, False
        diff = check_sparse_file(os.path.join(d, "img"), job["segments"])
        return (None if diff is None else "exit status 0 but the output is not what the library decodes: " + diff), cmd, False
    finally:
        shutil.rmtree(d, ignore_errors=True)


def gen_buffers(rng):
    bufs = []
    for _ in range(rng.randint(1, 5)):
        n = rng.choice([0, 1, 7, 8, 9, 15, 16, 17, 64, 1000, 4095, 4096, 4097, 32767, 32768, 32769, 32776, 40000, 65536, 65543])
        b = bytearray(n)
        k = rng.random()
        if k < 0.25:
            pass                                                   # all zeros
        elif k < 0.5:
            for _ in range(rng.randint(1, 6)):                     # a few non-zero islands
                p = rng.randrange(max(1, n)); ln = rng.choice([1, 1, 3, 8, 200])
                for i in range(p, min(n, p + ln)):
                    b[i] = rng.randint(1, 255)
        elif k < 0.75:
            for i in range(n):
                b[i] = rng.randint(0, 255) if rng.random() < 0.5 else 0
            for p in (0, 32768, 32760, n - 8, n - 3, n - 1):       # zero runs around word / segment / buffer edges
                if 0 <= p < n and rng.random() < 0.7:
                    for i in range(p, min(n, p + rng.choice([1, 7, 8, 9, 16]))):
                        b[i] = 0
        else:
            for i in range(n):
                b[i] = rng.randint(1, 255)
            if n:
                tail = rng.choice([1, 2, 3, 7])                      # last partial word: <zeros><non-zero>
                for i in range(max(0, n - tail), n - 1):
                    b[i] = 0
        bufs.append(bytes(b))
    return bufs


def sh(b):
    return hashlib.sha256(b).hexdigest()


def make_files(rng, d, names):
    content = {}
    for nm in names:
        k = rng.random()
        n = rng.choice([0, 1, 100, 5000, 70000, 300000])
        if k < 0.3:
            data = bytes(n)                                          # zero runs: sparse territory
        elif k < 0.6:
            data = (b"the quick brown fox " * (n // 20 + 1))[:n]
        else:
            data = bytes(rng.getrandbits(8) if rng.random() < 0.3 else 0 for _ in range(n))
        if n >= 8 and rng.random() < 0.5:
            data = data[:-3] + b"\0\0\x07"
        with open(os.path.join(d, nm), "wb") as f:
            f.write(data)
        content[nm] = data
    return content


LEVEL_FLAGS = {0: ["-qq"], 1: ["-q"], 2: [], 3: ["-v"]}


def shared_grid(rng, quick):
    """every combination of compress / decompress x display level x -f x --rm, the answer at the prompt both ways where a prompt is possible;
    the file set (2-3 inputs, one missing / damaged, destination pre-existing) is drawn per job"""
    jobs = []
    for mode in ("c", "d"):
        for level in (0, 1, 2, 3):
            for force in (False, True):
                for rm in (False, True):
                    answers = ["y", "n"] if (level >= 2 and not force) else [rng.choice(["y", "n", ""])]
                    for answer in answers:
                        jobs.append(dict(mode=mode, level=level, force=force, rm=rm, answer=answer, seed=rng.getrandbits(48), kill=False, plain=False))
    if not quick:
        more = []
        for rep_ in range(5):
            for j in jobs:
                more.append(dict(j, seed=rng.getrandbits(48)))
        jobs += more
    # kill points: in this mode every source must survive every kill point; one quiet and one talkative run that go ahead with --rm
    # (clean file set: the run is long enough to have sources closed while the destination is still open)
    for levels in ((0, 1), (2, 3)):
        jobs.append(dict(mode=rng.choice(["c", "d"]), level=rng.choice(levels), force=True, rm=True, answer="", seed=rng.getrandbits(48), kill=True, plain=True))
    return jobs


def shared_one(exe, dec, root, job):
    """one invocation `zstd [-d] <level> [-f] [--rm] -o out.bin f0 f1 [f2]`: skeleton vs Cli.program, and the property on the directory"""
    rng = zv.Rng(job["seed"])
    d = tempfile.mkdtemp(prefix="sh-", dir=root)
    mode, level, force, rm, answer = job["mode"], job["level"], job["force"], job["rm"], job["answer"]
    names = ["g%d.dat" % k for k in range(rng.choice([2, 2, 3]))]
    content = make_files(rng, d, names)
    inputs = list(names)
    missing, bad, exists = [], [], []
    out = "out.bin"
    if mode == "d":
        subprocess.run([exe, "-q", "--no-progress"] + names, cwd=d, check=False, stdout=subprocess.DEVNULL, stderr=subprocess.DEVNULL)
        for nm in names:
            os.unlink(os.path.join(d, nm))
        inputs = [nm + ".zst" for nm in names]
        if not job["plain"] and rng.random() < 0.25:
            nm = rng.choice(inputs)
            pth = os.path.join(d, nm)
            b = bytearray(open(pth, "rb").read())
            if rng.random() < 0.5 and len(b) > 12:
                b = b[:rng.randrange(5, len(b))]
            elif len(b) > 8:
                b[rng.randrange(6, len(b))] ^= 1 << rng.randrange(8)
            open(pth, "wb").write(b)
    if not job["plain"] and rng.random() < 0.15:
        nm = "nothere.x" + (".zst" if mode == "d" else "")
        inputs.insert(rng.randrange(len(inputs) + 1), nm); missing.append(nm)
    if not job["plain"] and rng.random() < 0.35:
        open(os.path.join(d, out), "wb").write(b"previous content of " + out.encode()); exists.append(out)
    if mode == "d":
        present = [x for x in inputs if x not in missing]
        rcv, vout, err = frames.run_lines(dec, ["dec 4000000 %s" % (open(os.path.join(d, nm), "rb").read().hex() or "-") for nm in present])
        bad = [nm for nm, v in zip(present, vout) if not v.startswith("ok")]
    before = {nm: open(os.path.join(d, nm), "rb").read() for nm in os.listdir(d)}
    args = LEVEL_FLAGS[level] + ["--no-progress"] + (["-d"] if mode == "d" else []) + (["-f"] if force else []) + (["--rm"] if rm else [])
    # the position of -o among the names does not matter to the tool
    args += (["-o", out] + inputs) if rng.random() < 0.5 else (inputs + ["-o", out])
    stdin_bytes = (answer.encode() + b"\n") * 8 if answer else b""
    rc, so, se, txt = clitrace.run_traced(exe, args, d, input=stdin_bytes)
    ops, nsys = clitrace.normalise(txt, d)
    skel = [o for o in ops if not o.startswith(("read:", "write:", "seek:", "truncate:"))]
    inv = "cli mode=%s force=%d rm=%d stdout=0 out=%s files=%s exists=%s missing=%s bad=%s level=%d confirm=%d" % (mode, force, rm, out, ",".join(inputs), ",".join(exists) or "-", ",".join(missing) or "-", ",".join(bad) or "-", level, answer == "y")
    rcm, mout, merr = zv.run([zv.driver_exe(), "cli"], inv + "\n")
    model = mout.strip().split()
    after = {nm: open(os.path.join(d, nm), "rb").read() for nm in os.listdir(d)}
    desc = "zstd %s   (stdin: %r)   [%s]" % (" ".join(args), answer, inv)
    viol = []
    go = force or (level >= 2 and answer == "y")
    data = dict(kind="monitor-shared", invocation=args, stdin=answer, env=inv, files={k: len(v) for k, v in before.items()})
    for nm in inputs:
        if nm in missing:
            continue
        if nm not in after:
            viol.append(("user data lost: source '%s' was removed although several inputs were concatenated into the one output '%s', which cannot stand for it (--rm must be switched off in this mode at every display level): %s" % (nm, out, desc), data, False))
        elif after[nm] != before[nm]:
            viol.append(("user data damaged: source '%s' was modified by a run that concatenates several inputs into '%s': %s" % (nm, out, desc), data, False))
    if not go:
        if after != before:
            changed = sorted(set(k for k in set(after) | set(before) if after.get(k) != before.get(k)))
            viol.append(("the run was refused (no -f, no 'y') but the directory changed (%s): %s" % (", ".join(changed), desc), data, False))
        if rc == 0:
            viol.append(("the run was refused (no -f, no 'y') but the exit status is 0: %s" % desc, data, False))
    else:
        ok_expected = not missing and not bad
        if (rc == 0) != ok_expected:
            viol.append(("exit status %d but the library's verdict / the environment says %s: %s | %s" % (rc, "success" if ok_expected else "failure", desc, se.decode(errors="replace")[-200:]), data, False))
        if rc == 0:
            want = b"".join(content[nm] for nm in names)
            if mode == "c":
                r = subprocess.run([exe, "-q", "-d", "-c", out], cwd=d, stdout=subprocess.PIPE, stderr=subprocess.DEVNULL)
                got = r.stdout if r.returncode == 0 else None
            else:
                got = after.get(out)
            if got != want:
                viol.append(("exit status 0 but '%s' does not hold the concatenation of the inputs (%s bytes instead of %d): %s" % (out, "no" if got is None else len(got), len(want), desc), data, False))
    for k in after:
        if k not in before and k != out:
            viol.append(("unexpected file '%s' left behind: %s" % (k, desc), data, False))
    equal = skel == model
    if not equal:
        k = next((j for j in range(max(len(skel), len(model))) if j >= len(skel) or j >= len(model) or skel[j] != model[j]), 0)
        viol.append(("file-operation sequence differs from the protocol model at step %d: %s\n   code : %s\n   model: %s" % (k, desc, " ".join(skel), " ".join(model)), dict(kind="tie-protocol", invocation=args, stdin=answer, env=inv, code=skel, model=model), True))
    kill = (args, before, mode, inputs, out, bad, exists, go, content, names, dict(shared=True, stdin=stdin_bytes))
    shutil.rmtree(d, ignore_errors=True)
    return dict(inv=inv, violations=viol, equal=int(equal), kill=kill, code=" ".join(skel), model=" ".join(model))


def correspondence(ctx):
    rng = ctx.rng
    quick = ctx.quick()
    ev, distinct, samples = 0, set(), []
    # ---------------- (1) sparse writer ----------------
    sl = []
    for i in range(150 if quick else 3000):
        sl.append("sparse " + " ".join((b.hex() or "-") for b in gen_buffers(rng)))
    co = frames.parallel(lambda ch: frames.run_lines(hx_sparse(), ch, timeout=900)[1], frames.split_chunks(sl, 16))

    def ml(ch):
        rc, out, err = zv.run([zv.driver_exe(), "cli"], "\n".join(ch) + "\n", timeout=1800)
        o = out.split("\n")
        return o[:-1] if o and o[-1] == "" else o
    mo = frames.parallel(ml, frames.split_chunks(sl, 16))
    for ln, a, b in zip(sl, co, mo):
        if a != b:
            sizes = [len(t) // 2 if t != "-" else 0 for t in ln.split()[1:]]
            total = sum(sizes)
            m = re.match(r"size=(-?\d+)", a)
            wrong_file = (m is None) or int(m.group(1)) != total
            ctx.violation("sparse writer and model disagree on buffers of sizes %s: code %s / model %s%s" % (sizes, a[:120], b[:120], " (the FILE does not hold the %d bytes written)" % total if wrong_file else ""),
                          dict(kind="tie-sparse", op=ln[:20000], code=a, model=b), no_input=not wrong_file)
            break
    ev += len(sl); distinct |= set(sl)
    samples.append(dict(op=sl[0][:100], code=co[0][:100] if co else "", model=mo[0][:100] if mo else ""))
    # ---------------- (1b) sparse writer, zero runs of several GiB (virtual file) ----------------
    bl = gen_big(rng, quick)
    bco = frames.parallel(lambda ch: frames.run_lines(hx_sparsebig(), ch, timeout=900)[1], frames.split_chunks(bl, 16))
    rcm, bout, berr = zv.run([zv.driver_exe(), "cli"], "\n".join(bl) + "\n", timeout=900)
    bmo = bout.split("\n")[:len(bl)]
    big_bad = 0
    for ln, a, b in zip(bl, bco, bmo):
        total = big_total(ln)
        m = re.match(r"(size=(\d+) ops=\S*) misplaced=(\d+) nzin=(\d+) nzout=(\d+)$", a)
        shape = " ".join(t if t.startswith("z") else "<%d bytes>" % (len(t) // 2) for t in ln.split()[1:])
        if big_bad >= 3:
            break
        if m is None:
            big_bad += 1
            ctx.violation("sparse writer harness failed on [%s]: %s" % (shape, a[:200]), dict(kind="tie-sparsebig", op=ln[:20000], code=a, model=b), no_input=True)
            continue
        wrong_file = int(m.group(2)) != total or int(m.group(3)) != 0 or m.group(4) != m.group(5)
        if wrong_file:
            big_bad += 1
            ctx.violation("sparse writer damages the file: %d bytes handed in [%s], the file has %d bytes (%d missing = %.3f GiB), %d write calls land at an offset that is not the data's, %s of %s non-zero bytes written; calls: code %s / model %s"
                          % (total, shape, int(m.group(2)), total - int(m.group(2)), (total - int(m.group(2))) / GIB, int(m.group(3)), m.group(5), m.group(4), m.group(1)[:160], b[:160]),
                          dict(kind="tie-sparsebig", op=ln[:20000], code=a, model=b))
        elif m.group(1) != b:
            big_bad += 1
            ctx.violation("sparse writer and model disagree on the seek / write calls for [%s]: code %s / model %s" % (shape, m.group(1)[:200], b[:200]),
                          dict(kind="tie-sparsebig", op=ln[:20000], code=a, model=b), no_input=True)
    if len(bco) != len(bl) or len(bmo) != len(bl):
        ctx.violation("sparse writer (huge runs): %d lines, %d answers from the code, %d from the model" % (len(bl), len(bco), len(bmo)), dict(kind="tie-sparsebig", op="-"), no_input=True)
    ev += len(bl); distinct |= set(bl)
    samples.append(dict(op=bl[0][:100], code=bco[0][:100] if bco else "", model=bmo[0][:100] if bmo else ""))
    # ---------------- (2) protocol skeleton + directory monitors ----------------
    exe = build.cli_binary("plain")
    dec = frames.harness("plain")
    root = tempfile.mkdtemp(prefix="zvcli-", dir=os.path.join(build.CACHE))
    # ---- (1c) the same runs end to end: the real binary decompresses frames with zero runs beyond 4 / 8 GiB into a sparse file (started here, collected below)
    from concurrent.futures import ThreadPoolExecutor as _TPE0
    big_jobs = big_cli_jobs(rng, quick) if holes_supported(root) else []
    big_pool = _TPE0(max_workers=3)
    big_fut = [big_pool.submit(big_cli_one, exe, root, j) for j in big_jobs]
    ninv = 60 if quick else 900
    skel_ok = 0
    kill_targets = []
    try:
        for i in range(ninv):
            d = os.path.join(root, "i%d" % i)
            os.makedirs(d)
            mode = rng.choice(["c", "c", "d", "d", "t"])
            names = ["f%d.dat" % k for k in range(rng.choice([1, 1, 2, 3]))]
            # directed (first invocations of every run): several inputs, one of the EARLIER ones fails inside a frame (truncated / damaged), valid ones follow -
            # the verdict of each file is its own: a failure must not leak into the files that follow (the decoding context is shared by the invocation)
            directed_bad = None
            if i < 8:
                mode = "d" if i % 4 != 3 else "t"
                names = ["f%d.dat" % k for k in range(2 + i % 2)]
                directed_bad = (0 if i % 8 < 5 else 1, "cut" if i % 2 else "flip")
            content = make_files(rng, d, names)
            force, rm, stdout_ = rng.random() < 0.3, rng.random() < 0.5, rng.random() < 0.15
            level = rng.choice([1, 1, 1, 1, 0, 2, 2, 3])            # -q (as before) | -qq | default | -v : decides whether a question is asked, nothing else
            answer = rng.choice(["y", "n", ""])                    # what stdin holds if the tool asks ("" = end of file)
            ow = force or (level >= 2 and answer == "y")           # an existing destination may be replaced
            out = None
            missing, bad, exists = [], [], []
            inputs = list(names)
            if mode in ("d", "t"):
                subprocess.run([exe, "-q", "--no-progress"] + names, cwd=d, check=False, stdout=subprocess.DEVNULL, stderr=subprocess.DEVNULL)
                for nm in names:
                    os.unlink(os.path.join(d, nm))
                inputs = [nm + ".zst" for nm in names]
                for k_, nm in enumerate(inputs):
                    if (directed_bad is not None and k_ == directed_bad[0]) or (directed_bad is None and rng.random() < 0.25):
                        p = os.path.join(d, nm)
                        b = bytearray(open(p, "rb").read())
                        if directed_bad is not None and len(b) > 30:
                            if directed_bad[1] == "cut":
                                b = b[:rng.randrange(len(b) // 2, len(b) - 4)]      # ends in the middle of a block
                            else:
                                b[rng.randrange(len(b) // 2, len(b) - 4)] ^= 1 << rng.randrange(8)
                        elif rng.random() < 0.5 and len(b) > 12:
                            b = b[:rng.randrange(5, len(b))]                    # truncated
                        elif len(b) > 8:
                            b[rng.randrange(6, len(b))] ^= 1 << rng.randrange(8)  # damaged
                        open(p, "wb").write(b)
            if len(inputs) == 1 and rng.random() < 0.2 and not stdout_ and mode != "t":
                out = "out.bin"
            if rng.random() < 0.2 and not out:
                inputs.insert(rng.randrange(len(inputs) + 1), "nothere.x" + (".zst" if mode != "c" else "")); missing.append(inputs[-1] if False else [x for x in inputs if x.startswith("nothere")][0])
            # pre-existing destinations
            for nm in inputs:
                if nm in missing:
                    continue
                dst = out or (nm + ".zst" if mode == "c" else nm[:-4])
                if mode != "t" and not stdout_ and rng.random() < 0.3:
                    if rng.random() < 0.35 and not os.path.lexists(os.path.join(d, dst)):
                        # the existing destination is a symbolic link to somebody's file
                        open(os.path.join(d, "precious-" + dst), "wb").write(b"precious content behind " + dst.encode())
                        os.symlink("precious-" + dst, os.path.join(d, dst))
                    elif not os.path.lexists(os.path.join(d, dst)):
                        open(os.path.join(d, dst), "wb").write(b"previous content of " + dst.encode())
                    if dst not in exists:
                        exists.append(dst)
            # library verdict for decompression inputs
            if mode in ("d", "t"):
                lines = ["dec 4000000 %s" % (open(os.path.join(d, nm), "rb").read().hex() or "-") for nm in inputs if nm not in missing]
                rc, vout, err = frames.run_lines(dec, lines)
                for nm, v in zip([x for x in inputs if x not in missing], vout):
                    if not v.startswith("ok"):
                        bad.append(nm)
            before = {nm: open(os.path.join(d, nm), "rb").read() for nm in os.listdir(d)}
            args = LEVEL_FLAGS[level] + ["--no-progress"] + ({"c": [], "d": ["-d"], "t": ["-t"]}[mode]) + (["-f"] if force else []) + (["--rm"] if rm else []) + (["-c"] if stdout_ else []) + (["-o", out] if out else []) + inputs
            if "-c" in args and force:
                pass
            stdin_bytes = (answer.encode() + b"\n") * 8 if answer else b""
            rc, so, se, txt = clitrace.run_traced(exe, args, d, input=stdin_bytes)
            ops, nsys = clitrace.normalise(txt, d)
            skel = [o for o in ops if not o.startswith(("read:", "write:", "seek:", "truncate:"))]
            skel = [re.sub(r"^exit:(\d+)$", r"exit:\1", o) for o in skel]
            inv = "cli mode=%s force=%d rm=%d stdout=%d out=%s files=%s exists=%s missing=%s bad=%s level=%d confirm=%d" % (mode, force, rm, stdout_, out or "-", ",".join(inputs), ",".join(exists) or "-", ",".join(missing) or "-", ",".join(bad) or "-", level, answer == "y")
            rcm, mout, merr = zv.run([zv.driver_exe(), "cli"], inv + "\n")
            model = mout.strip().split()
            after = {nm: open(os.path.join(d, nm), "rb").read() for nm in os.listdir(d)}
            ev += 1; distinct.add(inv)
            desc = "zstd %s   (stdin: %r)   [%s]" % (" ".join(args), answer, inv)
            # ---- monitors: the property on this run ----
            ok_expected = (not missing) and all(nm not in bad for nm in inputs) and not (mode != "t" and not stdout_ and not ow and exists)
            for nm in inputs:
                if nm in missing:
                    continue
                dst = out or (nm + ".zst" if mode == "c" else nm[:-4])
                src_intact = after.get(nm) == before[nm]
                if mode == "c":
                    good_dst = False
                    if dst in after and (dst not in before or after[dst] != before[dst] or ow):
                        r = subprocess.run([exe, "-q", "-d", "-c", dst], cwd=d, stdout=subprocess.PIPE, stderr=subprocess.DEVNULL)
                        good_dst = (r.returncode == 0 and r.stdout == before[nm])
                else:
                    good_dst = dst in after and nm not in bad and after[dst] == content.get(dst if not out else names[0], None)
                if not src_intact and not good_dst and not stdout_:
                    ctx.violation("user data lost: after the run neither '%s' is intact nor '%s' holds its data: %s" % (nm, dst, desc), dict(kind="monitor", invocation=args, env=inv))
                if mode != "t" and not stdout_ and dst in exists and not ow and after.get(dst) != before.get(dst):
                    ctx.violation("existing file '%s' overwritten without -f (and without a 'y' at a prompt): %s" % (dst, desc), dict(kind="monitor", invocation=args, env=inv))
                if nm in bad and mode == "d" and not stdout_ and dst not in exists and dst in after:
                    ctx.violation("failed decompression left '%s' behind: %s" % (dst, desc), dict(kind="monitor", invocation=args, env=inv))
                if mode == "d" and not stdout_ and nm not in bad and dst not in exists and not good_dst and not (len(inputs) > 1 and out):
                    ctx.violation("a valid input ('%s': the library decodes it) was not decompressed into '%s' in a run where another input failed: %s | %s" % (
                        nm, dst, desc, se.decode(errors="replace")[-200:]), dict(kind="monitor", invocation=args, env=inv))
                if mode == "t" and level >= 1 and nm not in bad and any(nm.encode() in ln and any(w_ in ln.lower() for w_ in (b"error", b"corrupt", b"doesn't match", b"premature", b"unsupported")) for ln in se.split(b"\n")):
                    ctx.violation("the test of a valid input ('%s': the library decodes it) reported an error: %s | %s" % (nm, desc, se.decode(errors="replace")[-300:]), dict(kind="monitor", invocation=args, env=inv))
                if nm in bad and not src_intact:
                    ctx.violation("source '%s' removed although its decompression failed: %s" % (nm, desc), dict(kind="monitor", invocation=args, env=inv))
            if (rc == 0) != ok_expected and not (len(inputs) > 1 and out):
                ctx.violation("exit status %d but the library's verdict / the environment says %s: %s | %s" % (rc, "success" if ok_expected else "failure", desc, se.decode(errors="replace")[-200:]), dict(kind="monitor", invocation=args, env=inv))
            # ---- tie: protocol skeleton ----
            if skel != model:
                k = next((j for j in range(max(len(skel), len(model))) if j >= len(skel) or j >= len(model) or skel[j] != model[j]), 0)
                ctx.violation("file-operation sequence differs from the protocol model at step %d: %s\n   code : %s\n   model: %s" % (k, desc, " ".join(skel), " ".join(model)), dict(kind="tie-protocol", invocation=args, env=inv, code=skel, model=model), no_input=True)
            else:
                skel_ok += 1
            if i < (10 if quick else 60) and mode != "t" and not stdout_ and not missing:
                kill_targets.append((args, before, mode, inputs, out, bad, exists, ow, content, names, dict(shared=False, stdin=stdin_bytes)))
            if mode == "d" and not stdout_ and not bad and not missing:
                # --sparse vs --no-sparse
                outs = []
                for flag in ("--sparse", "--no-sparse"):
                    r = subprocess.run([exe, "-q", "-d", "-c", flag] + inputs, cwd=d, stdout=subprocess.PIPE, stderr=subprocess.DEVNULL)
                    outs.append(r.stdout)
                d2 = os.path.join(d, "sp"); os.makedirs(d2, exist_ok=True)
                for nm in inputs:
                    if os.path.exists(os.path.join(d, nm)):
                        for flag in ("--sparse", "--no-sparse"):
                            tgt = os.path.join(d2, nm[:-4] + flag)
                            subprocess.run([exe, "-q", "-d", "-f", flag, nm, "-o", tgt], cwd=d, stdout=subprocess.DEVNULL, stderr=subprocess.DEVNULL)
                        a, b = open(os.path.join(d2, nm[:-4] + "--sparse"), "rb").read(), open(os.path.join(d2, nm[:-4] + "--no-sparse"), "rb").read()
                        if a != b or a != content[nm[:-4]]:
                            ctx.violation("--sparse and --no-sparse outputs differ (or differ from the original) for %s: %d / %d / %d bytes" % (nm, len(a), len(b), len(content[nm[:-4]])), dict(kind="monitor", file=nm, dir=d))
            shutil.rmtree(d, ignore_errors=True)
        samples.append(dict(op=inv, code=" ".join(skel), model=" ".join(model)))
        for j, fu in zip(big_jobs, big_fut):
            msg, cmd, machinery = fu.result()
            ev += 1; distinct.add("bigcli " + cmd)
            if msg is not None:
                ctx.violation("sparse output of a huge zero run: %s: %s" % (msg, cmd), dict(kind="monitor-bigsparse", invocation=cmd, segments=[s if isinstance(s, int) else s.hex() for s in j["segments"]]), no_input=machinery)
        big_pool.shutdown()
        # ---------------- (2b) several inputs into one destination (-o FILE): directed grid ----------------
        sh_jobs = shared_grid(rng, quick)
        from concurrent.futures import ThreadPoolExecutor as _TPE
        with _TPE(max_workers=8) as ex:
            sh_res = list(ex.map(lambda j: shared_one(exe, dec, root, j), sh_jobs))
        sh_equal = 0
        for j, r in zip(sh_jobs, sh_res):
            ev += 1; distinct.add(r["inv"])
            for msg, data, noinp in r["violations"]:
                ctx.violation(msg, data, no_input=noinp)
            sh_equal += r["equal"]
            if r["kill"] is not None and j["kill"]:
                kill_targets.append(r["kill"])
        samples.append(dict(op=sh_res[0]["inv"], code=sh_res[0]["code"], model=sh_res[0]["model"]))
        # ---- a write error on the output is a failed operation: non-zero exit status (single and concatenated inputs) ----
        d = os.path.join(root, "full"); os.makedirs(d)
        make_files(rng, d, ["a.dat", "b.dat"])
        open(os.path.join(d, "a.dat"), "wb").write(b"some text that does not vanish " * 300); open(os.path.join(d, "b.dat"), "wb").write(bytes(range(256)) * 20)
        subprocess.run([exe, "-q", "a.dat", "b.dat"], cwd=d, stdout=subprocess.DEVNULL, stderr=subprocess.DEVNULL)
        for args in (["-q", "-c", "a.dat"], ["-q", "-c", "a.dat", "b.dat"], ["-q", "-d", "-c", "a.dat.zst"], ["-q", "-d", "-c", "a.dat.zst", "b.dat.zst"], ["-q", "-f", "a.dat", "b.dat", "-o", "/dev/full"]):
            with open("/dev/full", "wb") as full:
                r = subprocess.run([exe] + args, cwd=d, stdout=full, stderr=subprocess.PIPE)
            ev += 1
            if r.returncode == 0:
                ctx.violation("output could not be written (device full) but the exit status is 0: zstd %s > /dev/full" % " ".join(args), dict(kind="monitor", invocation=args))
        # ---- the same on a regular file: a file-size limit makes write() fail in the middle of the output (EFBIG, the signal ignored); the failed
        #      operation must exit non-zero, keep the source, and leave no output file behind
        import resource, signal
        open(os.path.join(d, "big.dat"), "wb").write(bytes(rng.getrandbits(8) for _ in range(1 << 20)) * 3)
        subprocess.run([exe, "-q", "big.dat", "-o", "ok.zst"], cwd=d, stdout=subprocess.DEVNULL, stderr=subprocess.DEVNULL)
        def limited():
            signal.signal(signal.SIGXFSZ, signal.SIG_IGN); resource.setrlimit(resource.RLIMIT_FSIZE, (1 << 20, 1 << 20))
        for args, outn, srcn in ((["-q", "big.dat", "-o", "big.zst"], "big.zst", "big.dat"), (["-q", "-d", "ok.zst", "-o", "regen.dat"], "regen.dat", "ok.zst")):
            r = subprocess.run([exe] + args, cwd=d, stdout=subprocess.DEVNULL, stderr=subprocess.PIPE, preexec_fn=limited)
            ev += 1
            if r.returncode == 0:
                ctx.violation("output could not be written (file size limit) but the exit status is 0: zstd %s" % " ".join(args), dict(kind="monitor", invocation=args))
            if not os.path.exists(os.path.join(d, srcn)):
                ctx.violation("source removed although the output could not be written: zstd %s" % " ".join(args), dict(kind="monitor", invocation=args))
            if os.path.exists(os.path.join(d, outn)):
                ctx.violation("a failed operation (write error: file size limit of 1 MiB) left its partial output '%s' (%d bytes) behind: zstd %s | %s" % (
                    outn, os.path.getsize(os.path.join(d, outn)), " ".join(args), r.stderr.decode(errors="replace")[-160:]), dict(kind="monitor", invocation=args, rlimit_fsize=1 << 20),
                    key="C19-write-error-leaves-partial-output")
        shutil.rmtree(d, ignore_errors=True)
        # ---------------- (3) kill points ----------------
        kills = 0
        kill_runs = []
        for t, (args, before, mode, inputs, out, bad, exists, force, content, names, extra) in enumerate(kill_targets):
            # number of system calls of an undisturbed run
            d = os.path.join(root, "k%d" % t); os.makedirs(d)
            for nm, data in before.items():
                open(os.path.join(d, nm), "wb").write(data)
            r = subprocess.run(["strace", "-f", "-c", "-o", os.path.join(root, "cnt"), exe] + args, cwd=d, input=extra["stdin"], stdout=subprocess.DEVNULL, stderr=subprocess.DEVNULL)
            cnt = 0
            for l in open(os.path.join(root, "cnt")):
                m = re.match(r"\s*[\d.]+\s+[\d.]+\s+\d+\s+(\d+)\s+(?:\d+\s+)?total", l)
                if m:
                    cnt = int(m.group(1))
            shutil.rmtree(d, ignore_errors=True)
            ks = list(range(1, cnt + 1))
            if quick and len(ks) > 90:
                ks = ks[:20] + sorted(rng.sample(ks[20:], 70))
            for k in ks:
                kill_runs.append((t, k, rng.choice(["SIGKILL", "SIGKILL", "SIGINT"])))

        def kill_one(job):
            t, k, sig = job
            args, before, mode, inputs, out, bad, exists, force, content, names, extra = kill_targets[t]
            d = os.path.join(root, "kr%d_%d" % (t, k)); os.makedirs(d)
            for nm, data in before.items():
                open(os.path.join(d, nm), "wb").write(data)
            subprocess.run(["strace", "-f", "-o", "/dev/null", "-e", "trace=all", "-e", "inject=all:signal=%s:when=%d" % (sig, k), exe] + args, cwd=d, input=extra["stdin"], stdout=subprocess.DEVNULL, stderr=subprocess.DEVNULL, timeout=120)
            after = {nm: open(os.path.join(d, nm), "rb").read() for nm in os.listdir(d)}
            msgs = []
            for nm in inputs:
                dst = out or (nm + ".zst" if mode == "c" else nm[:-4])
                if nm not in before or after.get(nm) == before[nm]:
                    continue
                if extra["shared"]:
                    # several inputs into one output: that output can never stand for a source
                    msgs.append("%s at system call %d: '%s' gone although it was concatenated with other inputs into '%s' (which is not even closed yet): zstd %s" % (sig, k, nm, dst, " ".join(args)))
                    continue
                good = False
                if dst in after:
                    if mode == "c":
                        r = subprocess.run([exe, "-q", "-d", "-c", dst], cwd=d, stdout=subprocess.PIPE, stderr=subprocess.DEVNULL)
                        good = r.returncode == 0 and r.stdout == before[nm]
                    else:
                        good = after[dst] == content.get(dst if not out else names[0])
                if not good:
                    msgs.append("%s at system call %d: '%s' gone and '%s' does not hold its data: zstd %s" % (sig, k, nm, dst, " ".join(args)))
                if dst in exists and not force and after.get(dst) != before.get(dst):
                    msgs.append("%s at system call %d: existing '%s' modified without -f: zstd %s" % (sig, k, dst, " ".join(args)))
            shutil.rmtree(d, ignore_errors=True)
            return msgs
        from concurrent.futures import ThreadPoolExecutor
        with ThreadPoolExecutor(max_workers=16) as ex:
            for job, msgs in zip(kill_runs, ex.map(kill_one, kill_runs)):
                kills += 1
                for m in msgs[:1]:
                    ctx.violation("data lost at a kill point: " + m, dict(kind="monitor-kill", invocation=kill_targets[job[0]][0], kill_at=job[1], signal=job[2], files={k: len(v) for k, v in kill_targets[job[0]][1].items()}))
        ev += kills
    finally:
        shutil.rmtree(root, ignore_errors=True)
    return dict(evaluations=ev, distinct_nontrivial=len(distinct),
                rule="sparse lines (buffer sequences with zero runs at word / 32 KiB segment / buffer edges) + one evaluation per CLI invocation (protocol skeleton vs model + directory monitors) + one per kill point; distinct = distinct sparse lines and invocation descriptors",
                samples=samples[:5], invocations=ninv, skeletons_equal_to_model=skel_ok, huge_zero_run_lines=len(bl), huge_zero_run_cli_decompressions=len(big_jobs), shared_output_invocations=len(sh_jobs), shared_output_skeletons_equal=sh_equal, kill_points=kills, kill_targets=len(kill_targets))


def replay(ctx, data):
    if data.get("kind") == "tie-sparse":
        co, mo, rc, err = zv.differential(hx_sparse(), "cli", [data["op"]])
        return dict(violates=co != mo, code=co, model=mo)
    if data.get("kind") == "tie-sparsebig" and data.get("op", "-") != "-":
        co, mo, rc, err = zv.differential(hx_sparsebig(), "cli", [data["op"]])
        m = re.match(r"(size=(\d+) ops=\S*) misplaced=(\d+) nzin=(\d+) nzout=(\d+)$", co[0] if co else "")
        bad = m is None or m.group(1) != (mo[0] if mo else "") or int(m.group(2)) != big_total(data["op"]) or int(m.group(3)) != 0 or m.group(4) != m.group(5)
        return dict(violates=bad, code=co, model=mo)
    return dict(violates=True, note="re-run the check with the same VERIF_SEED: the invocation and its file set are derived from the seed", invocation=data.get("invocation"))
