"""C19 — the command-line tool.  (1) sparse writer: AIO_fwriteSparse / AIO_fwriteSparseEnd (fileio_asyncio.c #included, fwrite / seek wrapped) vs
Model/Sparse.lean on generated buffer sequences: same seek / write calls, same file; (2) file-operation protocol: the zstd binary built from the
current tree runs under strace on generated invocations x file sets; the normalised open / close / unlink / SIGINT-handler / exit skeleton must equal
Cli.program; directory monitors (recoverable, no clobber, no artefact, exit status = library verdict, --sparse == --no-sparse); (3) kill points: every
system call of selected runs is the point of a SIGKILL (and of a SIGINT): afterwards the source is intact or the destination complete."""
import os, re, shutil, subprocess, tempfile, hashlib
import build, zv, frames, clitrace

ASSUMPTIONS = ["data for which write() returned is durable: power loss and fsync semantics are outside the model; system-call ERRORS (ENOSPC ...) are outside the property's quantifier",
               "the invocation grammar is finite: compress / decompress / test x --rm x -f x -c x -o (one input) x 1-3 inputs x pre-existing / missing / corrupted files; other options are exercised by the pinned test suite only"]


def hx_sparse():
    return build.link("zvh_sparse", ["zvh_sparse.c"], "plain", extra=["-I" + os.path.join(build.REPO, "programs")])


def gen_buffers(rng):
    bufs = []
    for _ in range(rng.randint(1, 5)):
        n = rng.choice([0, 1, 7, 8, 9, 15, 16, 17, 64, 1000, 4095, 4096, 4097, 32767, 32768, 32769, 32776, 40000, 65536, 65543])
        b = bytearray(n)
        k = rng.random()
        if k < 0.25:
            pass                                                   # all zeros
        elif k < 0.5:
            for _ in range(rng.randint(1, 6)):                     # a few non-zero islands
                p = rng.randrange(max(1, n)); ln = rng.choice([1, 1, 3, 8, 200])
                for i in range(p, min(n, p + ln)):
                    b[i] = rng.randint(1, 255)
        elif k < 0.75:
            for i in range(n):
                b[i] = rng.randint(0, 255) if rng.random() < 0.5 else 0
            for p in (0, 32768, 32760, n - 8, n - 3, n - 1):       # zero runs around word / segment / buffer edges
                if 0 <= p < n and rng.random() < 0.7:
                    for i in range(p, min(n, p + rng.choice([1, 7, 8, 9, 16]))):
                        b[i] = 0
        else:
            for i in range(n):
                b[i] = rng.randint(1, 255)
            if n:
                tail = rng.choice([1, 2, 3, 7])                      # last partial word: <zeros><non-zero>
                for i in range(max(0, n - tail), n - 1):
                    b[i] = 0
        bufs.append(bytes(b))
    return bufs


def sh(b):
    return hashlib.sha256(b).hexdigest()


def make_files(rng, d, names):
    content = {}
    for nm in names:
        k = rng.random()
        n = rng.choice([0, 1, 100, 5000, 70000, 300000])
        if k < 0.3:
            data = bytes(n)                                          # zero runs: sparse territory
        elif k < 0.6:
            data = (b"the quick brown fox " * (n // 20 + 1))[:n]
        else:
            data = bytes(rng.getrandbits(8) if rng.random() < 0.3 else 0 for _ in range(n))
        if n >= 8 and rng.random() < 0.5:
            data = data[:-3] + b"\0\0\x07"
        with open(os.path.join(d, nm), "wb") as f:
            f.write(data)
        content[nm] = data
    return content


def correspondence(ctx):
    rng = ctx.rng
    quick = ctx.quick()
    ev, distinct, samples = 0, set(), []
    # ---------------- (1) sparse writer ----------------
    sl = []
    for i in range(150 if quick else 3000):
        sl.append("sparse " + " ".join((b.hex() or "-") for b in gen_buffers(rng)))
    co = frames.parallel(lambda ch: frames.run_lines(hx_sparse(), ch, timeout=900)[1], frames.split_chunks(sl, 16))

    def ml(ch):
        rc, out, err = zv.run([zv.driver_exe(), "cli"], "\n".join(ch) + "\n", timeout=1800)
        o = out.split("\n")
        return o[:-1] if o and o[-1] == "" else o
    mo = frames.parallel(ml, frames.split_chunks(sl, 16))
    for ln, a, b in zip(sl, co, mo):
        if a != b:
            sizes = [len(t) // 2 if t != "-" else 0 for t in ln.split()[1:]]
            total = sum(sizes)
            m = re.match(r"size=(-?\d+)", a)
            wrong_file = (m is None) or int(m.group(1)) != total
            ctx.violation("sparse writer and model disagree on buffers of sizes %s: code %s / model %s%s" % (sizes, a[:120], b[:120], " (the FILE does not hold the %d bytes written)" % total if wrong_file else ""),
                          dict(kind="tie-sparse", op=ln[:20000], code=a, model=b), no_input=not wrong_file)
            break
    ev += len(sl); distinct |= set(sl)
    samples.append(dict(op=sl[0][:100], code=co[0][:100] if co else "", model=mo[0][:100] if mo else ""))
    # ---------------- (2) protocol skeleton + directory monitors ----------------
    exe = build.cli_binary("plain")
    dec = frames.harness("plain")
    root = tempfile.mkdtemp(prefix="zvcli-", dir=os.path.join(build.CACHE))
    ninv = 60 if quick else 900
    skel_ok = 0
    kill_targets = []
    try:
        for i in range(ninv):
            d = os.path.join(root, "i%d" % i)
            os.makedirs(d)
            mode = rng.choice(["c", "c", "d", "d", "t"])
            names = ["f%d.dat" % k for k in range(rng.choice([1, 1, 2, 3]))]
            content = make_files(rng, d, names)
            force, rm, stdout_ = rng.random() < 0.3, rng.random() < 0.5, rng.random() < 0.15
            out = None
            missing, bad, exists = [], [], []
            inputs = list(names)
            if mode in ("d", "t"):
                subprocess.run([exe, "-q", "--no-progress"] + names, cwd=d, check=False, stdout=subprocess.DEVNULL, stderr=subprocess.DEVNULL)
                for nm in names:
                    os.unlink(os.path.join(d, nm))
                inputs = [nm + ".zst" for nm in names]
                for nm in inputs:
                    if rng.random() < 0.25:
                        p = os.path.join(d, nm)
                        b = bytearray(open(p, "rb").read())
                        if rng.random() < 0.5 and len(b) > 12:
                            b = b[:rng.randrange(5, len(b))]                    # truncated
                        elif len(b) > 8:
                            b[rng.randrange(6, len(b))] ^= 1 << rng.randrange(8)  # damaged
                        open(p, "wb").write(b)
            if len(inputs) == 1 and rng.random() < 0.2 and not stdout_ and mode != "t":
                out = "out.bin"
            if rng.random() < 0.2 and not out:
                inputs.insert(rng.randrange(len(inputs) + 1), "nothere.x" + (".zst" if mode != "c" else "")); missing.append(inputs[-1] if False else [x for x in inputs if x.startswith("nothere")][0])
            # pre-existing destinations
            for nm in inputs:
                if nm in missing:
                    continue
                dst = out or (nm + ".zst" if mode == "c" else nm[:-4])
                if mode != "t" and not stdout_ and rng.random() < 0.3:
                    if rng.random() < 0.35 and not os.path.lexists(os.path.join(d, dst)):
                        # the existing destination is a symbolic link to somebody's file
                        open(os.path.join(d, "precious-" + dst), "wb").write(b"precious content behind " + dst.encode())
                        os.symlink("precious-" + dst, os.path.join(d, dst))
                    elif not os.path.lexists(os.path.join(d, dst)):
                        open(os.path.join(d, dst), "wb").write(b"previous content of " + dst.encode())
                    if dst not in exists:
                        exists.append(dst)
            # library verdict for decompression inputs
            if mode in ("d", "t"):
                lines = ["dec 4000000 %s" % (open(os.path.join(d, nm), "rb").read().hex() or "-") for nm in inputs if nm not in missing]
                rc, vout, err = frames.run_lines(dec, lines)
                for nm, v in zip([x for x in inputs if x not in missing], vout):
                    if not v.startswith("ok"):
                        bad.append(nm)
            before = {nm: open(os.path.join(d, nm), "rb").read() for nm in os.listdir(d)}
            args = ["-q", "--no-progress"] + ({"c": [], "d": ["-d"], "t": ["-t"]}[mode]) + (["-f"] if force else []) + (["--rm"] if rm else []) + (["-c"] if stdout_ else []) + (["-o", out] if out else []) + inputs
            if "-c" in args and force:
                pass
            rc, so, se, txt = clitrace.run_traced(exe, args, d)
            ops, nsys = clitrace.normalise(txt, d)
            skel = [o for o in ops if not o.startswith(("read:", "write:", "seek:", "truncate:"))]
            skel = [re.sub(r"^exit:(\d+)$", r"exit:\1", o) for o in skel]
            inv = "cli mode=%s force=%d rm=%d stdout=%d out=%s files=%s exists=%s missing=%s bad=%s" % (mode, force, rm, stdout_, out or "-", ",".join(inputs), ",".join(exists) or "-", ",".join(missing) or "-", ",".join(bad) or "-")
            rcm, mout, merr = zv.run([zv.driver_exe(), "cli"], inv + "\n")
            model = mout.strip().split()
            after = {nm: open(os.path.join(d, nm), "rb").read() for nm in os.listdir(d)}
            ev += 1; distinct.add(inv)
            desc = "zstd %s   [%s]" % (" ".join(args), inv)
            # ---- monitors: the property on this run ----
            ok_expected = (not missing) and all(nm not in bad for nm in inputs) and not (mode != "t" and not stdout_ and not force and exists)
            for nm in inputs:
                if nm in missing:
                    continue
                dst = out or (nm + ".zst" if mode == "c" else nm[:-4])
                src_intact = after.get(nm) == before[nm]
                if mode == "c":
                    good_dst = False
                    if dst in after and (dst not in before or after[dst] != before[dst] or force):
                        r = subprocess.run([exe, "-q", "-d", "-c", dst], cwd=d, stdout=subprocess.PIPE, stderr=subprocess.DEVNULL)
                        good_dst = (r.returncode == 0 and r.stdout == before[nm])
                else:
                    good_dst = dst in after and nm not in bad and after[dst] == content.get(dst if not out else names[0], None)
                if not src_intact and not good_dst and not stdout_:
                    ctx.violation("user data lost: after the run neither '%s' is intact nor '%s' holds its data: %s" % (nm, dst, desc), dict(kind="monitor", invocation=args, env=inv))
                if mode != "t" and not stdout_ and dst in exists and not force and after.get(dst) != before.get(dst):
                    ctx.violation("existing file '%s' overwritten without -f: %s" % (dst, desc), dict(kind="monitor", invocation=args, env=inv))
                if nm in bad and mode == "d" and not stdout_ and dst not in exists and dst in after:
                    ctx.violation("failed decompression left '%s' behind: %s" % (dst, desc), dict(kind="monitor", invocation=args, env=inv))
                if nm in bad and not src_intact:
                    ctx.violation("source '%s' removed although its decompression failed: %s" % (nm, desc), dict(kind="monitor", invocation=args, env=inv))
            if (rc == 0) != ok_expected and not (len(inputs) > 1 and out):
                ctx.violation("exit status %d but the library's verdict / the environment says %s: %s | %s" % (rc, "success" if ok_expected else "failure", desc, se.decode(errors="replace")[-200:]), dict(kind="monitor", invocation=args, env=inv))
            # ---- tie: protocol skeleton ----
            if skel != model:
                k = next((j for j in range(max(len(skel), len(model))) if j >= len(skel) or j >= len(model) or skel[j] != model[j]), 0)
                ctx.violation("file-operation sequence differs from the protocol model at step %d: %s\n   code : %s\n   model: %s" % (k, desc, " ".join(skel), " ".join(model)), dict(kind="tie-protocol", invocation=args, env=inv, code=skel, model=model), no_input=True)
            else:
                skel_ok += 1
            if i < (10 if quick else 60) and mode != "t" and not stdout_ and not missing:
                kill_targets.append((args, before, mode, inputs, out, bad, exists, force, content, names))
            if mode == "d" and not stdout_ and not bad and not missing:
                # --sparse vs --no-sparse
                outs = []
                for flag in ("--sparse", "--no-sparse"):
                    r = subprocess.run([exe, "-q", "-d", "-c", flag] + inputs, cwd=d, stdout=subprocess.PIPE, stderr=subprocess.DEVNULL)
                    outs.append(r.stdout)
                d2 = os.path.join(d, "sp"); os.makedirs(d2, exist_ok=True)
                for nm in inputs:
                    if os.path.exists(os.path.join(d, nm)):
                        for flag in ("--sparse", "--no-sparse"):
                            tgt = os.path.join(d2, nm[:-4] + flag)
                            subprocess.run([exe, "-q", "-d", "-f", flag, nm, "-o", tgt], cwd=d, stdout=subprocess.DEVNULL, stderr=subprocess.DEVNULL)
                        a, b = open(os.path.join(d2, nm[:-4] + "--sparse"), "rb").read(), open(os.path.join(d2, nm[:-4] + "--no-sparse"), "rb").read()
                        if a != b or a != content[nm[:-4]]:
                            ctx.violation("--sparse and --no-sparse outputs differ (or differ from the original) for %s: %d / %d / %d bytes" % (nm, len(a), len(b), len(content[nm[:-4]])), dict(kind="monitor", file=nm, dir=d))
            shutil.rmtree(d, ignore_errors=True)
        samples.append(dict(op=inv, code=" ".join(skel), model=" ".join(model)))
        # ---- a write error on the output is a failed operation: non-zero exit status (single and concatenated inputs) ----
        d = os.path.join(root, "full"); os.makedirs(d)
        make_files(rng, d, ["a.dat", "b.dat"])
        open(os.path.join(d, "a.dat"), "wb").write(b"some text that does not vanish " * 300); open(os.path.join(d, "b.dat"), "wb").write(bytes(range(256)) * 20)
        subprocess.run([exe, "-q", "a.dat", "b.dat"], cwd=d, stdout=subprocess.DEVNULL, stderr=subprocess.DEVNULL)
        for args in (["-q", "-c", "a.dat"], ["-q", "-c", "a.dat", "b.dat"], ["-q", "-d", "-c", "a.dat.zst"], ["-q", "-d", "-c", "a.dat.zst", "b.dat.zst"], ["-q", "-f", "a.dat", "b.dat", "-o", "/dev/full"]):
            with open("/dev/full", "wb") as full:
                r = subprocess.run([exe] + args, cwd=d, stdout=full, stderr=subprocess.PIPE)
            ev += 1
            if r.returncode == 0:
                ctx.violation("output could not be written (device full) but the exit status is 0: zstd %s > /dev/full" % " ".join(args), dict(kind="monitor", invocation=args))
        shutil.rmtree(d, ignore_errors=True)
        # ---------------- (3) kill points ----------------
        kills = 0
        kill_runs = []
        for t, (args, before, mode, inputs, out, bad, exists, force, content, names) in enumerate(kill_targets):
            # number of system calls of an undisturbed run
            d = os.path.join(root, "k%d" % t); os.makedirs(d)
            for nm, data in before.items():
                open(os.path.join(d, nm), "wb").write(data)
            r = subprocess.run(["strace", "-f", "-c", "-o", os.path.join(root, "cnt"), exe] + args, cwd=d, stdout=subprocess.DEVNULL, stderr=subprocess.DEVNULL)
            cnt = 0
            for l in open(os.path.join(root, "cnt")):
                m = re.match(r"\s*[\d.]+\s+[\d.]+\s+\d+\s+(\d+)\s+(?:\d+\s+)?total", l)
                if m:
                    cnt = int(m.group(1))
            shutil.rmtree(d, ignore_errors=True)
            ks = list(range(1, cnt + 1))
            if quick and len(ks) > 90:
                ks = ks[:20] + sorted(rng.sample(ks[20:], 70))
            for k in ks:
                kill_runs.append((t, k, rng.choice(["SIGKILL", "SIGKILL", "SIGINT"])))

        def kill_one(job):
            t, k, sig = job
            args, before, mode, inputs, out, bad, exists, force, content, names = kill_targets[t]
            d = os.path.join(root, "kr%d_%d" % (t, k)); os.makedirs(d)
            for nm, data in before.items():
                open(os.path.join(d, nm), "wb").write(data)
            subprocess.run(["strace", "-f", "-o", "/dev/null", "-e", "trace=all", "-e", "inject=all:signal=%s:when=%d" % (sig, k), exe] + args, cwd=d, stdout=subprocess.DEVNULL, stderr=subprocess.DEVNULL, timeout=120)
            after = {nm: open(os.path.join(d, nm), "rb").read() for nm in os.listdir(d)}
            msgs = []
            for nm in inputs:
                dst = out or (nm + ".zst" if mode == "c" else nm[:-4])
                if after.get(nm) == before[nm]:
                    continue
                good = False
                if dst in after:
                    if mode == "c":
                        r = subprocess.run([exe, "-q", "-d", "-c", dst], cwd=d, stdout=subprocess.PIPE, stderr=subprocess.DEVNULL)
                        good = r.returncode == 0 and r.stdout == before[nm]
                    else:
                        good = after[dst] == content.get(dst if not out else names[0])
                if not good:
                    msgs.append("%s at system call %d: '%s' gone and '%s' does not hold its data: zstd %s" % (sig, k, nm, dst, " ".join(args)))
                if dst in exists and not force and after.get(dst) != before.get(dst):
                    msgs.append("%s at system call %d: existing '%s' modified without -f: zstd %s" % (sig, k, dst, " ".join(args)))
            shutil.rmtree(d, ignore_errors=True)
            return msgs
        from concurrent.futures import ThreadPoolExecutor
        with ThreadPoolExecutor(max_workers=16) as ex:
            for job, msgs in zip(kill_runs, ex.map(kill_one, kill_runs)):
                kills += 1
                for m in msgs[:1]:
                    ctx.violation("data lost at a kill point: " + m, dict(kind="monitor-kill", invocation=kill_targets[job[0]][0], kill_at=job[1], signal=job[2], files={k: len(v) for k, v in kill_targets[job[0]][1].items()}))
        ev += kills
    finally:
        shutil.rmtree(root, ignore_errors=True)
    return dict(evaluations=ev, distinct_nontrivial=len(distinct),
                rule="sparse lines (buffer sequences with zero runs at word / 32 KiB segment / buffer edges) + one evaluation per CLI invocation (protocol skeleton vs model + directory monitors) + one per kill point; distinct = distinct sparse lines and invocation descriptors",
                samples=samples[:3], invocations=ninv, skeletons_equal_to_model=skel_ok, kill_points=kills, kill_targets=len(kill_targets))


def replay(ctx, data):
    if data.get("kind") == "tie-sparse":
        co, mo, rc, err = zv.differential(hx_sparse(), "cli", [data["op"]])
        return dict(violates=co != mo, code=co, model=mo)
    return dict(violates=True, note="re-run the check with the same VERIF_SEED: the invocation and its file set are derived from the seed", invocation=data.get("invocation"))
