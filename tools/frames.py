"""shared generation of (api, parameter vector, input, dictionary) cases and frames for C01/C05/C06/C09/C03/C04."""
import os, random
import build, zv, datagen

P = dict(level=100, windowLog=101, hashLog=102, chainLog=103, searchLog=104, minMatch=105, targetLength=106, strategy=107,
         targetCBlockSize=130, ldm=160, ldmHashLog=161, ldmMinMatch=162, ldmBucketSizeLog=163, ldmHashRateLog=164,
         contentSize=200, checksum=201, dictID=202, nbWorkers=400, jobSize=401, overlapLog=402, rsyncable=500, fmt=10,
         forceMaxWindow=1000, forceAttachDict=1001, litMode=1002, srcSizeHint=1004, dedicatedDictSearch=1005,
         blockSplitter=1010, rowMatchFinder=1011, detRefPrefix=1012, maxBlockSize=1015)


def harness(variant="plain"):
    return build.link("zvh_dec", ["zvh_dec.c"], variant)


def param_vector(rng, quick=True, allow_fmt=True):
    p = {}
    k = rng.random()
    if k < 0.25:
        return {P["level"]: rng.choice([1, 3, 3, 5, 7, 9])}
    lv = rng.choice([-5, -1, 1, 1, 2, 3, 3, 4, 5, 6, 7, 8, 9, 10, 12, 13, 15, 16, 17, 18, 19, 19] + ([] if quick else [20, 21, 22]))
    p[P["level"]] = lv
    if rng.random() < 0.4: p[P["strategy"]] = rng.randint(1, 9)
    if rng.random() < 0.5: p[P["windowLog"]] = rng.choice([10, 10, 11, 12, 13, 14, 15, 16, 17, 18, 19, 20])
    if rng.random() < 0.3: p[P["hashLog"]] = rng.randint(6, 18)
    if rng.random() < 0.3: p[P["chainLog"]] = rng.randint(6, 18)
    if rng.random() < 0.3: p[P["searchLog"]] = rng.randint(1, 6)
    if rng.random() < 0.3: p[P["minMatch"]] = rng.randint(3, 7)
    if rng.random() < 0.2: p[P["targetLength"]] = rng.choice([0, 1, 8, 64, 999, 4096])
    if rng.random() < 0.25:
        p[P["ldm"]] = 1
        if rng.random() < 0.5: p[P["ldmHashLog"]] = rng.randint(6, 18)
        if rng.random() < 0.5: p[P["ldmMinMatch"]] = rng.choice([4, 16, 64, 128])
        if rng.random() < 0.3: p[P["ldmBucketSizeLog"]] = rng.randint(1, 6)
        if rng.random() < 0.3: p[P["ldmHashRateLog"]] = rng.randint(0, 7)
    if rng.random() < 0.25: p[P["blockSplitter"]] = rng.randint(0, 2)
    if rng.random() < 0.2: p[P["rowMatchFinder"]] = rng.randint(0, 2)
    if rng.random() < 0.2: p[P["targetCBlockSize"]] = rng.choice([1340, 2000, 4096, 30000])
    if rng.random() < 0.2: p[P["maxBlockSize"]] = rng.choice([1024, 2048, 4096, 65536, 131072])
    if rng.random() < 0.2: p[P["litMode"]] = rng.randint(0, 2)
    if rng.random() < 0.4: p[P["checksum"]] = 1
    if rng.random() < 0.2: p[P["contentSize"]] = 0
    if allow_fmt and rng.random() < 0.06: p[P["fmt"]] = 1
    return p


def pstr(p):
    return ",".join("%d=%d" % kv for kv in sorted(p.items())) or "-"


def hx(b):
    return b.hex() or "-"


def run_lines(exe, lines, timeout=900):
    rc, out, err = zv.run([exe], "\n".join(lines) + "\n", timeout=timeout)
    o = out.split("\n")
    if o and o[-1] == "":
        o = o[:-1]
    return rc, o, err


def run_lines_exact(exe, lines, timeout=900, missing="err no-answer"):
    """like run_lines(...)[1], but always len(lines) answers, each belonging to its line: when the harness dies or runs into the time limit in the
    middle, the line it was working on is answered `<missing> rc=<exit status>` and the remaining lines are given to a new process (answers that
    silently shift by one line pair every later frame with the wrong input)"""
    res, rest = [], list(lines)
    while rest:
        rc, out, err = zv.run([exe], "\n".join(rest) + "\n", timeout=timeout)
        o = out.split("\n")
        o = o[:-1]                      # what follows the last newline is empty or an unfinished answer
        if len(o) >= len(rest):
            res += o[:len(rest)]
            break
        res += o
        res.append("%s rc=%s" % (missing, rc))
        rest = rest[len(o) + 1:]
    return res


def model_lines(lines, timeout=1800):
    rc, out, err = zv.run([zv.driver_exe(), "dec"], "\n".join(lines) + "\n", timeout=timeout)
    if rc != 0:
        raise RuntimeError("lean driver dec failed: " + err[-500:])
    o = out.split("\n")
    if o and o[-1] == "":
        o = o[:-1]
    return o


def split_chunks(lst, n):
    k = max(1, (len(lst) + n - 1) // n)
    return [lst[i:i + k] for i in range(0, len(lst), k)]


def parallel(fn, chunks):
    from concurrent.futures import ThreadPoolExecutor
    with ThreadPoolExecutor(max_workers=min(16, max(1, len(chunks)))) as ex:
        res = list(ex.map(fn, chunks))
    out = []
    for r in res:
        out += r
    return out
