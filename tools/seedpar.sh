#!/bin/bash
# usage: tools/seedpar.sh [-j N] <seed-id ...>   — test seeded changes in parallel WITHOUT touching /repo or /verif's caches:
# per seed a private copy of /verif (build cache + lake output included) and a scratch worktree of /repo's HEAD with the patch applied;
# the property's quick check runs in the copy against that worktree (ZV_REPO).  One line per seed: DETECTED / MISSED.
J=3; if [ "$1" = "-j" ]; then J=$2; shift 2; fi
V=$(cd "$(dirname "$0")/.." && pwd)
one() {
  id=$1; prop=${id%%-*}; d=/tmp/sv/$id
  rm -rf $d; mkdir -p $d
  git -C /repo worktree remove --force $d/repo 2>/dev/null
  git -C /repo worktree add --detach -q $d/repo HEAD || { echo "$id WORKTREE-FAILED"; return; }
  git -C $d/repo apply $V/seeded/$id/patch.diff 2>/dev/null || { echo "$id APPLY-FAILED"; git -C /repo worktree remove --force $d/repo; rm -rf $d; return; }
  rsync -a --exclude .git --exclude replays $V/ $d/verif/
  out=$(cd $d/verif && ZV_REPO=$d/repo VERIF_SEED=${VERIF_SEED:-1} timeout 3000 python3 tools/check.py $prop --tier quick 2>&1); rc=$?
  nv=$(echo "$out" | grep -c '^VIOLATION'); nf=$(echo "$out" | grep '^VIOLATION' | grep -c 'no-failing-input-found')
  first=$(echo "$out" | grep -m1 '^  ->' | cut -c1-240)
  if [ $rc -ne 0 ] && [ "$nv" -gt 0 ]; then echo "$id DETECTED violations=$nv without-input=$nf :: $first"; else echo "$id MISSED rc=$rc :: $(echo "$out" | tail -1 | cut -c1-160)"; fi
  git -C /repo worktree remove --force $d/repo; rm -rf $d
}
export -f one; export V
printf '%s\n' "$@" | xargs -P $J -I{} bash -c 'one {}'
