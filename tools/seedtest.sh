#!/bin/bash
# usage: seedtest.sh <patch> <prop> [tier]   — apply a seeded change to /repo, run the check, undo.
set -u
patch=$1; prop=$2; tier=${3:-quick}
cd /repo || exit 2
if ! git diff --quiet; then echo "/repo dirty"; exit 2; fi
if [ "${REVERSE:-0}" = 1 ]; then git apply -R "$patch" || exit 2; else git apply "$patch" || exit 2; fi
cd /verif
cp evidence/$prop.json /tmp/ev_$prop.bak 2>/dev/null
python3 tools/check.py $prop --tier $tier 2>&1 | tail -${TAIL:-6}
rc=${PIPESTATUS[0]}
cp /tmp/ev_$prop.bak evidence/$prop.json 2>/dev/null
git -C /repo checkout -- .
echo "== exit $rc"
