"""Structurally valid dictionaries with unusual entropy tables (C08 / C18): a Python port of FSE_writeNCount, direct Huffman weights,
random normalised distributions with zero / low-probability (-1) entries, extreme table logs, odd repeat offsets."""
import random

MAGIC = 0xEC30A437
MaxLL, MaxML, MaxOff = 35, 52, 31
LLFSELog, MLFSELog, OffFSELog = 9, 9, 8


def write_ncount(norm, table_log):
    """FSE_writeNCount (fse_compress.c) for norm[0..alphabetSize) with sum(|n|) == 1<<table_log"""
    out = bytearray()
    table_size = 1 << table_log
    bit_stream = (table_log - 5)
    bit_count = 4
    remaining = table_size + 1
    threshold = table_size
    nb_bits = table_log + 1
    symbol = 0
    alphabet = len(norm)
    prev0 = False

    def flush16():
        nonlocal bit_stream, bit_count
        out.append(bit_stream & 0xFF); out.append((bit_stream >> 8) & 0xFF)
        bit_stream >>= 16
    while symbol < alphabet and remaining > 1:
        if prev0:
            start = symbol
            while symbol < alphabet and norm[symbol] == 0:
                symbol += 1
            if symbol == alphabet:
                break
            while symbol >= start + 24:
                start += 24
                bit_stream += 0xFFFF << bit_count
                flush16()
            while symbol >= start + 3:
                start += 3
                bit_stream += 3 << bit_count
                bit_count += 2
            bit_stream += (symbol - start) << bit_count
            bit_count += 2
            if bit_count > 16:
                flush16(); bit_count -= 16
        count = norm[symbol]; symbol += 1
        mx = (2 * threshold - 1) - remaining
        remaining -= abs(count)
        count += 1
        if count >= threshold:
            count += mx
        bit_stream += count << bit_count
        bit_count += nb_bits
        if count < mx:
            bit_count -= 1
        prev0 = (count == 1)
        if remaining < 1:
            raise ValueError("bad distribution")
        while remaining < threshold:
            nb_bits -= 1; threshold >>= 1
        if bit_count > 16:
            flush16(); bit_count -= 16
    if remaining != 1:
        raise ValueError("incorrect normalized distribution")
    tail = bytes([bit_stream & 0xFF, (bit_stream >> 8) & 0xFF])
    out += tail[:(bit_count + 7) // 8]
    return bytes(out)


def rand_norm(rng, max_sym, table_log, zeros=(), force=(), low=0.15):
    """random normalised counts over symbols 0..max_sym summing (in absolute value) to 1<<table_log; symbols in `zeros` get 0, in `force` > 0;
    the last symbol is always present (FSE_readNCount cannot end on zeros)"""
    n = max_sym + 1
    present = [s for s in range(n) if s not in zeros and (s in force or s == max_sym or rng.random() < 0.8)]
    size = 1 << table_log
    if len(present) > size:
        present = sorted(set(list(force) + [max_sym] + rng.sample(present, size - len(force) - 1)))[:size]
    norm = [0] * n
    budget = size
    for s in present:
        norm[s] = 1; budget -= 1
    # low-probability markers
    for s in present:
        if rng.random() < low:
            norm[s] = -1
    pos = [s for s in present if norm[s] > 0]
    if not pos:
        norm[present[0]] = 1; pos = [present[0]]
    while budget > 0:       # terminates: every round spends at least one unit
        s = rng.choice(pos)
        k = min(budget, rng.choice([1, 1, 2, 5, 17, budget]))
        norm[s] += k; budget -= k
    assert sum(abs(x) for x in norm) == size
    return norm


def huf_weights(rng, nsym, max_log=11):
    """direct (4-bit) Huffman weight header for symbols 0..nsym-2 plus the implied last one; the table log follows from the weights.
    Bounded retries; falls back to a flat table."""
    assert 2 <= nsym <= 129
    for _attempt in range(200):
        ws = [rng.choice([0, 0, 1, 1, 2, 3, rng.randint(0, max_log - 1)]) for _ in range(nsym - 1)]
        total = sum((1 << w) >> 1 for w in ws)
        if total == 0:
            continue
        size = 1 << total.bit_length()          # smallest power of two > total
        rest = size - total
        need = rest - (1 << (rest.bit_length() - 1))
        idx = [i for i, w in enumerate(ws) if w == 0]
        if need:
            if len(idx) < need:
                continue
            for i in rng.sample(idx, need):
                ws[i] = 1
            total += need
            rest = size - total
        if rest <= 0 or rest & (rest - 1):
            continue
        table_log = size.bit_length() - 1
        if table_log > max_log or max(ws) > table_log:
            continue
        last = rest.bit_length()
        r1 = sum(1 for w in ws if w == 1) + (1 if last == 1 else 0)
        if r1 < 2 or r1 % 2:
            continue
        break
    else:
        ws = [1] * (nsym - 1) if nsym % 2 == 0 else [1] * (nsym - 2) + [2]
        # flat fallback: nsym-1 explicit weight-1 symbols; make the total + implied a power of two by brute force
        for k in range(1, 129):
            ws = [1] * k
            total = k; size = 1 << total.bit_length(); rest = size - total
            if rest & (rest - 1) == 0 and (k + (1 if rest == 1 else 0)) % 2 == 0 and k + (1 if rest == 1 else 0) >= 2:
                break
    hdr = bytearray([127 + len(ws)])
    for i in range(0, len(ws), 2):
        hdr.append((ws[i] << 4) | (ws[i + 1] if i + 1 < len(ws) else 0))
    return bytes(hdr), ws


def build(rng, content, dict_id=None, of_zero=(), of_force=(), ll_zero=(), ml_zero=(), reps=None, logs=None, huf_syms=None, of_max=None):
    dict_id = dict_id if dict_id is not None else rng.randint(32768, (1 << 31) - 1)
    logs = logs or (rng.randint(5, OffFSELog), rng.randint(5, MLFSELog), rng.randint(5, LLFSELog))
    hdr, _ = huf_weights(rng, huf_syms or rng.choice([2, 3, 40, 96, 128, 129]))
    of_max = of_max if of_max is not None else rng.choice([MaxOff, MaxOff, 20, 24, 28])
    of_max = max([of_max] + list(of_force))
    ofn = rand_norm(rng, of_max, logs[0], zeros=of_zero, force=of_force)
    ml_max = rng.choice([MaxML, MaxML, MaxML, 30])
    mln = rand_norm(rng, ml_max, logs[1], zeros=ml_zero)
    ll_max = rng.choice([MaxLL, MaxLL, MaxLL, 20])
    lln = rand_norm(rng, ll_max, logs[2], zeros=ll_zero)
    n = len(content)
    reps = reps or [rng.choice([1, 4, 8, max(1, n), max(1, n // 2), rng.randint(1, max(1, n))]) for _ in range(3)]
    out = bytearray(MAGIC.to_bytes(4, "little")) + dict_id.to_bytes(4, "little") + hdr
    out += write_ncount(ofn, logs[0]) + write_ncount(mln, logs[1]) + write_ncount(lln, logs[2])
    for r in reps:
        out += (r & 0xFFFFFFFF).to_bytes(4, "little")
    out += content
    return bytes(out), dict(id=dict_id, ofn=ofn, mln=mln, lln=lln, reps=reps, logs=logs, content=n)


def build_exact_of(rng, content, **kw):
    """dictionary whose offset-code table describes exactly the codes 0..highbit(len(content)+128 KiB), all with a non-zero
    probability: the compressor may mark it directly reusable ('valid') - for the first block only, later blocks can need larger codes"""
    m = (len(content) + 131072).bit_length() - 1
    logs = kw.pop("logs", None) or (rng.randint(6, OffFSELog), rng.randint(5, MLFSELog), rng.randint(5, LLFSELog))
    return build(rng, content, of_max=m, of_force=tuple(range(m + 1)), logs=logs, **kw)
