"""strace of the zstd CLI -> normalised file-operation sequence (C19).
Ops (paths relative to the work dir): open:R:<p> open:W:<p> (O_CREAT|O_TRUNC) | close:<p> | read:<p>:<n> (n>0 merged) | write:<p>:<n> (merged) | seek:<p>:<n> (hole, merged)
| unlink:<p> | sigint:on | sigint:off | exit:<code> | killed"""
import os, re, subprocess

CALL = re.compile(r"^(\d+)\s+(\w+)\((.*)\)\s+=\s+(-?\d+|\?)(.*)$")


def run_traced(exe, args, cwd, inject=None, stdin=None, timeout=120, input=None):
    tr = os.path.join(cwd, ".trace")
    cmd = ["strace", "-f", "-o", tr, "-e", "trace=openat,open,close,read,pread64,write,pwrite64,lseek,unlink,unlinkat,rename,renameat,rt_sigaction,exit_group,ftruncate,dup,dup2,dup3"]
    if inject:
        cmd += ["-e", inject]
    cmd += [exe] + args
    try:
        if input is not None:       # what the tool reads when it asks a question ("y\n" ... / nothing: end of file)
            p = subprocess.run(cmd, cwd=cwd, input=input, stdout=subprocess.PIPE, stderr=subprocess.PIPE, timeout=timeout)
        else:
            p = subprocess.run(cmd, cwd=cwd, stdin=stdin, stdout=subprocess.PIPE, stderr=subprocess.PIPE, timeout=timeout)
        rc, out, err = p.returncode, p.stdout, p.stderr
    except subprocess.TimeoutExpired as e:
        rc, out, err = -999, e.stdout or b"", e.stderr or b""
    txt = open(tr, errors="replace").read() if os.path.exists(tr) else ""
    if os.path.exists(tr):
        os.unlink(tr)
    return rc, out, err, txt


def normalise(txt, cwd):
    fds = {}          # (pid-agnostic) fd -> relative path
    ops = []
    nsys = 0

    def rel(p):
        p = os.path.normpath(os.path.join(cwd, p))
        return os.path.relpath(p, cwd) if p.startswith(cwd + os.sep) else None

    def push(kind, p, n=None):
        if n is not None and ops and ops[-1][0] == kind and ops[-1][1] == p:
            ops[-1][2] += n
        else:
            ops.append([kind, p, n])
    pending = {}
    merged = []
    for line in txt.split("\n"):
        mu = re.match(r"^(\d+)\s+(.*)<unfinished \.\.\.>\s*$", line)
        if mu:
            pending[mu.group(1)] = mu.group(2)
            continue
        mr = re.match(r"^(\d+)\s+<\.\.\. \w+ resumed>(.*)$", line)
        if mr and mr.group(1) in pending:
            merged.append("%s %s%s" % (mr.group(1), pending.pop(mr.group(1)), mr.group(2)))
            continue
        merged.append(line)
    for line in merged:
        m = CALL.match(line)
        if not m:
            if "+++ killed by" in line:
                ops.append(["killed", None, None])
            continue
        nsys += 1
        pid, name, args, ret, rest = m.groups()
        if name in ("openat", "open"):
            pm = re.search(r'"((?:[^"\\]|\\.)*)"', args)
            if not pm or ret in ("?",) or int(ret) < 0:
                continue
            p = rel(pm.group(1))
            if p is None:
                continue
            fds[int(ret)] = p
            mode = "W" if ("O_WRONLY" in args or "O_RDWR" in args) else "R"
            ops.append(["open", "%s:%s" % (mode, p) + (":trunc" if "O_TRUNC" in args else ""), None])
        elif name == "close":
            fd = int(args.split(",")[0]) if args.split(",")[0].strip().isdigit() else -1
            if fd in fds:
                ops.append(["close", fds.pop(fd), None])
        elif name in ("read", "pread64", "write", "pwrite64"):
            fd = int(args.split(",")[0]) if args.split(",")[0].strip().isdigit() else -1
            if fd in fds and ret != "?" and int(ret) > 0:
                push("read" if name.startswith(("read", "pread")) else "write", fds[fd], int(ret))
        elif name == "lseek":
            fd = int(args.split(",")[0]) if args.split(",")[0].strip().isdigit() else -1
            if fd in fds and "SEEK_CUR" in args:
                off = int(args.split(",")[1])
                if off:
                    push("seek", fds[fd], off)
        elif name == "ftruncate":
            fd = int(args.split(",")[0]) if args.split(",")[0].strip().isdigit() else -1
            if fd in fds:
                ops.append(["truncate", fds[fd], None])
        elif name in ("unlink", "unlinkat"):
            pm = re.search(r'"((?:[^"\\]|\\.)*)"', args)
            if pm and ret == "0":
                p = rel(pm.group(1))
                if p is not None:
                    ops.append(["unlink", p, None])
        elif name in ("rename", "renameat"):
            ops.append(["rename", args[:80], None])
        elif name == "rt_sigaction" and args.startswith("SIGINT"):
            ops.append(["sigint", "off" if "sa_handler=SIG_DFL" in args.split("}")[0] else "on", None])
        elif name == "exit_group":
            ops.append(["exit", args.strip(), None])
    out = []
    for k, p, n in ops:
        out.append(k if p is None else ("%s:%s" % (k, p) + ("" if n is None else ":%d" % n)))
    return out, nsys
