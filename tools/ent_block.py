"""Differential tie of the compressed-block / frame WRITER model (lean/ZstdVerif/Model/BlockEnc.lean: serializeFrame2; theorems
block_roundtrip / frame_roundtrip_compressed in Lemmas/BlockRT.lean) to the REAL zstd decoder.

The match finder is an oracle for the model: this file plays that oracle.  It generates random inputs x together with random VALID
parses (tilings of x by raw / RLE / compressed blocks; a compressed block = literal runs + matches against anything earlier in x,
overlapping matches and repeated offsets included), and the entropy decisions (raw / RLE / Huffman literals with a new table, its tree
description direct (`h`) or as the whole of HUF_writeCTable_wksp writes it, FSE-compressed when that is smaller (`f`) / TREELESS
literals = Huffman with the table of the last earlier block of the frame that wrote one (litmode `t`; this file only asks for it when
every literal of the block occurs among the literals of that earlier block, i.e. has a code in its table; the driver checks the same on
the actual table and reports in `lit=` what was written); per sequence table LL / OF /
ML: predefined | RLE | FSE-described with normalised counts made here from the code histogram of the block (`normalise`) | repeat of the
table of the previous block with sequences, whatever that one was: FSE-described, RLE, predefined or itself a repeat, with raw / RLE
blocks and compressed blocks without sequences in between).
Model side (`zvdriver blockenc`, lean/Driver/BlockEnc.lean): op `cframe <windowLog> <checksum> <blocks spec> <hex x>` -> the frame
bytes of `serializeFrame2`, plus the decoder model on them (rt=ok), plus the spreading side conditions of the round-trip theorems on
every FSE-described table (`fse=<n> spreadOK=true spreadEncEqDec=true`), plus the type of every literals section written (`lit=hrt..`).
Comparisons: (1) the decoder model regenerates x from the model's frame (rt=ok); (2) THE MODEL'S frame, handed to the real
ZSTD_decompressDCtx (harness/zvh_dec.c `dec`) with exactly len(x) bytes of room, regenerates x (size and XXH64 equal to `xxh x`);
(3) spreadOK / spreadEncEqDec are true; (4) the fixed cases get the literals sections they were built for (`lit=`), and the run as a
whole does write treeless sections.

Dictionaries (`run_dict`, also run by tools/props/c08.py): op `cframed <windowLog> <checksum> <blocks spec> <hex x> <hex dictionary>` ->
the frame of `DictEnc.serializeFrameDictTables` (theorem Props.C08.dict_tables_roundtrip): the block loop starts from the dictionary's repeat
offsets, its three sequence tables and its Huffman table, so `p` in the first block with sequences is set_repeat of the DICTIONARY's
table and `t` in the first compressed block is treeless on the DICTIONARY's Huffman table.  `gen_case_dict` makes the parse first and then
a formatted dictionary for it (tables covering the codes of the first blocks, a Huffman table covering the first literals; sometimes
unrelated ones, sometimes a raw-content dictionary).  Comparisons: decoder model with the dictionary loaded by the loader model
(rt=ok), the REAL ZSTD_decompress_usingDict (harness `dec <cap> <hex> <dict-hex>`) on the model's frame regenerates x, the
dictionary's tables satisfy the table hypothesis of the theorem (dtab=true); the run must reach both kinds of repetition; negative
case: set_repeat in the first block with a raw-content dictionary is refused by both.

Blocks spec (see lean/Driver/BlockEnc.lean): blocks separated by `;`:  r<n> | e<n> | c<litmode>:<LL OF ML modes>:<ll:ml:off,...>:<tail>,
modes = three letters out of b r p, or three descriptors `b` | `r` | `p` | `f<tableLog>,<c0>,<c1>,...` separated by `/`.

Validity of a parse, beyond ml >= 3 and 1 <= offset <= position: the body of a compressed block must not exceed the decoder's block
size limit min(windowSize, 128 KiB).  Since the frames carry the content size and 2^windowLog >= len(x), ZSTD_writeFrameHeader picks the
single-segment form, so windowSize = len(x): a compressed block larger than the WHOLE content is refused by the real decoder and by
the model alike (srcSize_wrong), exactly like ZSTD_compressBlock_internal never emits one (it falls back to a raw block).
`body_bound` below is an upper bound of the body size; blocks whose bound exceeds len(x) are emitted raw instead.
"""
import os, sys, bisect, heapq
sys.path.insert(0, os.path.dirname(os.path.abspath(__file__)))
import build, zv
import frames
import dictgen

BLOCK_MAX = 131072

LL_CODE = list(range(16)) + [16, 16, 17, 17, 18, 18, 19, 19] + [20] * 4 + [21] * 4 + [22] * 8 + [23] * 8 + [24] * 16
ML_CODE = list(range(32)) + [32, 32, 33, 33, 34, 34, 35, 35] + [36] * 4 + [37] * 4 + [38] * 8 + [39] * 8 + [40] * 16 + [41] * 16 + [42] * 32
LL_BITS = [0] * 16 + [1, 1, 1, 1, 2, 2, 3, 3, 4, 6, 7, 8, 9, 10, 11, 12, 13, 14, 15, 16]
ML_BITS = [0] * 32 + [1, 1, 1, 1, 2, 2, 3, 3, 4, 4, 5, 7, 8, 9, 10, 11, 12, 13, 14, 15, 16]
assert len(LL_CODE) == 64 and len(ML_CODE) == 128 and len(LL_BITS) == 36 and len(ML_BITS) == 53


def ll_code(ll):
    """ZSTD_LLcode (zstd_compress_internal.h)"""
    return (ll.bit_length() - 1) + 19 if ll > 63 else LL_CODE[ll]


def ml_code(mlbase):
    """ZSTD_MLcode (zstd_compress_internal.h)"""
    return (mlbase.bit_length() - 1) + 36 if mlbase > 127 else ML_CODE[mlbase]


def fl_size(n):
    return 1 + (n > 31) + (n > 4095)


def body_bound(nlits, litmode, seqs, tabs=None):
    """upper bound of the size of the compressed block body the model writes for this parse; tabs = the three RESOLVED tables
    (`("b",)` | `("r", sym)` | `("f", log, norm)`) together with the three descriptors, None = predefined / RLE tables"""
    lit = fl_size(nlits) + (1 if litmode == "e" else nlits)        # `h` / `t` are only kept by the driver when smaller than raw
    n = len(seqs)
    hdr = 1 if n < 128 else (2 if n < 0x7F00 else 3)
    if n == 0:
        return lit + hdr
    state, descr = 6 + 5 + 6, 3                                     # FSE state bits: at most tableLog per table (and the final flush)
    if tabs is not None:
        resolved, descs = tabs
        state = sum(dict(b=dflt, r=0).get(r[0], r[1] if r[0] == "f" else 0) for r, dflt in zip(resolved, (6, 5, 6)))
        descr = 0
        for r, d in zip(resolved, descs):
            if d == "r":
                descr += 1
            elif d.startswith("f"):                                 # every count takes at most log + 1 bits, the zero runs less than that
                descr += (len(r[2]) * (r[1] + 1) + 4 + 7) // 8 + 2
    bits = 1                                                        # end mark
    for ll, ml, off in seqs:
        bits += LL_BITS[ll_code(ll)] + ML_BITS[ml_code(ml - 3)] + ((off + 3).bit_length() - 1)   # ofCode <= highbit(off + 3)
        bits += state
    return lit + hdr + 1 + descr + (bits + state + 7) // 8


# ---------------------------------------------------------------------------------------------------------- sequence tables

REP_START = (1, 4, 8)
# (largest symbol, largest accepted table log (LLFSELog / OffFSELog / MLFSELog), number of symbols of the predefined distribution) for LL, OF, ML
TYPES = ((35, 9, 36), (31, 8, 29), (52, 9, 53))


def finalize_off_base(raw, rep, ll0):
    """ZSTD_finalizeOffBase (lean: Rep.finalizeOffBase)"""
    if not ll0 and raw == rep[0]:
        return 1
    if raw == rep[1]:
        return 2 - ll0
    if raw == rep[2]:
        return 3 - ll0
    if ll0 and raw == rep[0] - 1:
        return 3
    return raw + 3


def update_rep(rep, ob, ll0):
    """ZSTD_updateRep (lean: Rep.updateRep)"""
    if ob > 3:
        return (ob - 3, rep[0], rep[1])
    rc = ob - 1 + ll0
    if rc == 0:
        return rep
    cur = rep[0] - 1 if rc == 3 else rep[rc]
    return (cur, rep[0], rep[1] if rc >= 2 else rep[2])


def block_codes(seqs, rep):
    """-> ([(llCode, ofCode, mlCode)], the repeat-offset history behind the block): ZSTD_seqToCodes on the seqStore of the parse"""
    codes = []
    for ll, ml, off in seqs:
        ll0 = 1 if ll == 0 else 0
        ob = finalize_off_base(off, rep, ll0)
        rep = update_rep(rep, ob, ll0)
        codes.append((ll_code(ll), ob.bit_length() - 1, ml_code(ml - 3)))
    return codes, rep


def supports(resolved, cs, t):
    """can the (resolved) table encode every code of cs?"""
    if resolved[0] == "b":
        return max(cs) < TYPES[t][2]
    if resolved[0] == "r":
        return set(cs) == {resolved[1]}
    norm = resolved[2]
    return all(c < len(norm) and norm[c] != 0 for c in cs)


def normalise(rng, hist, log):
    """a small correct normaliser: hist = {symbol: count > 0} -> the normalised counts of the symbols 0 .. largest symbol of hist: every
    symbol of hist gets a non-zero count (-1 = "less than one", weight 1), the weights sum to 2^log, the last count is non-zero"""
    syms = sorted(hist)
    n, size = len(syms), 1 << log
    assert 1 <= n <= size
    total = sum(hist.values())
    k = rng.random()
    if n == 1:
        vals = [size]
    elif k < 0.25:                                                   # nothing to do with the histogram (still valid)
        cuts = sorted(rng.sample(range(1, size), n - 1))
        vals = [b - a for a, b in zip([0] + cuts, cuts + [size])]
    else:                                                            # 1 + a proportional share of the rest, the remainder to the most frequent symbol
        vals = [1 + (size - n) * hist[s_] // total for s_ in syms]
        vals[max(range(n), key=lambda i: hist[syms[i]])] += size - sum(vals)
    q = rng.choice((0.0, 0.0, 0.5, 1.0))
    vals = [-1 if v == 1 and rng.random() < q else v for v in vals]
    norm = [0] * (syms[-1] + 1)
    for s_, v in zip(syms, vals):
        norm[s_] = v
    assert sum(abs(v) for v in norm) == size and norm[-1] != 0
    return norm


def fse_table(rng, cs, t, hint=()):
    """an FSE-described table for the codes cs of type t (0 LL, 1 OF, 2 ML): ("f", log, norm).  Sometimes the histogram is widened by
    the codes of `hint` (the blocks that follow: they can then repeat the table) or by random symbols of the alphabet."""
    maxsym, maxlog, _ = TYPES[t]
    hist = {}
    for c in cs:
        hist[c] = hist.get(c, 0) + 1
    if hint and rng.random() < 0.6:
        for c in hint:
            if c <= maxsym:
                hist[c] = hist.get(c, 0) + 1
    k = rng.random()
    if k < 0.15:
        for c in rng.sample(range(maxsym + 1), rng.randint(1, 6)):
            hist.setdefault(c, 1)
    elif k < 0.22:                                                   # the whole alphabet
        for c in range(maxsym + 1):
            hist.setdefault(c, 1)
    lo = max(5, (len(hist) - 1).bit_length())
    log = rng.choice((lo, lo, maxlog, rng.randint(lo, maxlog)))
    return ("f", log, normalise(rng, hist, log))


def choose_tables(rng, codes, prev, hints, wish="aaa"):
    """the three table decisions of a block with sequences -> (descriptors, resolved tables).  prev = the resolved tables of the previous
    block with sequences (None: there is none yet, `p` is not available); wish per type: a = any valid choice, b r p f = that one"""
    descs, resolved = [], []
    for t in range(3):
        cs = [c[t] for c in codes]
        w = wish[t]
        if w == "a":
            opts = ["f", "f", "f"]
            if supports(("b",), cs, t):
                opts += ["b", "b"]
            if len(set(cs)) == 1:
                opts += ["r", "r"]
            if prev is not None and supports(prev[t], cs, t):
                opts += ["p"] * 5
            w = rng.choice(opts)
        if w == "b":
            assert supports(("b",), cs, t)
            descs.append("b"); resolved.append(("b",))
        elif w == "r":
            assert len(set(cs)) == 1
            descs.append("r"); resolved.append(("r", cs[0]))
        elif w == "p":
            assert prev is not None and supports(prev[t], cs, t), (t, prev, cs)
            descs.append("p"); resolved.append(prev[t])
        else:
            f = fse_table(rng, cs, t, [c[t] for c in hints])
            assert supports(f, cs, t)
            descs.append("f%d,%s" % (f[1], ",".join(map(str, f[2])))); resolved.append(f)
    return descs, resolved


def modes_str(tm):
    """the table-modes field of the blocks spec"""
    if isinstance(tm, str):
        return tm
    return "".join(tm) if all(len(d) == 1 for d in tm) else "/".join(tm)


STATS = {}


def note_tables(descs, resolved, gap):
    """counters for the report: decisions per kind, what the repeats stand for, repeats across blocks without sequences"""
    for d, r in zip(descs, resolved):
        k = d[0]
        STATS[k] = STATS.get(k, 0) + 1
        if k == "p":
            STATS["p->" + r[0]] = STATS.get("p->" + r[0], 0) + 1
            if gap:
                STATS["p-across-gap"] = STATS.get("p-across-gap", 0) + 1


# ---------------------------------------------------------------------------------------------------------- inputs

PHRASES = [b"the quick brown fox ", b"hello world ", b"zstd", b"abcabcabd", b"\x00\x00\x01\x00", b"0123456789", b"lorem ipsum dolor sit amet, "]


def gen_x_skew(rng):
    """text-like material: one small alphabet with a geometric distribution for the whole input, so that the literals of later blocks
    use symbols the Huffman table of an earlier block has codes for (treeless literals)"""
    n = rng.choice((rng.randint(40, 400), rng.randint(200, 1500), rng.randint(500, 3000), rng.randint(500, 3000), rng.randint(2000, 9000)))
    top = 129 if rng.random() < 0.9 else 256
    alpha = rng.sample(range(top), rng.randint(2, 24))
    rate = rng.choice((0.15, 0.3, 0.6, 1.0))
    out = bytearray()
    while len(out) < n:
        if out and rng.random() < 0.08:                              # a copy, for the match finder
            src = rng.randrange(len(out))
            for j in range(rng.randint(3, 60)):
                out.append(out[src + j])
        else:
            out += bytes(alpha[min(len(alpha) - 1, int(rng.expovariate(rate)))] for _ in range(rng.randint(5, 200)))
    return bytes(out[:n])


def gen_x(rng):
    if rng.random() < 0.3:
        return gen_x_skew(rng)
    n = rng.choice((rng.randint(1, 12), rng.randint(1, 100), rng.randint(50, 600), rng.randint(50, 600), rng.randint(200, 1500),
                    rng.randint(200, 1500), rng.randint(500, 3000), rng.randint(500, 3000)))
    out = bytearray()
    low = rng.random() < 0.6            # every byte <= 128: the literals can then be Huffman-coded with the direct tree description
    top = 129 if low else 256
    small = bytes(rng.randrange(top) for _ in range(rng.randint(2, 6)))
    while len(out) < n:
        k = rng.random()
        if k < 0.15:
            out += bytes(rng.randrange(top) for _ in range(rng.randint(1, 40)))
        elif k < 0.25:                                               # literals that Huffman likes and can describe (symbols <= 128)
            out += bytes(min(127, int(rng.expovariate(0.08))) for _ in range(rng.randint(5, 400)))
        elif k < 0.45:
            out += bytes(rng.choice(small) for _ in range(rng.randint(1, 60)))
        elif k < 0.6:
            out += rng.choice(PHRASES) * rng.randint(1, 6)
        elif k < 0.72:
            out += bytes([rng.choice(small)]) * rng.choice((rng.randint(1, 12), rng.randint(10, 300)))
        elif out:                                                    # copy of an earlier part (may overlap its own output)
            src = rng.randrange(len(out))
            ln = rng.choice((rng.randint(3, 12), rng.randint(3, 80), rng.randint(30, 400)))
            for j in range(ln):
                out.append(out[src + j])
    return bytes(out[:n])


def index3(x):
    idx = {}
    for i in range(len(x) - 2):
        idx.setdefault(x[i:i + 3], []).append(i)
    return idx


def match_len(x, cand, p, limit):
    k = 0
    while k < limit and x[cand + k] == x[p + k]:                     # cand + k may run past p: overlapping match
        k += 1
    return k


def parse_stretch(rng, x, idx, s, e, recent):
    """a random valid parse of x[s:e]: ([(ll, ml, off)], tail).  `recent` = the offsets used last (updated in place)."""
    seqs = []
    lit_start = cur = s
    longlit = rng.random() < 0.15
    greedy = rng.random()
    while cur < e:
        ll = rng.randint(0, 20) if rng.random() < 0.9 else rng.randint(0, 300 if longlit else 70)
        p = cur + ll
        if e - p < 3:
            break
        found = None
        if rng.random() < 0.35:                                      # try to repeat a recent offset
            for off in rng.sample(recent, len(recent)):
                if 1 <= off <= p:
                    m = match_len(x, p - off, p, e - p)
                    if m >= 3:
                        found = (off, m)
                        break
        if found is None:
            cands = idx.get(x[p:p + 3], ())
            hi = bisect.bisect_left(cands, p)
            if hi > 0:
                r = rng.random()
                c = cands[hi - 1] if r < 0.4 else (cands[0] if r < 0.5 else cands[rng.randrange(hi)])
                found = (p - c, match_len(x, c, p, e - p))
        if found is None:
            cur = p + 1                                              # no match here: one more literal, look again
            continue
        off, m = found
        assert m >= 3
        if rng.random() > greedy:
            m = rng.randint(3, m)
        cap = rng.choice((200, 200, 200, 40, 8, 3, 100000))
        m = max(3, min(m, cap))
        seqs.append((p - lit_start, m, off))
        if off in recent:
            recent.remove(off)
        recent.insert(0, off)
        del recent[3:]
        cur = lit_start = p + m
    return seqs, e - lit_start


def literals_of(x, s, seqs, tail):
    lits, p = bytearray(), s
    for ll, ml, off in seqs:
        lits += x[p:p + ll]
        p += ll + ml
    lits += x[p:p + tail]
    return bytes(lits), p + tail


def check_parse(x, blocks):
    """replay the parse: every block must regenerate its part of x"""
    out = bytearray()
    for b in blocks:
        if b[0] == "r":
            out += x[len(out):len(out) + b[1]]
        elif b[0] == "e":
            out += bytes([x[len(out)]]) * b[1]
        else:
            _, _, _, seqs, tail = b
            p = len(out)
            for ll, ml, off in seqs:
                out += x[p:p + ll]
                assert ml >= 3 and 1 <= off <= len(out), (ll, ml, off, len(out))
                for _ in range(ml):
                    out.append(out[-off])
                p += ll + ml
            out += x[p:p + tail]
    assert bytes(out) == x, "generator produced an invalid parse"


def spec_of(blocks):
    toks = []
    for b in blocks:
        if b[0] in "re":
            toks.append("%s%d" % (b[0], b[1]))
        else:
            _, lm, tm, seqs, tail = b
            toks.append("c%s:%s:%s:%d" % (lm, modes_str(tm), ",".join("%d:%d:%d" % q for q in seqs), tail))
    return ";".join(toks) if toks else "-"


def choose_modes(rng, x, s, seqs, tail, huf_syms=None):
    """huf_syms = the literal bytes of the last block asked to write a Huffman table (None: no such block yet): the symbols that table
    has codes for, if the driver kept the Huffman output"""
    lits, _ = literals_of(x, s, seqs, tail)
    r = rng.random()
    if lits and len(set(lits)) == 1 and r < 0.7:
        lm = "e"
    elif lits and huf_syms is not None and set(lits) <= huf_syms and r < 0.75:
        lm = "t"                                                     # treeless: every literal has a code in the previous table
    elif r < 0.03:
        lm = "t"                                                     # not applicable (or only by luck): the driver does what `f` does
    elif rng.random() < 0.45:
        lm = rng.choice("hf")                                        # f: the tree description may be FSE-compressed (any symbol values)
    else:
        lm = "r"
    return lm, len(lits)


def table_syms(lm, lits, huf_syms):
    """the estimate of the symbols the current Huffman table covers, behind a block with literal mode lm"""
    if lm in "hf" or (lm == "t" and not (huf_syms is not None and set(lits) <= huf_syms)):
        if len(set(lits)) >= 2 and (max(lits) <= 128 or lm != "h"):  # else the driver cannot write a table: raw literals, table unchanged
            return set(lits)
    return huf_syms


def assign_tables(rng, x, tentative, limit, rep0=REP_START, prev0=None, huf0=None):
    """second pass over the tentative blocks (`("c", None, wish, seqs, tail)` for a compressed one): literal modes, table decisions along
    the frame (repeat-offset history and previous tables advance on compressed blocks only), raw fallback for blocks over `limit`.
    rep0 / prev0 / huf0 = the state the block loop starts from: `repStartValue` and no tables, or what a formatted DICTIONARY installs
    (its three repeat offsets, its three sequence tables as resolved `("f", log, norm)` decisions in the order LL, OF, ML, the set of
    symbols its Huffman table has codes for): `p` in the first block with sequences then stands for the dictionary's table"""
    blocks, pos, rep, prev, gap = [], 0, tuple(rep0), prev0, 0
    huf_syms = huf0                                                  # see choose_modes; advances on compressed blocks only
    dict_tab = [prev0 is not None] * 3                               # per type: the running table is still the dictionary's
    for i, b in enumerate(tentative):
        if b[0] != "c":
            blocks.append(b)
            pos += b[1]
            gap += 1
            continue
        _, lm, wish, seqs, tail = b
        lits, end = literals_of(x, pos, seqs, tail)
        if lm is None:
            lm, _ = choose_modes(rng, x, pos, seqs, tail, huf_syms)
        if not seqs:
            if body_bound(len(lits), lm, seqs) <= limit:
                blocks.append(("c", lm, "bbb", seqs, tail))
                STATS["lit:" + lm] = STATS.get("lit:" + lm, 0) + 1
                huf_syms = table_syms(lm, lits, huf_syms)
            else:
                blocks.append(("r", end - pos))
            pos = end
            gap += 1
            continue
        codes, rep2 = block_codes(seqs, rep)
        hints = []                                                   # the codes the next blocks will probably use (their history is a guess)
        for nb in tentative[i + 1:i + 4]:
            if nb[0] == "c" and nb[3]:
                hints += block_codes(nb[3], rep2)[0]
        descs, resolved = choose_tables(rng, codes, prev, hints, wish or "aaa")
        if body_bound(len(lits), lm, seqs, (resolved, descs)) > limit:
            if wish is None and supports(("b",), [c[1] for c in codes], 1):      # without table descriptions, then
                descs, resolved = ["b"] * 3, [("b",)] * 3
            if body_bound(len(lits), lm, seqs, (resolved, descs)) > limit:
                assert wish is None, "fixed case over the block size limit"
                blocks.append(("r", end - pos))
                pos = end
                gap += 1
                continue
        note_tables(descs, resolved, gap)
        for t in range(3):
            if descs[t] == "p" and dict_tab[t]:
                STATS["p->dict"] = STATS.get("p->dict", 0) + 1
            elif descs[t] != "p":
                dict_tab[t] = False
        blocks.append(("c", lm, descs, seqs, tail))
        STATS["lit:" + lm] = STATS.get("lit:" + lm, 0) + 1
        huf_syms = table_syms(lm, lits, huf_syms)
        pos, rep, prev, gap = end, rep2, resolved, 0
    return blocks


def gen_tentative(rng):
    """an input, frame parameters and a tentative tiling (parses chosen, entropy decisions still open)"""
    x = gen_x(rng)
    n = len(x)
    lo = max(10, (n - 1).bit_length())
    wl = rng.randint(lo, 17)
    assert (1 << wl) >= n
    ck = rng.randint(0, 1)
    nb = min(n, rng.choice((1, 1, 2, 2, 3, 4, 5, 7)))
    cuts = sorted(rng.sample(range(1, n), nb - 1)) if nb > 1 else []
    bounds = [0] + cuts + [n]
    idx = index3(x)
    recent = [1, 4, 8]
    tentative = []
    for s, e in zip(bounds, bounds[1:]):
        const = len(set(x[s:e])) == 1
        r = rng.random()
        if const and r < 0.5:
            tentative.append(("e", e - s))
            continue
        if r < 0.12:
            tentative.append(("r", e - s))
            continue
        seqs, tail = parse_stretch(rng, x, idx, s, e, recent)
        if not seqs and rng.random() < 0.6:                              # nothing to match: mostly what the compressor does
            tentative.append(("e", e - s) if const else ("r", e - s))
            continue
        tentative.append(("c", None, None, seqs, tail))
    return x, wl, ck, tentative


def gen_case(rng):
    x, wl, ck, tentative = gen_tentative(rng)
    n = len(x)
    blocks = assign_tables(rng, x, tentative, min(n, 1 << wl, BLOCK_MAX))  # a block over the decoder's block size limit is emitted raw
    check_parse(x, blocks)
    return "cframe %d %d %s %s" % (wl, ck, spec_of(blocks), frames.hx(x)), x


# ---------------------------------------------------------------------------------------------------------- dictionaries

def dict_huf(rng, lits):
    """the Huffman part of a dictionary, made for the literals `lits` (of the first compressed block of a frame): a direct (4-bit) weight
    header whose table has a code for every byte of lits when they are all <= 128 (the direct form describes symbols 0..128), plus some
    random symbols -> (header bytes, set of symbols with a code).  Code lengths: the textbook merge on counts (or the balanced code when
    that is deeper than 11); a full binary tree, so HUF_readStats accepts the weights (Kraft equality, even number of weight-1 symbols)."""
    syms = set(lits) if lits and max(lits) <= 128 else set()
    if rng.random() < 0.15:
        syms = set()                                                 # nothing to do with the literals
    syms |= set(rng.sample(range(129), rng.choice((0, 1, 3, 10, 40))))
    while len(syms) < 2:
        syms.add(rng.randrange(129))
    cnt = {s_: 1 + bytes(lits).count(s_) for s_ in syms}
    heap = [(c, s_, (s_,)) for s_, c in sorted(cnt.items())]
    heapq.heapify(heap)
    depth = dict.fromkeys(syms, 0)
    while len(heap) > 1:
        a, b = heapq.heappop(heap), heapq.heappop(heap)
        for s_ in a[2] + b[2]:
            depth[s_] += 1
        heapq.heappush(heap, (a[0] + b[0], min(a[1], b[1]), a[2] + b[2]))
    if max(depth.values()) > 11:
        n = len(syms)
        L = (n - 1).bit_length()
        order = sorted(syms, key=lambda s_: (-cnt[s_], s_))
        depth = {s_: (L - 1 if i < (1 << L) - n else L) for i, s_ in enumerate(order)}
    L = max(depth.values())
    m = max(syms)
    w = [(L + 1 - depth[s_]) if s_ in syms else 0 for s_ in range(m + 1)]
    ws = w[:-1]
    total = sum((1 << v) >> 1 for v in ws)
    rest = (1 << L) - total
    assert total > 0 and total.bit_length() == L and rest == 1 << (w[-1] - 1) and 1 <= len(ws) <= 128, (w, L)
    r1 = sum(1 for v in w if v == 1)
    assert r1 >= 2 and r1 % 2 == 0
    hdr = bytearray([127 + len(ws)])
    for i in range(0, len(ws), 2):
        hdr.append((ws[i] << 4) | (ws[i + 1] if i + 1 < len(ws) else 0))
    return bytes(hdr), syms


def gen_case_dict(rng):
    """a frame written WITH A DICTIONARY whose entropy tables are on offer (driver op `cframed`): the parse first, then a dictionary made
    for it - the three described tables cover the codes of the first block(s) with sequences (mostly; sometimes they have nothing to do
    with them, then `p` is not chosen), the Huffman table the literals of the first compressed block - so that the first blocks can
    repeat the dictionary's tables (`p`) and be treeless on its Huffman table (`t`).  Sometimes a raw-content dictionary: no tables."""
    x, wl, ck, tentative = gen_tentative(rng)
    n = len(x)
    content = b"".join(rng.choice(PHRASES) for _ in range(rng.choice((1, 2, 5, 40)))) + bytes(rng.getrandbits(8) for _ in range(rng.choice((0, 3, 9))))
    content = content + b"\x00" * max(0, 8 - len(content))
    if rng.random() < 0.08:                                          # raw content (no magic): start history {1, 4, 8}, no tables
        blocks = assign_tables(rng, x, tentative, min(n, 1 << wl, BLOCK_MAX))
        check_parse(x, blocks)
        STATS["dict:raw"] = STATS.get("dict:raw", 0) + 1
        return "cframed %d %d %s %s %s" % (wl, ck, spec_of(blocks), frames.hx(x), frames.hx(content)), x, content
    m = len(content)
    reps = [rng.choice((1, 4, 8, m, max(1, m // 2), rng.randint(1, m))) for _ in range(3)]
    rep, codes, first_lits, pos, seen = tuple(reps), [], None, 0, 0
    for b in tentative:
        if b[0] != "c":
            pos += b[1]
            continue
        lits, end = literals_of(x, pos, b[3], b[4])
        if first_lits is None:
            first_lits = lits
        if b[3] and seen < rng.choice((1, 1, 2)):
            cs, rep = block_codes(b[3], rep)
            codes += cs
            seen += 1
        pos = end
    tabs = []
    for t in range(3):
        cs = [c[t] for c in codes]
        if not cs or rng.random() < 0.12:
            cs = rng.sample(range(TYPES[t][0] + 1), rng.randint(1, 8))
        tabs.append(fse_table(rng, cs, t))
    hdr, syms = dict_huf(rng, first_lits or b"")
    did = rng.randint(32768, (1 << 31) - 1)
    d = bytearray(dictgen.MAGIC.to_bytes(4, "little")) + did.to_bytes(4, "little") + hdr
    for t in (1, 2, 0):                                              # the entropy section lists offset codes, match lengths, literal lengths
        d += dictgen.write_ncount(tabs[t][2], tabs[t][1])
    for r in reps:
        d += r.to_bytes(4, "little")
    d += content
    blocks = assign_tables(rng, x, tentative, min(n, 1 << wl, BLOCK_MAX), rep0=reps, prev0=tabs, huf0=syms)
    check_parse(x, blocks)
    STATS["dict:full"] = STATS.get("dict:full", 0) + 1
    return "cframed %d %d %s %s %s" % (wl, ck, spec_of(blocks), frames.hx(x), bytes(d).hex()), x, bytes(d)


def expand(prefix, seqs_with_lits, tail=b""):
    """build x from a prefix and (literal bytes, ml, off) steps; returns (x, [(ll, ml, off)])"""
    out, seqs = bytearray(prefix), []
    for lit, ml, off in seqs_with_lits:
        out += lit
        for _ in range(ml):
            out.append(out[-off])
        seqs.append((len(lit), ml, off))
    out += tail
    return bytes(out), seqs


EXPECT_LIT = {}                                                      # op line -> the `lit=` field the fixed case was built for


def skewed(rng, n, alpha, rate=0.7):
    return bytes(alpha[min(len(alpha) - 1, int(rng.expovariate(rate)))] for _ in range(n))


def fixed_cases():
    ops = []

    def add(wl, ck, blocks, x):
        check_parse(x, blocks)
        pos = 0
        for b in blocks:
            if b[0] == "c":                                          # the fixed cases respect the block size limit too
                lits, end = literals_of(x, pos, b[3], b[4])
                assert body_bound(len(lits), b[1], b[3]) <= len(x), (spec_of(blocks), body_bound(len(lits), b[1], b[3]), len(x))
                pos = end
            else:
                pos += b[1]
        ops.append(("cframe %d %d %s %s" % (wl, ck, spec_of(blocks), frames.hx(x)), x))

    # a compressed block with zero sequences (in the middle, and as the only compressed block of the frame)
    x = bytes(range(40))
    add(10, 1, [("r", 10), ("c", "r", "bbb", [], 20), ("r", 10)], x)
    add(10, 0, [("r", 30), ("c", "r", "bbb", [], 10)], x)
    x = b"\x41" * 10 + bytes(range(30))
    add(10, 1, [("c", "e", "bbb", [], 10), ("r", 30)], x)
    # a match that overlaps itself: x = "ab" * 50, one sequence ll=2 ml=98 offset=2; all table-mode combinations
    x = b"ab" * 50
    for tm in ("bbb", "rrr", "rbb", "brb", "bbr"):
        add(10, 1, [("c", "r", tm, [(2, 98, 2)], 0)], x)
    add(12, 0, [("c", "r", "bbb", [(1, 99, 1)], 0)], b"z" * 100)        # offset 1: run
    add(12, 0, [("c", "e", "rrr", [(1, 96, 1)], 3)], b"z" * 100)
    # a 2-block frame whose second block uses repeat offsets (offset 4 = initial rep[1] with ll0, then rep[0])
    x, seqs = expand(b"abcd", [(b"", 8, 4), (b"XY", 6, 4)])
    add(10, 1, [("r", 4), ("c", "r", "bbb", seqs, 0)], x)
    # repeat offsets carried from one compressed block into the next one, with a raw block in between
    x1, s1 = expand(b"0123456789abcdef", [(b"", 5, 7), (b"Q", 4, 7), (b"", 3, 16)])
    x2, s2 = expand(x1 + b"....", [(b"", 6, 16), (b"W", 5, 7), (b"", 4, 16), (b"uv", 3, 5)], b"end")
    add(11, 1, [("r", 16), ("c", "r", "bbb", s1, 0), ("r", 4), ("c", "r", "bbb", s2, 3)], x2)
    # 130+ sequences in one block (nbSeq in the two-byte form), also with RLE tables (every sequence: ll 1, ml 3, offset 8)
    x, seqs = expand(b"", [(b"ABCDEFGHI", 3, 8)] + [(b"*", 3, 8)] * 140, b"!")
    add(10, 1, [("c", "r", "bbb", seqs, 1)], x)
    add(10, 0, [("c", "h", "bbb", seqs, 1)], x)
    xs, seqs_same = expand(b"ABCDEFGH", [(b"*", 3, 8)] * 200)
    add(10, 1, [("r", 8), ("c", "e", "rbr", seqs_same, 0)], xs)
    add(10, 1, [("r", 8), ("c", "r", "brb", seqs_same[:1], 0), ("c", "r", "rbr", seqs_same[1:], 0)], xs)
    # long literal runs / long matches (codes with extra bits), Huffman literals with 1 and 4 streams
    lit = bytes((i * i) % 97 for i in range(700))
    x, seqs = expand(lit[:100], [(lit[100:180], 300, 100), (lit[180:700], 1000, 37)], lit[:50])
    add(11, 1, [("r", 100), ("c", "h", "bbb", seqs, 50)], x)
    add(11, 1, [("r", 100), ("c", "r", "rrr", seqs[:1], 0), ("c", "h", "bbb", seqs[1:], 50)], x)
    x, seqs = expand(b"", [(lit[:120], 20, 5)], lit[:3])
    add(10, 0, [("c", "h", "brb", seqs, 3)], x)

    # ---- FSE-described tables (set_compressed) and repeated tables (set_repeat); the normalised counts come from `normalise`
    import random
    frng = random.Random(20240917)

    def add2(wl, ck, tentative, x):
        blocks = assign_tables(frng, x, tentative, len(x))
        assert [b[0] for b in blocks] == [b[0] for b in tentative]
        check_parse(x, blocks)
        ops.append(("cframe %d %d %s %s" % (wl, ck, spec_of(blocks), frames.hx(x)), x))

    def split(seqs, k):
        return seqs[:k], seqs[k:]

    # 200 equal sequences (ll 1, ml 3, offset 8) behind 8 raw bytes: cut into compressed blocks
    a, rest = split(seqs_same, 60)
    b_, rest = split(rest, 50)
    c_, d_ = split(rest, 40)
    # (the offset codes of the first block are 1 then 0, 0, ...: rawOffset 8 is rep[2] at first, rep[0] afterwards; so OF can be RLE from
    # the second block on only)
    for w1 in ("fff", "rbr", "bbb", "fbr", "bfr"):
        # every table of the second block repeats the first block's: FSE-described / RLE / predefined
        add2(10, 1, [("r", 8), ("c", "r", w1, a, 0), ("c", "r", "ppp", b_ + c_ + d_, 0)], xs)
        # repeat of a repeat; repeat behind a block that changed one table only
        add2(10, 0, [("r", 8), ("c", "r", w1, a, 0), ("c", "e", "ppp", b_, 0), ("c", "r", "pfp", c_, 0), ("c", "r", "ppp", d_, 0)], xs)
    add2(10, 1, [("r", 8), ("c", "r", "rbr", a, 0), ("c", "r", "prp", b_, 0), ("c", "r", "ppp", c_, 0), ("c", "r", "ppp", d_, 0)], xs)
    # raw / RLE blocks and compressed blocks without sequences between the table and its repeat
    filler = bytes(range(100, 140)) + b"\x07" * 30 + b"tail-literals"
    x1, s1 = expand(b"ABCDEFGH", [(b"*", 3, 8)] * 60)
    x2, s2 = expand(x1 + filler, [(b"*", 3, 8)] * 50)
    x3, s3 = expand(x2 + b"\x09" * 20, [(b"*", 3, 8)] * 40, b"**")
    for w1, w2 in (("fff", "ppp"), ("rbr", "ppp"), ("bbb", "ppp"), ("rfb", "ppp"), ("rbr", "prp"), ("fff", "pfp")):
        add2(11, 1, [("r", 8), ("c", "r", w1, s1, 0), ("r", 40), ("e", 30), ("c", "r", "bbb", [], 13), ("c", "r", w2, s2, 0),
                     ("e", 20), ("c", "e", "ppp", s3, 2)], x3)
    # varied sequences: long literal runs / matches, two blocks over the same kind of material, the second repeats or re-describes
    y, sq = expand(lit[:100], [(lit[100:180], 300, 100), (lit[180:400], 1000, 37), (b"", 5, 100), (lit[:17], 40, 37), (b"q", 3, 1)] * 3, lit[:50])
    u, v = split(sq, 8)
    for w1, w2 in (("fff", "fff"), ("fff", "ppp"), ("fbf", "pfp"), ("fff", "bpb")):
        add2(12, 1, [("r", 100), ("c", "h", w1, u, 0), ("c", "r", w2, v, 50)], y)
    # one sequence only: single-symbol distributions (one count = 2^tableLog), then repeated
    x, seqs = expand(b"abcdefgh", [(b"", 20, 8)], b"z" * 400)
    add2(10, 1, [("r", 8), ("c", "e", "fff", seqs, 400)], x)
    x, seqs = expand(b"abcdefgh" * 30, [(b"", 20, 8), (b"", 20, 8)], b"z" * 400)
    add2(10, 0, [("r", 240), ("c", "r", "fff", seqs[:1], 0), ("c", "e", "pfp", seqs[1:], 400)], x)

    # ---- treeless literals (litmode t): the Huffman table of an earlier block of the frame is re-used
    trng = random.Random(20260930)
    al = b"etaoinsh"

    def add3(wl, ck, tentative, x, want):
        add2(wl, ck, tentative, x)
        EXPECT_LIT[ops[-1][0]] = want

    # blocks of literals only; every header form (3 / 4 / 5 bytes), one stream and four streams; an RLE block in between
    for n1, n2, n3 in ((400, 300, 100), (2000, 1500, 255), (300, 256, 1023), (300, 1024, 16383), (300, 16384, 70000)):
        x = skewed(trng, n1, al) + b"Q" * 5 + skewed(trng, n2, al[:5]) + skewed(trng, n3, al[:3])
        add3(17, 1, [("c", "h", "bbb", [], n1), ("e", 5), ("c", "t", "bbb", [], n2), ("c", "t", "bbb", [], n3)], x, "htt")
    # the table survives raw blocks, RLE blocks and compressed blocks with raw / RLE literals
    x = skewed(trng, 500, al) + bytes(range(200, 230)) + b"\x07" * 20 + bytes(range(130, 170)) + b"s" * 9 + skewed(trng, 200, al)
    add3(12, 0, [("c", "h", "bbb", [], 500), ("r", 30), ("e", 20), ("c", "r", "bbb", [], 40), ("c", "e", "bbb", [], 9), ("c", "t", "bbb", [], 200)],
         x, "hret")
    # a literal without a code in the table: the driver writes a new table (what `f` does), the next treeless block uses THAT one
    x = skewed(trng, 400, al[:4]) + skewed(trng, 400, al) + skewed(trng, 300, al[4:])
    add3(12, 1, [("c", "h", "bbb", [], 400), ("c", "t", "bbb", [], 400), ("c", "t", "bbb", [], 300)], x, "hft")
    # no table yet: `t` is `f` (or raw)
    x = skewed(trng, 400, al)
    add3(12, 1, [("c", "t", "bbb", [], 300), ("c", "t", "bbb", [], 100)], x, "ft")
    add3(12, 0, [("c", "t", "bbb", [], 8), ("r", 392)], x, "r")
    # with sequences, together with described and repeated sequence tables
    pre = skewed(trng, 300, al)
    steps = [(skewed(trng, trng.randint(0, 30), al), trng.randint(3, 40), trng.randint(1, 300)) for _ in range(60)]
    x, sq = expand(pre, steps, skewed(trng, 40, al))
    u, rest = split(sq, 25)
    v, w = split(rest, 20)
    for w1, w2, w3 in (("bbb", "bbb", "bbb"), ("fff", "aaa", "aaa"), ("fbf", "afa", "aaa")):
        add3(13, 1, [("r", 300), ("c", "h", w1, u, 0), ("c", "t", w2, v, 0), ("c", "t", w3, w, 40)], x, "htt")

    # ---- FSE-compressed tree descriptions (litmode f): large alphabets, symbols above 128; then treeless on such a table
    big = bytes(range(20, 250, 3))                                   # 77 symbols up to 248
    for n1, n2 in ((3000, 500), (900, 200), (20000, 3000)):
        x = skewed(trng, n1, big, 0.08) + skewed(trng, n2, big[:30], 0.15)
        add3(17, 1, [("c", "f", "bbb", [], n1), ("c", "t", "bbb", [], n2)], x, "ft")
    x = skewed(trng, 2500, bytes(range(256)), 0.03) + bytes(range(10))
    add3(13, 0, [("c", "f", "bbb", [], 2500), ("r", 10)], x, "f")
    x = skewed(trng, 600, bytes(range(5))) + bytes(range(10))        # few symbols: the direct form is smaller, `f` writes it
    add3(13, 0, [("c", "f", "bbb", [], 600), ("r", 10)], x, "h")
    x = skewed(trng, 3000, bytes(range(0, 120, 2)), 0.1)             # symbols below 128: both forms possible, the FSE one is smaller
    add3(13, 1, [("c", "f", "bbb", [], 1500), ("c", "h", "bbb", [], 1500)], x, "fh")
    return ops


def negative_cases():
    """set_repeat with nothing to repeat (no block with sequences before it in the frame): the model writes the modes byte all the same,
    the decoder model and the real decoder must both refuse the frame (dctx->fseEntropy == 0: corruption_detected)"""
    x = b"ab" * 50
    return [("cframe 10 0 cr:ppp:2:98:2:0 %s" % frames.hx(x), x),
            ("cframe 10 1 cr:bpb:2:98:2:0 %s" % frames.hx(x), x),
            ("cframe 10 0 r10;cr:bbb::40;cr:ppp:2:48:2:0 %s" % frames.hx(x), x)]


def run_negative(ctx, exe):
    ops = negative_cases()
    rc, out, err = zv.run([zv.driver_exe(), "blockenc"], "\n".join(o[0] for o in ops) + "\n", timeout=600)
    m = out.split("\n")[:-1]
    bad = 0
    if rc != 0 or len(m) != len(ops):
        ctx.violation("zvdriver blockenc did not complete on the negative cases (rc %s): %s" % (rc, err[-300:]), dict(kind="tie", op="", c="", model=str(rc)), no_input=True)
        return len(ops), 1
    rc, res, err = frames.run_lines(exe, ["dec %d %s" % (len(x), a.split(" ")[0]) for (ln, x), a in zip(ops, m)], timeout=600)
    for i, ((ln, x), a) in enumerate(zip(ops, m)):
        got = res[i] if i < len(res) else "<missing>"
        if " rt=FAIL:corruption " not in a or got != "err corruption":
            bad += 1
            ctx.violation("set_repeat without a previous table: decoder model says %s, real decoder says %s (both must refuse: corruption)" % (" ".join(a.split(" ")[1:2]), got),
                          dict(kind="tie", op=ln, c=got, model=a[-80:]))
    return len(ops), bad


CORR_DICT = "ZSTD_decompress_usingDict(DictEnc.serializeFrameDictTables d D a blocks x, d) = x"


def fixed_cases_dict():
    """a fixed dictionary (LL / OF / ML tables over a few codes, Huffman table for the letters a..h) and a two-block frame: block 1 repeats
    all three DICTIONARY tables and has treeless literals on the DICTIONARY's Huffman table, block 2 repeats what block 1 left (still the
    dictionary's tables).  The first match uses the dictionary's first repeat offset (5).  Dictionary and block 1 are the non-vacuity
    example of lean/ZstdVerif/Lemmas/DictTablesRT.lean (`demoDict`, `demoBlocks`), which pins the bytes of the one-block frame."""
    lln = [16, 8, 4, 2, 1, 1]                                        # LL codes 0..5
    ofn = [8, 8, 4, 4, 4, 2, 1, 1]                                   # OF codes 0..7
    mln = [16, 4, 4, 2, 2, 2, 1, 1]                                  # ML codes 0..7 (match lengths 3..10)
    ws = [0] * 97 + [3, 3, 2, 2, 1, 1, 1]                            # symbols 97..103 explicit, 104 ('h') implied weight 1; depth 4
    hdr = bytearray([127 + len(ws)])
    for i in range(0, len(ws), 2):
        hdr.append((ws[i] << 4) | (ws[i + 1] if i + 1 < len(ws) else 0))
    content = b"hgfedcba-0123456789-abcdefgh"
    d = bytearray(dictgen.MAGIC.to_bytes(4, "little")) + (77777).to_bytes(4, "little") + hdr
    d += dictgen.write_ncount(ofn, 5) + dictgen.write_ncount(mln, 5) + dictgen.write_ncount(lln, 5)
    for r in (5, 9, 2):
        d += r.to_bytes(4, "little")
    d += content
    lit1 = b"abacabadabaeabafabagabahaabbaaccaabaabacaabaa"
    x1, s1 = expand(b"", [(lit1[:5], 4, 5), (lit1[5:9], 5, 3), (lit1[9:12], 3, 9)], lit1[12:])
    lit2 = b"aabbaacaabaadaabaaeaabaafaabaagaabaahaabaabaa"
    x2, s2 = expand(x1, [(lit2[:4], 6, 7), (lit2[4:6], 4, 2)], lit2[6:])
    blocks = [("c", "t", "ppp", s1, len(lit1) - 12), ("c", "t", "ppp", s2, len(lit2) - 6)]
    ln = "cframed 10 1 %s %s %s" % (spec_of(blocks), frames.hx(x2), bytes(d).hex())
    EXPECT_LIT[ln] = "tt"
    return [(ln, x2, bytes(d))]


def negative_cases_dict():
    """set_repeat in the first block with a RAW-CONTENT dictionary: there is no table to repeat (ZSTD_decompress_insertDictionary leaves
    fseEntropy = 0); the decoder model and the real decoder must both refuse the frame"""
    x = b"ab" * 50
    return [("cframed 10 0 cr:ppp:2:98:2:0 %s %s" % (frames.hx(x), frames.hx(b"raw content dictionary")), x, b"raw content dictionary")]


def run_dict(ctx, exe=None):
    """frames written with a dictionary whose tables are on offer (theorem Props.C08.dict_tables_roundtrip): the decoder model, with the
    dictionary loaded by the loader model, and the REAL ZSTD_decompress_usingDict regenerate the input from the model's frame"""
    rng = ctx.rng
    exe = exe or frames.harness()
    n = 150 if ctx.quick() else 800
    before = dict(STATS)
    ops = [gen_case_dict(rng) for _ in range(n)] + fixed_cases_dict()
    neg = negative_cases_dict()
    lines = [o[0] for o in ops + neg]
    rc, out, err = zv.run([zv.driver_exe(), "blockenc"], "\n".join(lines) + "\n", timeout=1800)
    m = out.split("\n")
    if m and m[-1] == "":
        m = m[:-1]
    if rc != 0 or len(m) != len(lines):
        ctx.violation("zvdriver blockenc did not complete on the dictionary frames (rc %s, %d / %d lines): %s" % (rc, len(m), len(lines), err[-300:]),
                      dict(kind="tie", op="", c="", model=str(rc)), no_input=True)
        return dict(evaluations=len(lines), mismatches=1)
    bad = first_p = first_t = nfull = 0
    declines, who = [], []
    for (ln, x, d), a in zip(ops, m):
        parts = a.split(" ")
        if len(parts) != 8 or parts[1] != "rt=ok" or not parts[5].startswith("lit=") or not parts[6].startswith("dict="):
            bad += 1
            if bad <= 8:
                ctx.violation("decoder model (dictionary loaded by the loader model) does not regenerate the input from the dictionary frame of the block writer model: %s (%s)"
                              % (a[-100:], ln[:80]), dict(kind="tie", correspondence=CORR_DICT, op=ln, c="", model=a))
            if len(parts) != 8:
                continue
        spec = [t for t in ln.split(" ")[3].split(";") if t.startswith("c")]
        if parts[2] != "fse=%d" % sum(t.split(":")[1].count("f") for t in spec) or parts[3] != "spreadOK=true" or parts[4] != "spreadEncEqDec=true" \
                or parts[7] != "dtab=true" or parts[6] != ("dict=full" if d[:4] == dictgen.MAGIC.to_bytes(4, "little") else "dict=raw"):
            bad += 1
            if bad <= 8:
                ctx.violation("block writer model, dictionary frame: a table (of the frame or of the dictionary) misses a side condition of the round-trip theorems, or the dictionary kind differs: %s (%s)"
                              % (" ".join(parts[2:]), ln[:80]), dict(kind="tie", correspondence=CORR_DICT, op=ln, c="", model=a[-100:]))
        written = parts[5][4:]
        if ln in EXPECT_LIT and written != EXPECT_LIT[ln]:
            bad += 1
            ctx.violation("block writer model, dictionary frame: literals sections written %s, the fixed case was built for %s" % (written, EXPECT_LIT[ln]),
                          dict(kind="tie", correspondence=CORR_DICT, op=ln, c="", model=a[-100:]))
        nfull += parts[6] == "dict=full"
        first_t += written[:1] == "t"                                # the first compressed block is treeless: on the DICTIONARY's Huffman table
        seqblocks = [t for t in spec if t.split(":")[2]]
        first_p += bool(seqblocks) and parts[6] == "dict=full" and "p" in seqblocks[0].split(":")[1].replace("/", "")[:1] + "".join(
            q[:1] for q in seqblocks[0].split(":")[1].split("/"))
        declines.append("dec %d %s %s" % (len(x), parts[0], frames.hx(d)))
        declines.append("xxh %s" % frames.hx(x))
        who.append((ln, x, a))
    for (ln, x, d), a in zip(neg, m[len(ops):]):
        declines.append("dec %d %s %s" % (len(x), a.split(" ")[0], frames.hx(d)))
    rc, res, err = frames.run_lines(exe, declines, timeout=1800)
    if rc != 0 or len(res) != len(declines):
        ctx.violation("zvh_dec pass on the dictionary frames did not complete (rc %s, %d / %d lines): %s" % (rc, len(res), len(declines), err[-300:]),
                      dict(kind="tie", op="", c=str(rc), model=""), no_input=True)
        return dict(evaluations=len(lines) + len(declines) // 2, mismatches=bad + 1)
    for i, (ln, x, a) in enumerate(who):
        got, want = res[2 * i], res[2 * i + 1]
        if got != want or want != "ok %d %s" % (len(x), want.split(" ")[-1]):
            bad += 1
            if bad <= 8:
                ctx.violation("real ZSTD_decompress_usingDict applied to the dictionary frame written by the block writer MODEL does not regenerate the input: %s (expected %s) on %s"
                              % (got, want, ln[:80]), dict(kind="tie", correspondence=CORR_DICT, op=ln, c=got, model=a))
    for j, ((ln, x, d), a) in enumerate(zip(neg, m[len(ops):])):
        got = res[2 * len(who) + j]
        if " rt=FAIL:corruption " not in a or got != "err corruption":
            bad += 1
            ctx.violation("set_repeat in the first block with a raw-content dictionary: decoder model says %s, real decoder says %s (both must refuse: corruption)"
                          % (" ".join(a.split(" ")[1:2]), got), dict(kind="tie", correspondence=CORR_DICT, op=ln, c=got, model=a[-100:]))
    pd = STATS.get("p->dict", 0) - before.get("p->dict", 0)
    if pd < 40 or first_t < 15:
        bad += 1
        ctx.violation("dictionary block writer tie: only %d table decisions repeat a DICTIONARY table and %d frames start with treeless literals on the dictionary's Huffman table in %d frames (the generator no longer reaches them)"
                      % (pd, first_t, len(ops)), dict(kind="tie", op="", c="", model=""), no_input=True)
    return dict(evaluations=2 * len(ops) + len(neg), mismatches=bad, frames=len(ops), formatted_dictionaries=nfull, negative_cases=len(neg),
                dictionary_table_repeats=pd, frames_whose_first_seq_block_repeats_a_dictionary_table=first_p,
                frames_starting_treeless_on_the_dictionary_table=first_t)


def replay_dict(ctx, data):
    """one `cframed` line again: the model's frame, the decoder model's verdict, the real ZSTD_decompress_usingDict on that frame"""
    op = data["op"]
    f = op.split(" ")
    x = bytes.fromhex(f[4]) if f[4] != "-" else b""
    rc, out, err = zv.run([zv.driver_exe(), "blockenc"], op + "\n", timeout=600)
    a = out.split("\n")[0] if out else ""
    rc2, res, err2 = frames.run_lines(frames.harness(), ["dec %d %s %s" % (len(x), a.split(" ")[0], f[5]), "xxh %s" % frames.hx(x)])
    neg = ":ppp:" in op and not f[5].startswith("37a430ec")
    if neg:
        bad = " rt=FAIL:corruption " not in a or res[:1] != ["err corruption"]
    else:
        bad = " rt=ok " not in a or " dtab=true" not in a or len(res) != 2 or res[0] != res[1]
    return dict(violates=bad, result=[a[-200:]] + [r[:200] for r in res])


def run(ctx):
    rng = ctx.rng
    exe = frames.harness()
    n = 300 if ctx.quick() else 1500
    STATS.clear()
    ops = [gen_case(rng) for _ in range(n)] + fixed_cases()
    lines = [o[0] for o in ops]
    rc, out, err = zv.run([zv.driver_exe(), "blockenc"], "\n".join(lines) + "\n", timeout=1800)
    m = out.split("\n")
    if m and m[-1] == "":
        m = m[:-1]
    if rc != 0 or len(m) != len(lines):
        ctx.violation("zvdriver blockenc did not complete (rc %s, %d / %d lines): %s" % (rc, len(m), len(lines), err[-300:]),
                      dict(kind="tie", op="", c="", model=str(rc)), no_input=True)
        return dict(evaluations=len(lines), mismatches=1)
    bad = nfse = 0
    corr = "ZSTD_decompressDCtx(BlockEnc.serializeFrame2 a blocks x) = x"
    declines, who = [], []
    for (ln, x), a in zip(ops, m):
        parts = a.split(" ")
        if len(parts) != 6 or parts[1] != "rt=ok" or not parts[5].startswith("lit="):
            bad += 1
            if bad <= 8:
                ctx.violation("decoder model does not regenerate the input from the block writer model's frame: %s (%s)" % (a[-80:], ln[:80]),
                              dict(kind="tie", correspondence=corr, op=ln, c="", model=a))
            if len(parts) != 6:
                continue
        nfse += int(parts[2].split("=")[1]) if parts[2].startswith("fse=") else 0
        if parts[2] != "fse=%d" % sum(tok.count("f") for tok in [t.split(":")[1] for t in ln.split(" ")[3].split(";") if t.startswith("c")]) \
                or parts[3] != "spreadOK=true" or parts[4] != "spreadEncEqDec=true":
            bad += 1
            if bad <= 8:
                ctx.violation("block writer model: an FSE-described table misses a side condition of the round-trip theorems (or is not counted): %s (%s)"
                              % (" ".join(parts[2:]), ln[:80]), dict(kind="tie", correspondence=corr, op=ln, c="", model=a[-80:]))
        written = parts[5][4:]
        for ch in written.replace("-", ""):
            STATS["written:" + ch] = STATS.get("written:" + ch, 0) + 1
        if ln in EXPECT_LIT and written != EXPECT_LIT[ln]:
            bad += 1
            ctx.violation("block writer model: literals sections written %s, the fixed case was built for %s (%s)" % (written, EXPECT_LIT[ln], ln[:80]),
                          dict(kind="tie", correspondence=corr, op=ln, c="", model=a[-80:]))
        declines.append("dec %d %s" % (len(x), parts[0]))
        declines.append("xxh %s" % frames.hx(x))
        who.append((ln, x, a))
    rc, res, err = frames.run_lines(exe, declines, timeout=1800)
    if rc != 0 or len(res) != len(declines):
        ctx.violation("zvh_dec pass did not complete (rc %s, %d / %d lines): %s" % (rc, len(res), len(declines), err[-300:]),
                      dict(kind="tie", op="", c=str(rc), model=""), no_input=True)
        return dict(evaluations=len(lines) + len(declines) // 2, mismatches=bad + 1)
    for i, (ln, x, a) in enumerate(who):
        got, want = res[2 * i], res[2 * i + 1]
        if got != want or want != "ok %d %s" % (len(x), want.split(" ")[-1]):
            bad += 1
            if bad <= 8:
                ctx.violation("real decoder applied to the frame written by the block writer MODEL does not regenerate the input: %s (expected %s) on %s"
                              % (got, want, ln[:80]), dict(kind="tie", correspondence=corr, op=ln, c=got, model=a))
    if STATS.get("written:f", 0) < 20:
        bad += 1
        ctx.violation("block writer tie: only %d literals sections with an FSE-compressed tree description were written in %d frames"
                      % (STATS.get("written:f", 0), len(lines)), dict(kind="tie", op="", c="", model=""), no_input=True)
    if STATS.get("written:t", 0) < 30:
        bad += 1
        ctx.violation("block writer tie: only %d treeless literals sections were written in %d frames (the generator no longer reaches them)"
                      % (STATS.get("written:t", 0), len(lines)), dict(kind="tie", op="", c="", model=""), no_input=True)
    nneg, negbad = run_negative(ctx, exe)
    bad += negbad
    rd = run_dict(ctx, exe)                                          # frames whose first blocks repeat a DICTIONARY's tables (op `cframed`)
    bad += rd.get("mismatches", 0)
    return dict(evaluations=len(lines) * 2 + nneg + rd.get("evaluations", 0), mismatches=bad, negative_cases=nneg, frames=len(lines), fse_tables_checked=nfse,
                table_decisions=dict(sorted(STATS.items())), dictionary_frames=rd)


if __name__ == "__main__":
    import random

    class Ctx:
        def __init__(self):
            self.rng = random.Random(int(sys.argv[1]) if len(sys.argv) > 1 else 1)
            self.violations = []

        def quick(self):
            return len(sys.argv) <= 2

        def violation(self, desc, replay, no_input=False, key=None):
            self.violations.append(desc)
            print("VIOLATION:", desc[:400])

    cx = Ctx()
    print(run(cx), "violations=%d" % len(cx.violations))
