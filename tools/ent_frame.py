"""Differential tie of the frame serializer model (lean/ZstdVerif/Model/Serialize.lean, theorems frame_roundtrip_raw /
frame_roundtrip_blocks / multi_frame_roundtrip in Lemmas/FrameRT.lean) to lib/compress/zstd_compress.c.

C side (harness/zvh_rawframe.c, which #includes zstd_compress.c): ZSTD_writeFrameHeader, ZSTD_noCompressBlock /
ZSTD_rleCompressBlock per block (cut like ZSTD_compress_frameChunk cuts), the real ZSTD_writeEpilogue; the frame it assembles is
also decoded by ZSTD_decompress (dec=ok).
Model side (`zvdriver serialize`): Serialize.rawFrame / rawFrameWith / serializeFrame, plus the decoder model on its own frame
(rt=ok).
Comparisons: (1) the two frames are byte-identical; (2) THE MODEL'S frame, handed to the real ZSTD_decompress with exactly
x.size bytes of room, regenerates x.
"""
import os, sys
sys.path.insert(0, os.path.dirname(os.path.abspath(__file__)))
import build, zv

BLOCK_MAX = 131072


def hx(b):
    return b.hex() if b else "-"


def gen_bytes(rng, n):
    style = rng.random()
    if n == 0:
        return b""
    if style < 0.5:
        return rng.randbytes(n)
    if style < 0.7:
        return bytes([rng.randrange(256)]) * n
    if style < 0.9:                       # runs (what RLE blocks are made of)
        out = bytearray()
        while len(out) < n:
            out += bytes([rng.randrange(256)]) * rng.randint(1, 1 + n // 3)
        return bytes(out[:n])
    return bytes((i * 7 + 3) & 255 for i in range(n))


def gen_size(rng, unit, big):
    """sizes around multiples of the block size `unit` (0, k*unit-1, k*unit, k*unit+1, ...)"""
    r = rng.random()
    if r < 0.06:
        return 0
    if r < 0.16:
        return rng.randint(1, 4)
    kmax = max(1, (400000 if big else 12000) // unit)
    k = rng.randint(1, min(kmax, 6))
    return max(0, k * unit + rng.choice((-2, -1, 0, 0, 1, 2, rng.randint(-unit + 1, unit - 1))))


def gen_raw(rng, big):
    wl = rng.randint(10, 20)
    csf, ck = rng.randint(0, 1), rng.randint(0, 1)
    natural = min(BLOCK_MAX, 1 << wl)
    if rng.random() < 0.5:
        bsz, unit = 0, natural                                  # the canonical rawFrame
    else:
        bsz = rng.choice((1, 2, 3, 7, 100, 1000, natural - 1, natural, rng.randint(1, natural)))
        bsz = max(1, min(bsz, natural))
        unit = bsz
    if not big and unit > 4096:
        wl, unit = 10, 1024
        bsz = 0 if bsz == 0 else min(bsz, 1024)
    n = gen_size(rng, unit, big)
    if bsz and n // bsz > 3000:
        n = bsz * rng.randint(0, 3000) + rng.randint(0, bsz - 1)
    x = gen_bytes(rng, n)
    return "rawframe %d %d %d %d %s" % (wl, csf, ck, bsz, hx(x)), x


def gen_blk(rng):
    """a random tiling by raw and RLE blocks, each at most min(2^windowLog, 128 KiB) bytes (and at most the content size)"""
    wl = rng.randint(10, 17)
    csf, ck = rng.randint(0, 1), rng.randint(0, 1)
    bmax = min(BLOCK_MAX, 1 << wl)
    nblocks = rng.choice((0, 1, 1, 2, 3, rng.randint(1, 12)))
    toks, out = [], bytearray()
    for _ in range(nblocks):
        ln = rng.choice((0, 1, 2, rng.randint(0, 64), rng.randint(0, bmax), bmax))
        if rng.random() < 0.45 and ln > 0:
            toks.append("e%d" % ln)
            out += bytes([rng.randrange(256)]) * ln
        else:
            toks.append("r%d" % ln)
            out += gen_bytes(rng, ln)
    return "blkframe %d %d %d %s %s" % (wl, csf, ck, ",".join(toks) if toks else "-", hx(bytes(out))), bytes(out)


def run(ctx):
    rng = ctx.rng
    exe = build.link("zvh_rawframe", ["zvh_rawframe.c"], "plain", exclude=("zstd_compress.c",))
    n = 300 if ctx.quick() else 1500
    ops = []
    for i in range(n):
        r = rng.random()
        if r < 0.62:
            ops.append(gen_raw(rng, big=(i % 10 == 0)))
        else:
            ops.append(gen_blk(rng))
    # fixed corner cases on every run: empty input under every flag combination, exact block-size multiples, 128 KiB blocks
    for wl in (10, 17, 20):
        for csf in (0, 1):
            for ck in (0, 1):
                ops.append(("rawframe %d %d %d 0 -" % (wl, csf, ck), b""))
    for sz in (1023, 1024, 1025, 2048, BLOCK_MAX - 1, BLOCK_MAX, BLOCK_MAX + 1, 2 * BLOCK_MAX, 400000):
        x = gen_bytes(rng, sz)
        ops.append(("rawframe 10 1 1 0 %s" % hx(x), x))
        ops.append(("rawframe 20 %d 1 0 %s" % (sz & 1, hx(x)), x))
    ops.append(("blkframe 10 1 1 - -", b""))
    ops.append(("blkframe 10 0 0 r0 -", b""))
    ops.append(("blkframe 17 1 1 e131072,r0 %s" % hx(b"\x55" * BLOCK_MAX), b"\x55" * BLOCK_MAX))
    lines = [o[0] for o in ops]
    c, m, crc, cerr = zv.differential(exe, "serialize", lines, timeout=1800)
    if crc != 0:
        ctx.violation("zvh_rawframe exited with %s: %s" % (crc, cerr[-600:]), dict(kind="tie", op="", c=str(crc), model=""), no_input=True)
    if len(c) != len(lines) or len(m) != len(lines):
        ctx.violation("frame serializer tie: %d ops, %d C answers, %d model answers" % (len(lines), len(c), len(m)),
                      dict(kind="tie", op="", c=str(len(c)), model=str(len(m))), no_input=True)
    bad = 0
    declines = []
    for (ln, x), a, b in zip(ops, c, m):
        ca, ma = a.split(" "), b.split(" ")
        rep = dict(kind="tie", correspondence="Serialize.rawFrame / serializeFrame vs ZSTD_writeFrameHeader + ZSTD_noCompressBlock / ZSTD_rleCompressBlock + ZSTD_writeEpilogue",
                   op=ln[:40000000], c=a[:40000000], model=b[:40000000])
        if a == "bad-op" or b == "bad-op" or a.startswith("err") or len(ca) != 2 or len(ma) != 2:
            bad += 1
            if bad <= 8:
                ctx.violation("frame serializer tie: unusable answer (C %s, model %s) for %s" % (a[:80], b[:80], ln[:80]), rep)
            continue
        if ca[0] != ma[0]:
            bad += 1
            if bad <= 8:
                ctx.violation("frame serializer model differs from zstd_compress.c on %s: C %s... model %s..." % (ln[:60], ca[0][:60], ma[0][:60]), rep)
        if ca[1] != "dec=ok":
            bad += 1
            if bad <= 8:
                ctx.violation("ZSTD_decompress does not regenerate the input from the frame assembled from the library's own block writers: %s (%s)" % (ca[1], ln[:60]), rep)
        if ma[1] != "rt=ok":
            bad += 1
            if bad <= 8:
                ctx.violation("decoder model does not regenerate the input from the serializer model's frame: %s (%s)" % (ma[1], ln[:60]), rep)
        declines.append("dec %s %s" % (ma[0], hx(x)))
    # the important comparison: the MODEL's frame through the real decoder
    rc, out, err = zv.run([exe], "\n".join(declines) + "\n", timeout=1800)
    res = out.split("\n")[:-1] if out.endswith("\n") else out.split("\n")
    if rc != 0 or len(res) != len(declines):
        ctx.violation("zvh_rawframe dec pass did not complete (rc %s, %d / %d lines): %s" % (rc, len(res), len(declines), err[-300:]),
                      dict(kind="tie", op="", c=str(rc), model=""), no_input=True)
    for dl, r in zip(declines, res):
        if r != "ok":
            bad += 1
            if bad <= 8:
                ctx.violation("ZSTD_decompress applied to the frame written by the serializer MODEL does not regenerate the input: %s" % r,
                              dict(kind="tie", correspondence="ZSTD_decompress(Serialize.serializeFrame a blocks x) = x", op=dl[:40000000], c=r, model="ok"))
    return dict(evaluations=len(lines) + len(declines), mismatches=bad)


if __name__ == "__main__":
    import random

    class Ctx:
        def __init__(self):
            self.rng = random.Random(int(sys.argv[1]) if len(sys.argv) > 1 else 1)
            self.violations = []

        def quick(self):
            return True

        def violation(self, desc, replay, no_input=False, key=None):
            self.violations.append(desc)
            print("VIOLATION:", desc[:300])

    cx = Ctx()
    print(run(cx), "violations=%d" % len(cx.violations))
