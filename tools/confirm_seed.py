#!/usr/bin/env python3
"""confirm_seed.py <prop> <variant> <srcdir>: independently confirm a seeded change in a scratch worktree:
demo passes on the clean tree, fails with the change, and the pinned suite (make check) passes with the change.
Writes /verif/seeded/<prop>-<variant>/{patch.diff,demo.*,notes.md,meta.json}."""
import json, os, shutil, subprocess, sys, time, glob
prop, var, src = sys.argv[1], sys.argv[2], sys.argv[3]
sid = "%s-%s" % (prop, var)
out = "/verif/seeded/" + sid
wt = "/tmp/wt/confirm-" + sid
def sh(cmd, cwd=None, timeout=3600):
    t = time.time()
    try:
        p = subprocess.run(cmd, shell=True, cwd=cwd, stdout=subprocess.PIPE, stderr=subprocess.STDOUT, text=True, timeout=timeout)
        return p.returncode, p.stdout[-1500:], round(time.time() - t, 1)
    except subprocess.TimeoutExpired:
        return 124, "TIMEOUT", round(time.time() - t, 1)
subprocess.run(["git", "-C", "/repo", "worktree", "remove", "--force", wt], stderr=subprocess.DEVNULL)
subprocess.check_call(["git", "-C", "/repo", "worktree", "add", "--detach", "-q", wt, "HEAD"])
res = {"id": sid, "property": prop, "source": src}
try:
    demo = [f for f in glob.glob(src + "/demo.*") if not f.endswith(".log")][0]
    txt = open(demo).read()
    extra = " -DZSTD_WINDOW_OVERFLOW_CORRECT_FREQUENTLY=1" if "ZSTD_WINDOW_OVERFLOW_CORRECT_FREQUENTLY" in txt[:3000] else ""
    seek = " contrib/seekable_format/zstdseek_compress.c contrib/seekable_format/zstdseek_decompress.c" if "seekable" in txt and '#include "zstdseek_' not in txt else ""
    if demo.endswith(".c"):
        build = ("gcc -O1 -g -w -DZSTD_MULTITHREAD%s -I lib -I lib/common -I lib/compress -I lib/decompress -I contrib/seekable_format -I . %s%s lib/common/*.c lib/compress/*.c "
                 "lib/decompress/*.c lib/decompress/*.S lib/dictBuilder/*.c -lpthread -o demo_bin" % (extra, demo, seek))
        runc = "timeout 300 ./demo_bin"
    elif demo.endswith(".sh"):
        build, runc = "true", "timeout 600 bash " + demo
    else:
        build, runc = "true", "timeout 600 python3 " + demo
    res["demo_build_cmd"], res["demo_run_cmd"] = build, runc
    rc, o, t = sh(build, wt); res["clean_build_rc"] = rc
    rc, o, t = sh(runc, wt); res["demo_clean_rc"], res["demo_clean_tail"], res["demo_clean_s"] = rc, o[-400:], t
    rc, o, t = sh("git apply %s/patch.diff" % src, wt); res["apply_rc"] = rc
    rc, o, t = sh(build, wt); res["changed_build_rc"] = rc
    rc, o, t = sh(runc, wt); res["demo_changed_rc"], res["demo_changed_tail"], res["demo_changed_s"] = rc, o[-400:], t
    sh("rm -f demo_bin", wt)
    rc, o, t = sh("make -k -j%s check" % os.environ.get("J", "4"), wt, timeout=2400); res["make_check_changed_rc"], res["make_check_s"] = rc, t
    res["confirmed"] = (res["demo_clean_rc"] == 0 and res["demo_changed_rc"] != 0 and res["make_check_changed_rc"] == 0 and res["apply_rc"] == 0)
finally:
    subprocess.run(["git", "-C", "/repo", "worktree", "remove", "--force", wt])
os.makedirs(out, exist_ok=True)
for f in glob.glob(src + "/*"):
    b = os.path.basename(f)
    if b in ("patch.diff", "notes.md") or b.startswith("demo."):
        shutil.copy(f, out)
notes = open(src + "/notes.md").read() if os.path.exists(src + "/notes.md") else ""
res["needs_to_manifest"] = notes[:1500]
res["what_was_run"] = "scratch worktree of /repo HEAD: build+run demo on clean tree; git apply patch.diff; build+run demo; make -k check"
json.dump(res, open(out + "/meta.json", "w"), indent=1)
print(sid, "confirmed" if res.get("confirmed") else "NOT CONFIRMED", {k: res.get(k) for k in ("demo_clean_rc", "demo_changed_rc", "make_check_changed_rc")})
