"""Shared machinery for the checks: lake build under a lock, proof audit, model/implementation
differential runs, replay files, evidence."""
import fcntl, json, os, re, subprocess, sys, time, random, hashlib, glob
import build, gen

VERIF = build.VERIF
LEAN = os.path.join(VERIF, "lean")
PROPS_DIR = os.path.join(LEAN, "ZstdVerif", "Props")
ALLOWED_AXIOMS = {"propext", "Classical.choice", "Quot.sound"}
FORBIDDEN_RE = re.compile(r"\bsorry\b|\badmit\b|^\s*axiom\s|native_decide|bv_decide|implemented_by|\bunsafe\s|maxHeartbeats\s+0\b")


def _lock(name):
    os.makedirs(build.CACHE, exist_ok=True)
    fh = open(os.path.join(build.CACHE, name), "w")
    fcntl.flock(fh, fcntl.LOCK_EX)
    return fh


def run(cmd, inp=None, timeout=None, cwd=None, env=None):
    try:
        p = subprocess.run(cmd, input=inp, stdout=subprocess.PIPE, stderr=subprocess.PIPE, text=True, timeout=timeout, cwd=cwd, env=env)
        return p.returncode, p.stdout, p.stderr
    except subprocess.TimeoutExpired as e:
        so = e.stdout.decode(errors="replace") if isinstance(e.stdout, bytes) else (e.stdout or "")
        se = e.stderr.decode(errors="replace") if isinstance(e.stderr, bytes) else (e.stderr or "")
        return -999, so, se + "\nTIMEOUT"


def runb(cmd, inp=None, timeout=None, cwd=None, env=None):
    """binary-safe variant"""
    try:
        p = subprocess.run(cmd, input=inp, stdout=subprocess.PIPE, stderr=subprocess.PIPE, timeout=timeout, cwd=cwd, env=env)
        return p.returncode, p.stdout, p.stderr
    except subprocess.TimeoutExpired as e:
        return -999, e.stdout or b"", (e.stderr or b"") + b"\nTIMEOUT"


def regenerate():
    """regenerate Gen/*.lean from the current tree (under the lake lock so no build sees half-written files)"""
    lk = _lock("lake.lock")
    try:
        return gen.regenerate()
    finally:
        lk.close()


def lake_build(targets):
    lk = _lock("lake.lock")
    try:
        t = time.time()
        rc, out, err = run(["lake", "build"] + list(targets), cwd=LEAN, timeout=3600)
        return rc == 0, out + err, time.time() - t
    finally:
        lk.close()


def driver_exe():
    return os.path.join(LEAN, ".lake", "build", "bin", "zvdriver")


def strip_comments(src):
    # remove /- ... -/ (nested not handled beyond one level) and -- comments
    out, i, depth = [], 0, 0
    while i < len(src):
        if src.startswith("/-", i):
            depth += 1; i += 2; continue
        if src.startswith("-/", i) and depth > 0:
            depth -= 1; i += 2; continue
        if depth == 0:
            if src.startswith("--", i):
                j = src.find("\n", i)
                i = len(src) if j < 0 else j
                continue
            out.append(src[i])
        elif src[i] == "\n":
            out.append("\n")
        i += 1
    return "".join(out)


def lean_files_for(prop):
    """Props/<prop>.lean plus every model/lemma file (the audit covers everything a theorem can depend on)."""
    fs = [os.path.join(PROPS_DIR, prop + ".lean")]
    for d in ("Model", "Lemmas"):
        fs += sorted(glob.glob(os.path.join(LEAN, "ZstdVerif", d, "*.lean")))
    return fs


def part_files(prop):
    """files named by `-- audit-parts: <path under lean/> ...` lines of Props/<prop>.lean: same namespace, audited as part of the property file"""
    raw = open(os.path.join(PROPS_DIR, prop + ".lean")).read()
    out = []
    for m in re.finditer(r"^--\s*audit-parts:\s*(.+)$", raw, re.M):
        out += [os.path.join(LEAN, p) for p in m.group(1).split()]
    return out


def theorems_of(prop):
    src = strip_comments(open(os.path.join(PROPS_DIR, prop + ".lean")).read())
    for pf in part_files(prop):
        src += "\n" + strip_comments(open(pf).read())
    ns = re.search(r"^namespace\s+(\S+)", src, re.M)
    ns = ns.group(1) if ns else ""
    names = re.findall(r"^\s*(?:private\s+|protected\s+)?theorem\s+(\S+)", src, re.M)
    examples = len(re.findall(r"^\s*example\b", src, re.M))
    return ns, names, examples


def audit(prop):
    """returns dict(ok, forbidden=[...], axioms={thm: [...]}, bad_axioms=[...], theorems=[...], examples=n)"""
    res = {"ok": True, "forbidden": [], "axioms": {}, "bad_axioms": [], "theorems": [], "examples": 0}
    for f in lean_files_for(prop):
        src = strip_comments(open(f).read())
        for ln, line in enumerate(src.split("\n"), 1):
            if FORBIDDEN_RE.search(line):
                res["forbidden"].append("%s:%d: %s" % (os.path.relpath(f, VERIF), ln, line.strip()[:120]))
    ns, names, ex = theorems_of(prop)
    res["theorems"], res["examples"] = names, ex
    tmp = os.path.join(build.CACHE, "audit_%s_%d.lean" % (prop, os.getpid()))
    with open(tmp, "w") as fh:
        fh.write("import ZstdVerif.Props.%s\n" % prop)
        for n in names:
            fh.write("#print axioms %s.%s\n" % (ns, n))
    rc, out, err = run(["lake", "env", "lean", tmp], cwd=LEAN, timeout=600)
    os.unlink(tmp)
    if rc != 0:
        res["ok"] = False
        res["audit_error"] = (out + err)[-2000:]
        return res
    # parse: "'X' depends on axioms: [a, b]" or "'X' does not depend on any axioms"
    for m in re.finditer(r"'([^']+)' (?:depends on axioms: \[([^\]]*)\]|does not depend on any axioms)", out.replace("\n ", " ")):
        axs = [a.strip() for a in (m.group(2) or "").split(",") if a.strip()]
        res["axioms"][m.group(1).split(".")[-1]] = axs
        for a in axs:
            if a not in ALLOWED_AXIOMS:
                res["bad_axioms"].append("%s: %s" % (m.group(1), a))
    if len(res["axioms"]) != len(names):
        res["ok"] = False
        res["audit_error"] = "axiom report covers %d of %d theorems" % (len(res["axioms"]), len(names))
    if res["forbidden"] or res["bad_axioms"]:
        res["ok"] = False
    return res


def leanchecker(prop):
    rc, out, err = run(["lake", "env", "leanchecker", "ZstdVerif.Props." + prop], cwd=LEAN, timeout=1800)
    return rc == 0, (out + err)[-1500:]


def differential(c_exe, model, lines, timeout=600, c_args=(), env=None):
    """run the same op lines through the C harness and the Lean driver; returns (c_lines, m_lines, c_rc, c_err)"""
    inp = "\n".join(lines) + "\n"
    crc, cout, cerr = run([c_exe] + list(c_args), inp, timeout=timeout, env=env)
    mrc, mout, merr = run([driver_exe(), model], inp, timeout=timeout)
    if mrc != 0:
        raise RuntimeError("lean driver failed (%s): %s" % (model, merr[-1000:]))
    return cout.split("\n")[:-1] if cout.endswith("\n") else cout.split("\n"), \
        mout.split("\n")[:-1] if mout.endswith("\n") else mout.split("\n"), crc, cerr


def first_diff(a, b):
    for i in range(max(len(a), len(b))):
        x = a[i] if i < len(a) else "<missing>"
        y = b[i] if i < len(b) else "<missing>"
        if x != y:
            return i
    return None


class Rng(random.Random):
    pass


def known_findings():
    p = os.path.join(VERIF, "known_findings.json")
    if not os.path.exists(p):
        return {"known": [], "fixed": []}
    with open(p) as f:
        return json.load(f)
