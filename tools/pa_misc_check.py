"""Library-side checks behind Lemmas/BoundRT.lean and Lemmas/DictRT.lean (run by hand: python3 tools/pa_misc_check.py).

1. BoundRT: ZSTD_compress2 of incompressible inputs with small windows / ZSTD_c_maxBlockSize = 1024 into a buffer of exactly
   ZSTD_compressBound(n) bytes (harness op `ccap`): must succeed, and the result must equal the size `BoundRT.rawFrameWith_size`
   computes for the all-raw frame (header + n + 3 per block + 4 if checksum).
2. DictRT: the two demo frames of Lemmas/DictRT.lean (raw-content dictionary "abcde"; formatted dictionary with ID 77 and repeat
   offsets {5, 2, 3}) are decoded by ZSTD_decompress_usingDict to the demo inputs, refused without / with the wrong dictionary.
"""
import random
import frames


def bound(n):
    return n + n // 256 + ((131072 - n) // 2048 if n < 131072 else 0)


def hdr(n, wl):
    single = (1 << wl) >= n
    fcs = (1 if n >= 256 else 0) + (1 if n >= 65536 + 256 else 0) + (1 if n >= 0xFFFFFFFF else 0)
    f = [1 if single else 0, 2, 4, 8][fcs]
    return 4 + 1 + (0 if single else 1) + f


def rawsize(n, wl, ck, bsz):
    b = min(bsz, max(1, min(1 << wl, n)))
    k = max(1, (n + b - 1) // b)
    return hdr(n, wl) + n + 3 * k + (4 if ck else 0)


def main():
    exe = frames.harness()
    rng = random.Random(7)
    sizes = [0, 1, 2, 255, 256, 807, 808, 1023, 1024, 1025, 2047, 2048, 2049, 3073, 65791, 65792, 73721, 129121, 131071, 131072, 131073,
             200001, 262144, 262145, 400000]
    lines, meta = [], []
    for n in sizes:
        data = bytes(rng.getrandbits(8) for _ in range(n))
        for wl, mb in [(10, 1024), (10, 0), (11, 2048), (17, 1024), (20, 0)]:
            for ck in (0, 1):
                ps = "100=1,101=%d,201=%d" % (wl, ck) + (",1015=%d" % mb if mb else "")
                lines.append("ccap %s %d %s" % (ps, bound(n), data.hex() if n else "-"))
                meta.append((n, wl, mb, ck, bound(n), rawsize(n, wl, ck, min(131072, mb if mb else 131072))))
    rc, out, err = frames.run_lines(exe, lines)
    assert rc == 0 and len(out) == len(meta), (rc, err[-300:])
    bad = 0
    for m, o in zip(meta, out):
        t = o.split()
        if t[0] != "ok" or len(t) > 2 or int(t[1]) > m[4] or int(t[1]) != m[5] or m[5] > m[4]:
            print("MISMATCH", m, o); bad += 1
    print("ccap: %d cases, %d mismatches (library size == model raw-frame size <= ZSTD_compressBound everywhere else)" % (len(meta), bad))

    raw_frame = bytes([0x28, 0xb5, 0x2f, 0xfd, 0x00, 0x00, 0x55, 0x00, 0x00, 0x10, 0x58, 0x21, 0x02, 0x00, 0x2d, 0x20, 0x05, 0x0e, 0x08])
    fmt_frame = bytes([0x28, 0xb5, 0x2f, 0xfd, 0x01, 0x00, 0x4d, 0x55, 0x00, 0x00, 0x10, 0x58, 0x21, 0x02, 0x00, 0x00, 0x00, 0x00, 0x5c, 0x01])
    fmt_dict = bytes.fromhex("37a430ec4d000000801000022020849040444444241009249040a207204448883821120804229184222232c88814141424c9101032"
                             "12402022230223814894240569920e0500000002000000030000006162636465")
    lines = ["dec 9 %s %s" % (raw_frame.hex(), b"abcde".hex()), "xxh %s" % b"dedeXabc!".hex(), "dec 9 %s" % raw_frame.hex(),
             "dec 8 %s %s" % (fmt_frame.hex(), fmt_dict.hex()), "xxh %s" % b"Xbcdcdc!".hex(),
             "dec 8 %s %s" % (fmt_frame.hex(), b"abcde".hex()), "dec 8 %s" % fmt_frame.hex()]
    rc, out, err = frames.run_lines(exe, lines)
    print("dict demo:", out)
    ok = (out[0] == out[1] and out[2].startswith("err") and out[3] == out[4] and out[5] == "err dictionary_wrong"
          and out[6] == "err dictionary_wrong")
    print("dict demo agrees with Lemmas/DictRT.lean:", ok)
    return 0 if (bad == 0 and ok) else 1


if __name__ == "__main__":
    raise SystemExit(main())
