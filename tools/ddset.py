"""Histories over one decoding context and a pool of digested dictionaries (harness/zvh_ddset.c), shared by C08 / C14 / C16.

A history is one line `ddh <h|z|p> <ids> <ops...>`; the answer has one token per op.  `expect()` is the reference behaviour, written from
zstd.h (ZSTD_DCtx_refDDict, ZSTD_d_refMultipleDDicts, ZSTD_DCtx_reset, ZSTD_initStatic*) and independent of table slots:

  * the context holds at most one current dictionary and, under ZSTD_d_refMultipleDDicts, a set of references keyed by dictionary ID;
    a frame naming ID X is decoded with the member X when there is one, else with the current dictionary; the result is the right bytes
    when that dictionary's ID is X and dictionary_wrong otherwise - never bytes that differ from the source;
  * a raw-content DDict (ID 0) is a member like any other: it is neither an empty slot nor the dictionary of a frame naming another ID;
  * ZSTD_reset_parameters / session_and_parameters drop the current dictionary, every member of the set and the parameter; session_only none;
  * ZSTD_sizeof_DCtx is never below the bytes the context's allocator holds;
  * a static context never calls an allocator: the entry points that need an internal DDict answer memory_allocation, the parameter
    answers parameter_unsupported, and referencing a caller-owned DDict works as on the heap."""
import build, frames

RESETS = {1: "session_only", 2: "parameters", 3: "session_and_parameters"}


def hx(variant="plain"):
    return build.link("zvh_ddset", ["zvh_ddset.c"], variant)


_home = {}


def homes(exe, lo=1, hi=6000):
    """XXH64 of every ID in [lo, hi): the set's home slot at table size 2^k is the low k bits"""
    if not _home:
        rc, out, err = frames.run_lines(exe, ["home 0 1", "home %d %d" % (lo, hi)])
        if rc != 0 or len(out) != 2:
            raise RuntimeError("zvh_ddset home: rc=%s %s" % (rc, err[-300:]))
        _home[0] = int(out[0], 16)
        for i, h in enumerate(out[1].split()):
            _home[lo + i] = int(h, 16)
    return _home


def colliding_ids(exe, rng, n, size=64, spread=2):
    """n distinct IDs whose home slot is the raw-content member's (ID 0) or one of the `spread` slots before it (their probe walks over it)"""
    h = homes(exe)
    s0 = h[0] & (size - 1)
    want = {(s0 - j) & (size - 1) for j in range(spread + 1)}
    pool = [x for x in h if x and (h[x] & (size - 1)) in want]
    rng.shuffle(pool)
    return pool[:n]


# ------------------------------------------------------------------------------------------------------------------ reference
def expect(kind, ids, ops):
    """list of (token, note): token is the exact answer, or a tuple of acceptable answers; 'z' is judged separately"""
    static = kind != "h"
    cur, multi, members, have_set = None, 0, {}, False
    out = []
    for op in ops:
        c = op[0]
        k = None if op[1:2] == "n" or c in "z" else int("".join(ch for ch in op[1:] if ch.isdigit()) or 0)
        if c == "m":
            if static:
                out.append("m:parameter_unsupported")
            else:
                multi = k; out.append("m:ok")
        elif c == "r":
            cur = k
            if k is not None and multi:
                have_set = True; members[ids[k]] = k
            out.append("r:ok")
        elif c in "lbpu":
            if static:
                cur = None; out.append(c + ":memory_allocation")
            else:
                cur = ("once", k) if c == "p" else k; out.append(c + ":ok")
        elif c == "R":
            if k in (2, 3):
                cur, multi, members, have_set = None, 0, {}, False
            out.append("R:ok")
        elif c == "z":
            out.append("z")
        elif c == "d":
            if k is None:      # a frame made without dictionary decodes whatever the context holds
                if isinstance(cur, tuple): cur = None
                elif multi and have_set and cur is not None and 0 in members: cur = members[0]
                out.append("d:right"); continue
            x = ids[k]
            active = multi and have_set and cur is not None
            once = isinstance(cur, tuple)
            use = cur[1] if once else cur
            if x != 0:
                if active and x in members:
                    cur = use = members[x]; once = False
                if once:       # refPrefix: raw content whatever the bytes, no ID -> a frame naming an ID is refused
                    out.append("d:dictionary_wrong")
                elif use is not None and ids[use] == x:
                    out.append("d:right")
                else:
                    out.append("d:dictionary_wrong")
            else:
                # a frame without ID: nothing names its dictionary; the right one gives the right bytes, any other one an error (checksum)
                if active and 0 in members:
                    out.append(("d:right", "d:corruption", "d:checksum_wrong", "d:dictionary_corrupted", "d:literals_headerWrong", "d:tableLog_tooLarge", "d:dstSize_tooSmall", "d:srcSize_wrong", "d:generic"))
                    cur = members[0]
                elif use == k and not (once and ids[k] != 0):
                    out.append("d:right")
                else:
                    out.append(("d:corruption", "d:checksum_wrong", "d:dictionary_corrupted", "d:literals_headerWrong", "d:tableLog_tooLarge", "d:dstSize_tooSmall", "d:srcSize_wrong", "d:generic"))
            if once:
                cur = None
        else:
            out.append("?")
    return out


def judge(line, answer):
    """None, or (message, key) describing the first op whose answer the reference does not allow"""
    parts = line.split(" ")
    kind, ids, ops = parts[1], [int(x) for x in parts[2].split(",")], parts[3:]
    if not answer or answer.startswith(("err no-answer", "FATAL", "TIMEOUT")):
        return ("the library crashed (or the harness died) inside this history of a %s context: %s" % ({"h": "heap", "z": "static", "p": "static (block not zeroed by the caller)"}[kind], answer or "<nothing>"), "crash")
    toks = answer.split(" ")
    exp = expect(kind, ids, ops)
    if len(toks) < len(ops):
        return ("history answered %d of %d ops: %s" % (len(toks), len(ops), answer[-200:]), "short")
    for i, (op, e, t) in enumerate(zip(ops, exp, toks)):
        where = "op %d `%s` of `%s %s ...`" % (i, op, kind, parts[2][:60])
        if e == "z":
            a, b = t[2:].split("/")
            if b != "-" and int(a) < int(b):
                return ("ZSTD_sizeof_DCtx under-reports: %s < %s bytes held from the context's allocator (%s; after %s)" % (a, b, where, " ".join(ops[max(0, i - 4):i])), "sizeof")
            continue
        ok = (t == e) if isinstance(e, str) else (t in e)
        if ok:
            continue
        want = e if isinstance(e, str) else "|".join(e)
        if t == "d:WRONG":
            return ("decoding succeeded with WRONG BYTES: frame of dictionary %d (ID %d) decoded as something else than its source; allowed: %s (%s; history %s)" % (int(op[1:-1]), ids[int(op[1:-1])], want, where, " ".join(ops[:i + 1])[-300:]), "wrong-bytes")
        if op[0] == "d" and t == "d:right":
            return ("a frame %s was decoded although the context no longer holds that dictionary (dropped by a parameter reset / never referenced since): expected %s (%s; history %s)" % (("naming dictionary ID %d" % ids[int(op[1:-1])]) if ids[int(op[1:-1])] else "made with a raw-content dictionary", want, where, " ".join(ops[:i + 1])[-300:]), "stale-dict")
        if op[0] in "lbpu" and kind != "h":
            return ("a static context answered %s to %s, which needs an internal DDict: a static context never allocates, expected %s (%s)" % (t, {"l": "ZSTD_DCtx_loadDictionary", "b": "ZSTD_DCtx_loadDictionary_byReference", "p": "ZSTD_DCtx_refPrefix", "u": "ZSTD_initDStream_usingDict"}[op[0]], want, where), "static-alloc")
        return ("%s answered %s, expected %s (history %s)" % (where, t, want, " ".join(ops[:i + 1])[-300:]), "other")
    extra = toks[len(ops):]
    if any(x.startswith("LEAK") for x in extra):
        return ("the context was freed but %s bytes of its allocator remain (`%s`)" % (extra[0][5:], line[:200]), "leak")
    return None


# ------------------------------------------------------------------------------------------------------------------ generators
def _mk(kind, ids, ops):
    return "ddh %s %s %s" % (kind, ",".join(map(str, ids)), " ".join(ops))


def _uniq_ids(rng, n, avoid=()):
    s = set()
    while len(s) < n:
        x = rng.choice([rng.randint(1, 5999), rng.randint(1, 5999), rng.randint(32768, 2 ** 31 - 1)])
        if x not in avoid:
            s.add(x)
    return list(s)


def _far_ids(exe, rng, n, dist=8):
    """n distinct IDs whose home slot (table size 64) is more than `dist` slots away from the raw-content member's: their probes never meet it"""
    h = homes(exe)
    s0 = h[0] & 63
    pool = [x for x in h if x and min(((h[x] & 63) - s0) % 64, (s0 - (h[x] & 63)) % 64) > dist]
    return rng.sample(pool, n)


def gen_reset(exe, rng, n):
    """C16: what each reset directive keeps and drops, the set included: reference some dictionaries under the parameter, reset, enable the parameter again,
    reference OTHER dictionaries, decode frames of the earlier ones"""
    out = []
    for i in range(n):
        nd = rng.randint(2, 6)
        ids = _uniq_ids(rng, nd)
        if rng.random() < 0.3:      # with a raw-content dictionary in the pool (the lookup next to a raw member is the subject of gen_rawset, not of this family)
            ids = _far_ids(exe, rng, nd)
            ids[rng.randrange(nd)] = 0
        ops = []
        mode = lambda: rng.choice("os")
        alive_rounds = rng.randint(2, 4)
        for rd in range(alive_rounds):
            if rng.random() < 0.85: ops.append("m1")
            elif rng.random() < 0.5: ops.append("m0")
            for k in rng.sample(range(nd), rng.randint(1, max(1, nd - 1))):
                ops.append("r%d" % k)
                if rng.random() < 0.3: ops.append("d%d%s" % (rng.randrange(nd), mode()))
            for _ in range(rng.randint(1, 3)):
                ops.append("d%d%s" % (rng.randrange(nd), mode()))
            if rng.random() < 0.2: ops.append("dn" + mode())
            if rd < alive_rounds - 1:
                ops.append("R%d" % rng.choice([1, 2, 3, 3, 2]))
                if rng.random() < 0.5: ops.append("d%d%s" % (rng.randrange(nd), mode()))
        out.append(_mk("h", ids, ops))
    # directed: every reset kind x {one-shot, streaming} x the dictionary named by the frame referenced before the reset only
    for rk in (1, 2, 3):
        for md in "os":
            ids = _uniq_ids(rng, 3)
            out.append(_mk("h", ids, ["m1", "r0", "r1", "d0" + md, "R%d" % rk, "d0" + md, "m1", "r2", "d0" + md, "d1" + md, "d2" + md]))
    return out


def gen_rawset(exe, rng, n):
    """C08: raw-content DDicts as members of the set, IDs whose probe sequence walks over the raw member's slot (table sizes 64 and, for the larger sets,
    128 / 256 after the expansions), frames whose dictionary is / is not a member, every insertion order"""
    out = []
    for i in range(n):
        big = rng.random() < 0.2
        size = 64
        ncol = rng.randint(1, 5)
        col = colliding_ids(exe, rng, ncol, size=size, spread=rng.choice([0, 0, 1, 3]))
        if big:
            col += colliding_ids(exe, rng, 3, size=128, spread=1) + colliding_ids(exe, rng, 3, size=256, spread=1)
            col = list(dict.fromkeys(col))
        others = _uniq_ids(rng, rng.randint(0, 3) + (rng.randint(14, 40) if big else 0), avoid=set(col))
        nraw = rng.choice([1, 1, 1, 2, 0])
        ids = col + others + [0] * nraw
        rng.shuffle(ids)
        nd = len(ids)
        members = [k for k in range(nd) if rng.random() < (0.9 if big else 0.7) or ids[k] == 0]
        absent = [k for k in range(nd) if k not in members]
        rng.shuffle(members)
        ops = ["m1"] + ["r%d" % k for k in members]
        probe = [k for k in range(nd) if ids[k] in col or ids[k] == 0] + rng.sample(range(nd), min(nd, 3)) + absent[:4]
        rng.shuffle(probe)
        for k in probe[:14]:
            ops.append("d%d%s" % (k, rng.choice("os")))
            if rng.random() < 0.1: ops.append("R1")
        if rng.random() < 0.3:
            ops.append("dn" + rng.choice("os"))
        out.append(_mk("h", ids, ops))
    # directed: the set holds ONLY a raw-content DDict; a frame names an ID whose home slot is the raw member's
    for x in colliding_ids(exe, rng, 2, size=64, spread=0):
        for md in "os":
            out.append(_mk("h", [0, x], ["m1", "r0", "d1" + md, "r1", "d1" + md, "d0" + md]))
            out.append(_mk("h", [x, 0], ["m1", "r0", "r1", "d0" + md, "d1" + md]))
    return out


def gen_sizeof(rng, n):
    """C14: ZSTD_sizeof_DCtx against the context's allocator while the set is created, grows over its expansion points (16, 32, 64 members), is dropped by a
    reset, next to an internal DDict and stream buffers"""
    out = []
    for cnt in [1, 2, 15, 16, 17, 31, 33, 64, 70][:n]:
        ids = _uniq_ids(rng, cnt)
        ops = ["z", "m1"]
        for k in range(cnt):
            ops.append("r%d" % k)
            if k in (0, 14, 15, 16, 31, 32, 63, cnt - 1) or rng.random() < 0.1: ops.append("z")
        ops += ["d0s", "z", "R%d" % rng.choice([2, 3]), "z", "l0", "z", "m1", "r1" if cnt > 1 else "r0", "z", "R1", "z"]
        out.append(_mk("h", ids, ops))
    for i in range(max(0, n - 9)):
        ids = _uniq_ids(rng, rng.randint(1, 24)) + ([0] if rng.random() < 0.4 else [])
        nd = len(ids)
        ops = []
        for _ in range(rng.randint(6, 30)):
            ops.append(rng.choice(["m1", "m1", "m0", "r%d" % rng.randrange(nd), "r%d" % rng.randrange(nd), "r%d" % rng.randrange(nd), "l%d" % rng.randrange(nd), "b%d" % rng.randrange(nd),
                                   "d%d%s" % (rng.randrange(nd), rng.choice("os")), "R%d" % rng.randint(1, 3), "rn"]))
            if rng.random() < 0.5: ops.append("z")
        ops.append("z")
        out.append(_mk("h", ids, ops))
    return out


def gen_static(rng, n):
    """C14: static decoding contexts in a zeroed block and in a block the caller did not zero: every entry point that would need an internal DDict, the
    parameter that needs the set, then a caller-owned DDict and decoding (which must keep working inside the block)"""
    out = []
    for i in range(n):
        kind = "zp"[i % 2]
        ids = _uniq_ids(rng, rng.randint(1, 3)) + ([0] if rng.random() < 0.4 else [])
        nd = len(ids)
        ops = []
        if rng.random() < 0.5: ops += ["r0", "d0" + rng.choice("os")]
        for _ in range(rng.randint(1, 4)):
            ops.append(rng.choice("lbpu") + str(rng.randrange(nd)))
            if rng.random() < 0.5: ops.append("d%d%s" % (rng.randrange(nd), rng.choice("os")))
            if rng.random() < 0.3: ops.append("m%d" % rng.randint(0, 1))
            if rng.random() < 0.3: ops.append("R%d" % rng.randint(1, 3))
        k = rng.randrange(nd)
        ops += ["r%d" % k, "d%ds" % k, "d%do" % k, "dn" + rng.choice("os"), "z"]
        out.append(_mk(kind, ids, ops))
    return out


# ------------------------------------------------------------------------------------------------------------------ run
def run(ctx, prop, families, variant="plain", max_report=3, only=None):
    """families: dict name -> list of lines. Evaluates, judges, registers violations (at most max_report per family and kind of failure). Returns the lines.
    only: dict family -> set of failure kinds this property speaks about (default: all)"""
    exe = hx(variant)
    lines, fam = [], []
    for name, ls in families.items():
        lines += ls; fam += [name] * len(ls)
    chunks = frames.split_chunks(lines, 8)
    outs = frames.parallel(lambda ch: frames.run_lines_exact(exe, ch, timeout=600), chunks)
    seen = {}
    for ln, o, f in zip(lines, outs, fam):
        v = judge(ln, o)
        if v:
            msg, key = v
            if only and f in only and key not in only[f]:
                continue
            seen[(f, key)] = seen.get((f, key), 0) + 1
            if seen[(f, key)] <= max_report:
                parts = ln.split(" ")
                ctx.violation("%s [%s histories over one decoding context]: %s" % (prop, f, msg),
                              dict(kind="monitor", family="ddset-" + f, op=ln, result=o, expected=[e if isinstance(e, str) else "|".join(e) for e in expect(parts[1], [int(x) for x in parts[2].split(",")], parts[3:])]))
    return lines


def replay(ctx, data):
    op = data["op"]
    res, bad = [], False
    for variant in ("plain", "san"):
        o = frames.run_lines_exact(hx(variant), [op], timeout=600)[0]
        v = judge(op, o)
        bad = bad or bool(v)
        res.append("%s build: %s%s" % (variant, o[:400], (" => " + v[0]) if v else ""))
    return dict(violates=bad, result=res)
