"""Differential tie of the Huffman ENCODER model (lean/ZstdVerif/Model/HufEnc.lean, theorems in Lemmas/HufRT.lean) to the library.

C side (harness/zvh_hufenc.c): HUF_buildCTable_wksp / HUF_writeCTable_wksp / HUF_readCTable / HUF_compress{1,4}X_usingCTable.
Model side (`zvdriver hufenc`): code values from the code lengths the C side chose (sent as weights), the bit stream, the 4-stream
layout, and a decode of the model's own stream with the decoder model (Huf.buildTable + Huf.decode1 / decode4).
The choice of code lengths is the compressor's heuristic and is not modelled: it travels from C to the model as weights.
Tree description (`whdr`): the bytes HUF_writeCTable_wksp wrote for those weights against the model's `LitEnc.fseWeights` (the
FSE-COMPRESSED form: HUF_compressWeights = FSE_writeNCount + FSE_compress_usingCTable with two interleaved states; the normalised counts,
the heuristic part, are read out of the C bytes) / `LitEnc.directWeights` (the 4-bit form), byte for byte, and `Huf.readStats` on the
model's bytes gives the weights back.
"""
import os, sys
sys.path.insert(0, os.path.dirname(os.path.abspath(__file__)))
import build, zv


def gen_buffer(rng):
    """(maxNbBits, bytes) : sizes 1..5000, alphabets of 2..256 symbols, several shapes"""
    shape = rng.choice(["uniform", "skew", "skew", "dominant", "two", "geometric", "tiny"])
    n = rng.choice([rng.randint(1, 40), rng.randint(1, 300), rng.randint(1, 5000), rng.randint(1000, 5000)])
    if shape == "tiny":
        n = rng.randint(1, 24)
    k = 2 if shape == "two" else rng.choice([rng.randint(2, 8), rng.randint(2, 40), rng.randint(2, 256), 256])
    alpha = rng.sample(range(256), k)
    if rng.random() < 0.3:
        alpha.sort()
    if shape in ("uniform", "tiny"):
        wts = [1.0] * k
    elif shape == "skew":
        e = rng.choice([0.5, 1.0, 1.5, 2.5])
        wts = [1.0 / (i + 1) ** e for i in range(k)]
    elif shape == "geometric":
        q = rng.choice([0.5, 0.7, 0.9])
        wts = [max(q ** i, 1e-9) for i in range(k)]
    elif shape == "dominant":
        p = rng.choice([0.8, 0.95, 0.99])
        wts = [p] + [(1 - p) / max(1, k - 1)] * (k - 1)
    else:  # two
        p = rng.choice([0.5, 0.7, 0.97])
        wts = [p, 1 - p]
    data = bytes(rng.choices(alpha, weights=wts, k=n))
    r = rng.random()
    if r < 0.35:
        mb = rng.randint(5, 8)
    elif r < 0.5:
        mb = rng.randint(9, 10)
    elif r < 0.55:
        mb = 0      # HUF_TABLELOG_DEFAULT
    elif r < 0.62:
        mb = 12     # HUF_TABLELOG_MAX (never used for literals by the compressor, accepted by the API and by HUF_readCTable)
    else:
        mb = 11
    return mb, data


def parse_c(line):
    """'ok log=L msv=M codes=.. [hdr=..] [stream=..] [tight=..]' -> dict, or None for skip / error lines"""
    if not line.startswith("ok "):
        return None
    d = {}
    for tok in line.split()[1:]:
        k, _, v = tok.partition("=")
        d[k] = v
    return d


def weights_of(c):
    log = int(c["log"])
    ws = []
    for cv in c["codes"].split(","):
        nb = int(cv.split(":")[1])
        ws.append(log + 1 - nb if nb else 0)     # HUF_writeCTable_wksp: bitsToWeight
    return log, ",".join(map(str, ws))


def kv(line):
    return dict(tok.partition("=")[::2] for tok in line.split())


def run(ctx):
    rng = ctx.rng
    exe = build.link("zvh_hufenc", ["zvh_hufenc.c"], "plain")
    bufs = [gen_buffer(rng) for _ in range(800)]
    # a few fixed corner cases: 2 symbols, exactly 12 / 11 bytes (4-stream threshold), all 256 symbols once
    bufs += [(11, b"ab"), (11, b"abababababab"), (11, b"abcabcabcab"), (11, bytes(range(256))), (8, bytes(range(256)) * 3),
             (5, bytes([i % 24 for i in range(2000)])), (11, b"a" * 4999 + b"b")]
    c_in = []
    for mb, data in bufs:
        hx = data.hex()
        c_in += ["ctable %d %s" % (mb, hx), "enc1 %d %s" % (mb, hx), "enc4 %d %s" % (mb, hx)]
    rc, out, err = zv.run([exe], "\n".join(c_in) + "\n", timeout=600)
    c_out = out.split("\n")
    if rc != 0 or len(c_out) < len(c_in):
        ctx.violation("zvh_hufenc failed: rc=%s %s" % (rc, err[-500:]), dict(kind="tie", op="harness", c=out[-2000:], model=""))
        return dict(evaluations=0)
    n = 0
    m_in, m_meta, r_in, r_meta = [], [], [], []
    for i, (mb, data) in enumerate(bufs):
        ct, e1, e4 = (parse_c(c_out[3 * i + j]) for j in range(3))
        if ct is None:
            if not c_out[3 * i].startswith("skip"):
                ctx.violation("HUF_buildCTable_wksp failed on a buffer with >= 2 distinct symbols: %s" % c_out[3 * i][:200],
                              dict(kind="tie", op=c_in[3 * i][:40000000], c=c_out[3 * i], model=""))
            continue
        if e1 is None or e4 is None or e1["codes"] != ct["codes"] or e4["codes"] != ct["codes"] or e1["log"] != ct["log"]:
            ctx.violation("C side not deterministic across ops", dict(kind="tie", op=c_in[3 * i][:40000000], c=c_out[3 * i:3 * i + 3], model=""))
            continue
        log, ws = weights_of(ct)
        hx = data.hex()
        m_in += ["codes %d %s" % (log, ws), "enc1 %d %s %s" % (log, ws, hx), "enc4 %d %s %s" % (log, ws, hx)]
        m_meta.append((i, ct, e1, e4))
        if e1.get("hdr", "err") != "err":
            r_in.append("rctable " + e1["hdr"])
            r_meta.append((i, ct))
    rc, out, err = zv.run([zv.driver_exe(), "hufenc"], "\n".join(m_in) + "\n", timeout=1200)
    m_out = out.split("\n")
    if rc != 0 or len(m_out) < len(m_in):
        ctx.violation("zvdriver hufenc failed: rc=%s %s" % (rc, err[-500:]), dict(kind="tie", op="driver", c="", model=out[-2000:]))
        return dict(evaluations=0)
    for j, (i, ct, e1, e4) in enumerate(m_meta):
        mc, m1, m4 = (kv(m_out[3 * j + t]) for t in range(3))
        ops = m_in[3 * j:3 * j + 3]
        n += 3
        if mc.get("codes") != ct["codes"]:
            ctx.violation("code values differ: HUF_buildCTableFromTree vs HufEnc.codesOf (log=%s)" % ct["log"],
                          dict(kind="tie", op=ops[0][:40000000], c=ct["codes"], model=mc.get("codes")))
        if mc.get("weightsOK") != "true":
            ctx.violation("weights derived from the library's code lengths fail WeightsOK",
                          dict(kind="tie", op=ops[0][:40000000], c=ct["codes"], model=m_out[3 * j][-200:]))
        for tag, ce, me, op in (("enc1", e1, m1, ops[1]), ("enc4", e4, m4, ops[2])):
            if ce.get("stream") != me.get("stream"):
                ctx.violation("%s stream bytes differ between the library and the model" % tag,
                              dict(kind="tie", op=op[:40000000], c=ce.get("stream"), model=me.get("stream")))
            if me.get("rt") not in ("ok", "-") or (me.get("rt") == "-" and me.get("stream") != "refused"):
                ctx.violation("%s: the decoder model does not invert the encoder model: rt=%s" % (tag, me.get("rt")),
                              dict(kind="tie", op=op[:40000000], c=ce.get("stream"), model=me.get("stream")))
            if ce.get("stream") not in ("refused", "err") and ce.get("tight") != "same":
                ctx.violation("%s: library output depends on the destination capacity (tight=%s)" % (tag, ce.get("tight")),
                              dict(kind="tie", op=op[:40000000], c=ce.get("stream"), model=""))
        if e4.get("stream") == "refused" and len(bufs[i][1]) >= 12:
            ctx.violation("enc4 refused an input of %d >= 12 bytes" % len(bufs[i][1]), dict(kind="tie", op=ops[2][:40000000], c="refused", model=m4.get("stream")))
    # HUF_readCTable on the header written by HUF_writeCTable_wksp rebuilds the same codes (both C functions share the model's rule)
    if r_in:
        rc, out, err = zv.run([exe], "\n".join(r_in) + "\n", timeout=600)
        r_out = out.split("\n")
        for j, (i, ct) in enumerate(r_meta):
            n += 1
            rr = parse_c(r_out[j]) if j < len(r_out) else None
            if rr is None or rr["codes"] != ct["codes"] or rr["log"] != ct["log"] or rr["msv"] != ct["msv"]:
                ctx.violation("HUF_readCTable(HUF_writeCTable_wksp(ctable)) differs from the ctable built from the tree",
                              dict(kind="tie", op=r_in[j], c=ct["codes"], model=(r_out[j] if j < len(r_out) else "")[:4000]))
    # the tree description: HUF_writeCTable_wksp (FSE-compressed weights when that is smaller, else 4-bit weights) vs the model
    w_in, w_meta = [], []
    for (i, ct, e1, e4) in m_meta:
        if e1.get("hdr", "err") != "err":
            log, ws = weights_of(ct)
            w_in.append("whdr %d %s %s" % (log, ws, e1["hdr"]))
            w_meta.append(e1["hdr"])
    forms = {}
    if w_in:
        rc, out, err = zv.run([zv.driver_exe(), "hufenc"], "\n".join(w_in) + "\n", timeout=1200)
        w_out = out.split("\n")
        if rc != 0 or len(w_out) < len(w_in):
            ctx.violation("zvdriver hufenc (whdr) failed: rc=%s %s" % (rc, err[-500:]), dict(kind="tie", op="driver", c="", model=out[-2000:]))
        else:
            for op, chdr, a in zip(w_in, w_meta, w_out):
                n += 1
                d = kv(a)
                forms[d.get("form")] = forms.get(d.get("form"), 0) + 1
                if d.get("hdr") != chdr:
                    ctx.violation("tree description bytes differ between HUF_writeCTable_wksp and the model (%s form)" % d.get("form"),
                                  dict(kind="tie", op=op[:400000], c=chdr, model=a[:4000]))
                elif d.get("rs") != "ok":
                    ctx.violation("Huf.readStats does not read the model's tree description back: %s" % d.get("rs"),
                                  dict(kind="tie", op=op[:400000], c=chdr, model=a[:4000]))
        if forms.get("fse", 0) < 50 or forms.get("direct", 0) < 1:
            ctx.violation("tree descriptions: %s - one of the two forms is hardly reached any more" % forms, dict(kind="tie", op="", c="", model=""),
                          no_input=True)
    return dict(evaluations=n, tree_descriptions=forms)


if __name__ == "__main__":
    import random

    class Ctx:
        rng = random.Random(int(sys.argv[1]) if len(sys.argv) > 1 else 1)
        violations = []
        def violation(self, desc, replay, no_input=False, key=None):
            self.violations.append((desc, replay))
        def quick(self):
            return True
    c = Ctx()
    print(run(c), "violations=%d" % len(c.violations))
    for d, r in c.violations[:5]:
        print(d, {k: (str(v)[:300]) for k, v in r.items()})
