"""Differential tie of the literals-section WRITER model (lean/ZstdVerif/Model/LitEnc.lean, theorems in Lemmas/LitRT.lean and
Lemmas/HufBytes.lean) to the library.

C side (harness/zvh_litenc.c): ZSTD_noCompressLiterals / ZSTD_compressRleLiteralsBlock / ZSTD_compressLiterals.
Model side (`zvdriver litenc`): LitEnc.rawLiterals / rleLiterals / hufLiterals (header packing for the 3/4/5-byte formats, tree
description in the direct 4-bit form, 1 or 4 streams through the byte-level bit writer), then `Block.decodeLiterals` on the model's
bytes (rt=ok) and on the library's bytes (dec).
The code LENGTHS are the compressor's heuristic: they travel from C to the model as weights.  When the library's tree description is
in the direct form the whole section is compared byte for byte against the model's own direct form; when the library preferred
FSE-compressed weights (HUF_compressWeights; modelled by LitEnc.fseWeights and tied by tools/ent_huf.py `whdr`, not used by this tie) its tree-description bytes are handed to the model, so
the header packing and the streams are still compared, and the decoder model must read the library's section back.
"""
import os, sys
sys.path.insert(0, os.path.dirname(os.path.abspath(__file__)))
import build, zv

# sizes around every header-format threshold: 31/32 and 4095/4096 (raw / RLE header 1/2/3 bytes), 255/256 (single stream),
# 1023/1024 and 16383/16384 (compressed header 3/4/5 bytes), 63/64 and 7/8 (ZSTD_minLiteralsToCompress), 65535.. (stream size limit)
EDGES = [0, 1, 2, 5, 6, 7, 8, 11, 12, 13, 30, 31, 32, 33, 62, 63, 64, 65, 254, 255, 256, 257, 1022, 1023, 1024, 1025, 4094, 4095, 4096,
         4097, 16382, 16383, 16384, 16385, 32768, 65535, 65536, 70000]


def gen_alpha(rng):
    r = rng.random()
    if r < 0.45:      # small symbol values: maxSymbolValue small, the tree description stays in the direct form
        k = rng.choice([2, 3, 4, rng.randint(2, 12), rng.randint(2, 24)])
        return list(range(k)) if rng.random() < 0.6 else sorted(rng.sample(range(rng.choice([16, 32, 64, 128])), min(k, 16)))
    k = rng.choice([rng.randint(2, 8), rng.randint(2, 40), rng.randint(2, 256), 256])
    alpha = rng.sample(range(256), k)
    if rng.random() < 0.3:
        alpha.sort()
    return alpha


def gen_data(rng, n):
    alpha = gen_alpha(rng)
    k = len(alpha)
    shape = rng.choice(["uniform", "skew", "skew", "dominant", "geometric"])
    if shape == "uniform":
        wts = [1.0] * k
    elif shape == "skew":
        e = rng.choice([0.5, 1.0, 1.5, 2.5])
        wts = [1.0 / (i + 1) ** e for i in range(k)]
    elif shape == "geometric":
        q = rng.choice([0.5, 0.7, 0.9])
        wts = [max(q ** i, 1e-9) for i in range(k)]
    else:
        p = rng.choice([0.8, 0.95, 0.99])
        wts = [p] + [(1 - p) / max(1, k - 1)] * (k - 1)
    return bytes(rng.choices(alpha, weights=wts, k=n))


def kv(line):
    return dict(tok.partition("=")[::2] for tok in line.split()[1:]) if line.startswith("ok ") else None


def kvm(line):
    return dict(tok.partition("=")[::2] for tok in line.split())


def tree_of(section_hex):
    """(lhSize, tree description bytes as hex, direct?) of a compressed literals section"""
    b = bytes.fromhex(section_hex)
    lhl = (b[0] >> 2) & 3
    lh = 3 if lhl < 2 else 4 if lhl == 2 else 5
    hb = b[lh]
    size = 1 + ((hb - 127) + 1) // 2 if hb >= 128 else hb + 1
    return lh, b[lh:lh + size].hex(), hb >= 128


def run(ctx):
    rng = ctx.rng
    exe = build.link("zvh_litenc", ["zvh_litenc.c"], "plain")
    ops = []          # (c op, kind, data, strategy)
    sizes = list(EDGES) + [rng.randint(0, 300) for _ in range(40)] + [rng.randint(300, 5000) for _ in range(30)] + \
            [rng.randint(5000, 70000) for _ in range(8)]
    for n in sizes:
        data = gen_data(rng, n)
        ops.append(("lit raw %s" % (data.hex() or "-"), "raw", data, 0))
        if n >= 1:
            rl = bytes([rng.randrange(256)]) * n
            ops.append(("lit rle %s" % rl.hex(), "rle", rl, 0))
        for _ in range(2 if n >= 6 else 1):
            d2 = gen_data(rng, n)
            st = rng.choice([1, 1, 3, 5, 7, 9])
            ops.append(("lit huf %s %d" % (d2.hex() or "-", st), "huf", d2, st))
    # the 20-bit size field of the raw / RLE header
    ops.append(("lit raw %s" % (b"\x07" * 262143).hex(), "raw", b"\x07" * 262143, 0))
    ops.append(("lit rle %s" % (b"\x09" * 262143).hex(), "rle", b"\x09" * 262143, 0))
    ops.append(("lit huf %s 1" % (bytes([1, 2] * 131071 + [3])).hex(), "huf", bytes([1, 2] * 131071 + [3]), 1))
    ops.append(("lit huf %s 1" % (b"\x05" * 5000).hex(), "huf", b"\x05" * 5000, 1))
    rc, out, err = zv.run([exe], "\n".join(o[0] for o in ops) + "\n", timeout=900)
    c_out = out.split("\n")
    if rc != 0 or len(c_out) < len(ops):
        ctx.violation("zvh_litenc failed: rc=%s %s" % (rc, err[-500:]), dict(kind="tie", op="harness", c=out[-2000:], model=""))
        return dict(evaluations=0)
    m_in, meta = [], []
    for (cop, kind, data, st), cl in zip(ops, c_out):
        c = kv(cl)
        hx = data.hex() or "-"
        if c is None:
            ctx.violation("library refused a literals buffer: %s" % cl[:200], dict(kind="tie", op=cop[:40000000], c=cl[:2000], model=""))
            continue
        mode = c["mode"]
        if kind != "huf" and mode != kind:
            ctx.violation("library wrote mode %s for op %s" % (mode, kind), dict(kind="tie", op=cop[:40000000], c=cl[:2000], model=""))
            continue
        if mode in ("raw", "rle"):
            m_in.append("%s %s" % (mode, hx)); meta.append((cop, c, "bytes"))
        elif mode == "huf":
            log = int(c["log"])
            ws = ",".join(str(log + 1 - int(nb) if int(nb) else 0) for nb in c["nb"].split(","))
            lh, tree, direct = tree_of(c["section"])
            m_in.append("huf %d %s %s %s" % (log, ws, "-" if direct else tree, hx)); meta.append((cop, c, "direct" if direct else "given"))
        else:
            ctx.violation("library reused a table although none was valid", dict(kind="tie", op=cop[:40000000], c=cl[:2000], model=""))
            continue
        m_in.append("dec %s %s" % (c["section"], hx)); meta.append((cop, c, "dec"))
    rc, out, err = zv.run([zv.driver_exe(), "litenc"], "\n".join(m_in) + "\n", timeout=1800)
    m_out = out.split("\n")
    if rc != 0 or len(m_out) < len(m_in):
        ctx.violation("zvdriver litenc failed: rc=%s %s" % (rc, err[-500:]), dict(kind="tie", op="driver", c="", model=out[-2000:]))
        return dict(evaluations=0)
    n = 0
    stats = dict(raw=0, rle=0, direct=0, given=0)
    for (cop, c, what), mop, ml in zip(meta, m_in, m_out):
        m = kvm(ml)
        n += 1
        if what == "dec":
            if m.get("rt") != "ok":
                ctx.violation("the decoder model does not read the library's literals section back: rt=%s" % m.get("rt"),
                              dict(kind="tie", op=cop[:40000000], c=c["section"][:4000], model=ml[:300]))
            continue
        stats[what if what in ("direct", "given") else c["mode"]] += 1
        if m.get("section") != c["section"]:
            ctx.violation("literals section bytes differ between the library and the model (%s, mode %s)" % (what, c["mode"]),
                          dict(kind="tie", op=cop[:40000000], c=c["section"][:4000], model=(m.get("section") or ml)[:4000]))
        if m.get("rt") != "ok":
            ctx.violation("Block.decodeLiterals does not invert the literals writer model: rt=%s" % m.get("rt"),
                          dict(kind="tie", op=mop[:40000000], c=c["section"][:4000], model=ml[:300]))
    return dict(evaluations=n, **stats)


if __name__ == "__main__":
    import random

    class Ctx:
        rng = random.Random(int(sys.argv[1]) if len(sys.argv) > 1 else 1)
        violations = []
        def violation(self, desc, replay, no_input=False, key=None):
            self.violations.append((desc, replay))
        def quick(self):
            return True
    c = Ctx()
    print(run(c), "violations=%d" % len(c.violations))
    for d, r in c.violations[:5]:
        print(d, {k: (str(v)[:300]) for k, v in r.items()})
