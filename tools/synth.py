"""Synthesizer of VALID frames that use format features the bundled compressor never emits (C04): literals in raw / RLE mode of any
size format (incl. RLE literals > 64 KiB), sequences with all three tables in RLE mode or `repeat` mode, every length / offset code,
repeat-offset codes with ll=0, long nbSeq encodings, raw / RLE / empty blocks, every window descriptor and content-size width,
skippable frames in between.  Validity is approximate here; the independent Lean decoder (strict) is the filter and the reference."""

LL_base = [0, 1, 2, 3, 4, 5, 6, 7, 8, 9, 10, 11, 12, 13, 14, 15, 16, 18, 20, 22, 24, 28, 32, 40, 48, 64, 0x80, 0x100, 0x200, 0x400, 0x800, 0x1000,
           0x2000, 0x4000, 0x8000, 0x10000]
LL_bits = [0] * 16 + [1, 1, 1, 1, 2, 2, 3, 3, 4, 6, 7, 8, 9, 10, 11, 12, 13, 14, 15, 16]
ML_base = list(range(3, 35)) + [35, 37, 39, 41, 43, 47, 51, 59, 67, 83, 99, 0x83, 0x103, 0x203, 0x403, 0x803, 0x1003, 0x2003, 0x4003, 0x8003, 0x10003]
ML_bits = [0] * 32 + [1, 1, 1, 1, 2, 2, 3, 3, 4, 4, 5, 7, 8, 9, 10, 11, 12, 13, 14, 15, 16]


def bitstream(fields):
    """fields in READING order: (value, nbits); returns the backward bitstream bytes (with end mark)"""
    acc = 1
    for v, n in fields:
        acc = (acc << n) | (v & ((1 << n) - 1))
    return acc.to_bytes((acc.bit_length() + 7) // 8, "little")


def lit_header(kind, size, fmt=None):
    """raw (0) / RLE (1) literals section header"""
    if fmt is None:
        fmt = 0 if size < 32 else (1 if size < 4096 else 3)
    if fmt in (0, 2):
        assert size < 32
        return bytes([kind | (fmt << 2) | (size << 3)])
    if fmt == 1:
        assert size < 4096
        v = kind | (1 << 2) | (size << 4)
        return v.to_bytes(2, "little")
    v = kind | (3 << 2) | (size << 4)
    return v.to_bytes(3, "little")


def nbseq_bytes(n, rng):
    if n < 128 and rng.random() < 0.8:
        return bytes([n])
    if n < 0x7F00 and rng.random() < 0.8:
        return bytes([0x80 + (n >> 8), n & 0xFF])
    assert n >= 0x7F00 or True
    if n >= 0x7F00:
        return bytes([0xFF]) + (n - 0x7F00).to_bytes(2, "little")
    return bytes([0x80 + (n >> 8), n & 0xFF])


class Hist:
    def __init__(self):
        self.out = bytearray()
        self.rep = [1, 4, 8]
        self.tables = None      # (llc, ofc, mlc) of the last compressed block with sequences


def compressed_block(rng, h, blockmax, last):
    """one compressed block whose three tables are in RLE mode (or repeat); returns body bytes and updates the simulated history"""
    avail = len(h.out)
    use_repeat = h.tables is not None and rng.random() < 0.35
    if use_repeat:
        llc, ofc, mlc = h.tables
    else:
        llc = rng.choice([0, 0, 1, 3, 15, 16, 20, 24, 25, 30, 35]) if rng.random() < 0.8 else rng.randrange(36)
        mlc = rng.choice([0, 1, 5, 31, 32, 40, 45, 52]) if rng.random() < 0.8 else rng.randrange(53)
        ofc = rng.choice([0, 1, 2, 3, 5, 8, 10, 12, 16]) if rng.random() < 0.85 else rng.randrange(0, 18)
    budget = blockmax
    nseq_target = rng.choice([1, 2, 3, 10, 100, 127, 128, 300]) if rng.random() < 0.9 else rng.choice([0x7F00, 0x7F00 + 5])
    seqs = []
    rep = list(h.rep)
    pos = avail
    total = 0
    lits_needed = 0
    for _ in range(nseq_target):
        ll = LL_base[llc] + (rng.getrandbits(LL_bits[llc]) if LL_bits[llc] else 0)
        ml = ML_base[mlc] + (rng.getrandbits(ML_bits[mlc]) if ML_bits[mlc] else 0)
        if total + ll + ml > budget:
            break
        p = pos + ll
        ll0 = 1 if ll == 0 else 0
        extra = 0
        if ofc >= 2:
            lo = (1 << ofc) - 3
            hi = (1 << ofc) + (1 << ofc) - 1 - 3
            if lo > p or lo < 1:
                if ofc == 2 and p >= 1:
                    pass
                else:
                    break
            hi = min(hi, p)
            off = rng.randint(max(lo, 1), hi) if hi >= max(lo, 1) else None
            if off is None:
                break
            extra = off - lo
            rep = [off, rep[0], rep[1]]
        elif ofc == 0:
            off = rep[ll0]
            if ll0:
                rep = [rep[1], rep[0], rep[2]]
        else:
            bit = rng.getrandbits(1)
            code = 1 + ll0 + bit
            off = rep[0] - 1 if code == 3 else rep[code]
            if off < 1:
                break
            extra = bit
            rep = [off, rep[0], rep[1]] if code != 1 else [off, rep[0], rep[2]]
        if off > p or off < 1:
            break
        seqs.append((ll, ml, off, extra))
        lits_needed += ll
        total += ll + ml
        pos = p + ml
    tail = rng.choice([0, 0, 1, 5, 1000]) if budget - total > 1000 else 0
    nlits = lits_needed + tail
    # literals section
    lit_kind = rng.choice([0, 1, 1]) if nlits > 0 else 0
    if lit_kind == 0:
        lits = bytes(rng.getrandbits(8) for _ in range(min(nlits, 4096))) * (nlits // 4096 + 1)
        lits = lits[:nlits]
        lit_sec = lit_header(0, nlits, rng.choice([0, 2]) if nlits < 32 and rng.random() < 0.7 else (1 if nlits < 4096 and rng.random() < 0.7 else 3)) + lits
    else:
        b = rng.getrandbits(8)
        lits = bytes([b]) * nlits
        lit_sec = lit_header(1, nlits, 0 if nlits < 32 and rng.random() < 0.5 else (1 if nlits < 4096 and rng.random() < 0.7 else 3)) + bytes([b])
    if not seqs:
        body = lit_sec + b"\x00"
        h.out += lits
        return body
    # sequences section
    sec = nbseq_bytes(len(seqs), rng)
    if use_repeat:
        sec += bytes([0xFC])
    else:
        sec += bytes([0x54, llc, ofc, mlc])
    fields = []
    for (ll, ml, off, extra) in seqs:
        ofbits = ofc if ofc >= 2 else (1 if ofc == 1 else 0)
        if ofbits:
            fields.append((extra, ofbits))
        if ML_bits[mlc]:
            fields.append((ml - ML_base[mlc], ML_bits[mlc]))
        if LL_bits[llc]:
            fields.append((ll - LL_base[llc], LL_bits[llc]))
    sec += bitstream(fields)
    body = lit_sec + sec
    # simulate
    lp = 0
    for (ll, ml, off, extra) in seqs:
        h.out += lits[lp:lp + ll]; lp += ll
        for _ in range(ml):
            h.out.append(h.out[-off])
    h.out += lits[lp:]
    h.rep = rep
    h.tables = (llc, ofc, mlc)
    return body


def frame(rng, maxblocks=5):
    """returns (frame bytes, expected content according to the synthesizer's own simulation)"""
    h = Hist()
    single = rng.random() < 0.3
    wlog = rng.choice([10, 11, 12, 14, 17, 17, 18, 20, 22])
    mant = rng.randrange(8)
    window = (1 << wlog) + ((1 << wlog) >> 3) * mant
    blocks = []
    nb = rng.randint(1, maxblocks)
    blockmax = min(window, 131072) if not single else 131072
    for bi in range(nb):
        last = bi == nb - 1
        k = rng.random()
        if k < 0.15:
            n = rng.choice([0, 1, 100, min(blockmax, 5000)])
            data = bytes(rng.getrandbits(8) for _ in range(n))
            blocks.append(((n << 3) | (0 << 1) | int(last)).to_bytes(3, "little") + data); h.out += data
        elif k < 0.3:
            n = rng.choice([1, 7, 1000, blockmax])
            b = rng.getrandbits(8)
            blocks.append(((n << 3) | (1 << 1) | int(last)).to_bytes(3, "little") + bytes([b])); h.out += bytes([b]) * n
        else:
            body = compressed_block(rng, h, blockmax, last)
            if len(body) >= blockmax or len(body) >= (1 << 21):
                data = b"xy"; blocks.append(((2 << 3) | int(last)).to_bytes(3, "little") + data); h.out += data
            else:
                blocks.append(((len(body) << 3) | (2 << 1) | int(last)).to_bytes(3, "little") + body)
    content = bytes(h.out)
    n = len(content)
    if single:
        blockmax_needed = n
    fcs_id = 0
    if single:
        fcs_id = 0 if n < 256 and rng.random() < 0.5 else (1 if 256 <= n < 65792 and rng.random() < 0.7 else (2 if n < 2**32 and rng.random() < 0.8 else 3))
        if fcs_id == 0 and n >= 256:
            fcs_id = 2
        if fcs_id == 1 and not (256 <= n < 65792):
            fcs_id = 2
    else:
        fcs_id = rng.choice([0, 0, 1, 2, 3])
        if fcs_id == 1 and not (256 <= n < 65792):
            fcs_id = 0
    fhd = (fcs_id << 6) | (int(single) << 5)
    hdr = b"\x28\xb5\x2f\xfd" + bytes([fhd])
    if not single:
        hdr += bytes([((wlog - 10) << 3) | mant])
    if fcs_id == 0 and single:
        hdr += bytes([n])
    elif fcs_id == 1:
        hdr += (n - 256).to_bytes(2, "little")
    elif fcs_id == 2:
        hdr += n.to_bytes(4, "little")
    elif fcs_id == 3:
        hdr += n.to_bytes(8, "little")
    return hdr + b"".join(blocks), content


def stream(rng):
    """several frames and skippable frames back to back"""
    parts, content = [], b""
    for _ in range(rng.choice([1, 1, 1, 2, 3])):
        if rng.random() < 0.2:
            pl = bytes(rng.getrandbits(8) for _ in range(rng.choice([0, 1, 2, 9])))
            parts.append((0x184D2A50 + rng.randrange(16)).to_bytes(4, "little") + len(pl).to_bytes(4, "little") + pl)
        f, c = frame(rng)
        parts.append(f); content += c
    return b"".join(parts), content
