"""Synthesizer of VALID frames that use format features the bundled compressor never emits (C04): literals in raw / RLE mode of any
size format (incl. RLE literals > 64 KiB), sequences with all three tables in RLE mode or `repeat` mode, every length / offset code,
repeat-offset codes with ll=0, long nbSeq encodings, raw / RLE / empty blocks, every window descriptor and content-size width,
skippable frames in between.  Validity is approximate here; the independent Lean decoder (strict) is the filter and the reference."""

LL_base = [0, 1, 2, 3, 4, 5, 6, 7, 8, 9, 10, 11, 12, 13, 14, 15, 16, 18, 20, 22, 24, 28, 32, 40, 48, 64, 0x80, 0x100, 0x200, 0x400, 0x800, 0x1000,
           0x2000, 0x4000, 0x8000, 0x10000]
LL_bits = [0] * 16 + [1, 1, 1, 1, 2, 2, 3, 3, 4, 6, 7, 8, 9, 10, 11, 12, 13, 14, 15, 16]
ML_base = list(range(3, 35)) + [35, 37, 39, 41, 43, 47, 51, 59, 67, 83, 99, 0x83, 0x103, 0x203, 0x403, 0x803, 0x1003, 0x2003, 0x4003, 0x8003, 0x10003]
ML_bits = [0] * 32 + [1, 1, 1, 1, 2, 2, 3, 3, 4, 4, 5, 7, 8, 9, 10, 11, 12, 13, 14, 15, 16]


def bitstream(fields):
    """fields in READING order: (value, nbits); returns the backward bitstream bytes (with end mark)"""
    acc = 1
    for v, n in fields:
        acc = (acc << n) | (v & ((1 << n) - 1))
    return acc.to_bytes((acc.bit_length() + 7) // 8, "little")


def lit_header(kind, size, fmt=None):
    """raw (0) / RLE (1) literals section header"""
    if fmt is None:
        fmt = 0 if size < 32 else (1 if size < 4096 else 3)
    if fmt in (0, 2):
        assert size < 32
        return bytes([kind | (fmt << 2) | (size << 3)])
    if fmt == 1:
        assert size < 4096
        v = kind | (1 << 2) | (size << 4)
        return v.to_bytes(2, "little")
    v = kind | (3 << 2) | (size << 4)
    return v.to_bytes(3, "little")


def nbseq_bytes(n, rng):
    if n < 128 and rng.random() < 0.8:
        return bytes([n])
    if n < 0x7F00 and rng.random() < 0.8:
        return bytes([0x80 + (n >> 8), n & 0xFF])
    assert n >= 0x7F00 or True
    if n >= 0x7F00:
        return bytes([0xFF]) + (n - 0x7F00).to_bytes(2, "little")
    return bytes([0x80 + (n >> 8), n & 0xFF])


class Hist:
    def __init__(self):
        self.out = bytearray()
        self.rep = [1, 4, 8]
        self.tables = None      # (llc, ofc, mlc) of the last compressed block with sequences


def compressed_block(rng, h, blockmax, last):
    """one compressed block whose three tables are in RLE mode (or repeat); returns body bytes and updates the simulated history"""
    avail = len(h.out)
    use_repeat = h.tables is not None and rng.random() < 0.35
    if use_repeat:
        llc, ofc, mlc = h.tables
    else:
        llc = rng.choice([0, 0, 1, 3, 15, 16, 20, 24, 25, 30, 35]) if rng.random() < 0.8 else rng.randrange(36)
        mlc = rng.choice([0, 1, 5, 31, 32, 40, 45, 52]) if rng.random() < 0.8 else rng.randrange(53)
        ofc = rng.choice([0, 1, 2, 3, 5, 8, 10, 12, 16]) if rng.random() < 0.85 else rng.randrange(0, 18)
    budget = blockmax
    nseq_target = rng.choice([1, 2, 3, 10, 100, 127, 128, 300]) if rng.random() < 0.9 else rng.choice([0x7F00, 0x7F00 + 5])
    seqs = []
    rep = list(h.rep)
    pos = avail
    total = 0
    lits_needed = 0
    for _ in range(nseq_target):
        ll = LL_base[llc] + (rng.getrandbits(LL_bits[llc]) if LL_bits[llc] else 0)
        ml = ML_base[mlc] + (rng.getrandbits(ML_bits[mlc]) if ML_bits[mlc] else 0)
        if total + ll + ml > budget:
            break
        p = pos + ll
        ll0 = 1 if ll == 0 else 0
        extra = 0
        if ofc >= 2:
            lo = (1 << ofc) - 3
            hi = (1 << ofc) + (1 << ofc) - 1 - 3
            if lo > p or lo < 1:
                if ofc == 2 and p >= 1:
                    pass
                else:
                    break
            hi = min(hi, p)
            off = rng.randint(max(lo, 1), hi) if hi >= max(lo, 1) else None
            if off is None:
                break
            extra = off - lo
            rep = [off, rep[0], rep[1]]
        elif ofc == 0:
            off = rep[ll0]
            if ll0:
                rep = [rep[1], rep[0], rep[2]]
        else:
            bit = rng.getrandbits(1)
            code = 1 + ll0 + bit
            off = rep[0] - 1 if code == 3 else rep[code]
            if off < 1:
                break
            extra = bit
            rep = [off, rep[0], rep[1]] if code != 1 else [off, rep[0], rep[2]]
        if off > p or off < 1:
            break
        seqs.append((ll, ml, off, extra))
        lits_needed += ll
        total += ll + ml
        pos = p + ml
    tail = rng.choice([0, 0, 1, 5, 1000]) if budget - total > 1000 else 0
    nlits = lits_needed + tail
    # literals section
    lit_kind = rng.choice([0, 1, 1]) if nlits > 0 else 0
    if lit_kind == 0:
        lits = bytes(rng.getrandbits(8) for _ in range(min(nlits, 4096))) * (nlits // 4096 + 1)
        lits = lits[:nlits]
        lit_sec = lit_header(0, nlits, rng.choice([0, 2]) if nlits < 32 and rng.random() < 0.7 else (1 if nlits < 4096 and rng.random() < 0.7 else 3)) + lits
    else:
        b = rng.getrandbits(8)
        lits = bytes([b]) * nlits
        lit_sec = lit_header(1, nlits, 0 if nlits < 32 and rng.random() < 0.5 else (1 if nlits < 4096 and rng.random() < 0.7 else 3)) + bytes([b])
    if not seqs:
        body = lit_sec + b"\x00"
        h.out += lits
        return body
    # sequences section
    sec = nbseq_bytes(len(seqs), rng)
    if use_repeat:
        sec += bytes([0xFC])
    else:
        sec += bytes([0x54, llc, ofc, mlc])
    fields = []
    for (ll, ml, off, extra) in seqs:
        ofbits = ofc if ofc >= 2 else (1 if ofc == 1 else 0)
        if ofbits:
            fields.append((extra, ofbits))
        if ML_bits[mlc]:
            fields.append((ml - ML_base[mlc], ML_bits[mlc]))
        if LL_bits[llc]:
            fields.append((ll - LL_base[llc], LL_bits[llc]))
    sec += bitstream(fields)
    body = lit_sec + sec
    # simulate
    lp = 0
    for (ll, ml, off, extra) in seqs:
        h.out += lits[lp:lp + ll]; lp += ll
        for _ in range(ml):
            h.out.append(h.out[-off])
    h.out += lits[lp:]
    h.rep = rep
    h.tables = (llc, ofc, mlc)
    return body


def frame(rng, maxblocks=5):
    """returns (frame bytes, expected content according to the synthesizer's own simulation)"""
    h = Hist()
    single = rng.random() < 0.3
    wlog = rng.choice([10, 11, 12, 14, 17, 17, 18, 20, 22])
    mant = rng.randrange(8)
    window = (1 << wlog) + ((1 << wlog) >> 3) * mant
    blocks = []
    nb = rng.randint(1, maxblocks)
    blockmax = min(window, 131072) if not single else 131072
    for bi in range(nb):
        last = bi == nb - 1
        k = rng.random()
        if k < 0.15:
            n = rng.choice([0, 1, 100, min(blockmax, 5000)])
            data = bytes(rng.getrandbits(8) for _ in range(n))
            blocks.append(((n << 3) | (0 << 1) | int(last)).to_bytes(3, "little") + data); h.out += data
        elif k < 0.3:
            n = rng.choice([1, 7, 1000, blockmax])
            b = rng.getrandbits(8)
            blocks.append(((n << 3) | (1 << 1) | int(last)).to_bytes(3, "little") + bytes([b])); h.out += bytes([b]) * n
        else:
            body = compressed_block(rng, h, blockmax, last)
            if len(body) >= blockmax or len(body) >= (1 << 21):
                data = b"xy"; blocks.append(((2 << 3) | int(last)).to_bytes(3, "little") + data); h.out += data
            else:
                blocks.append(((len(body) << 3) | (2 << 1) | int(last)).to_bytes(3, "little") + body)
    content = bytes(h.out)
    n = len(content)
    if single:
        blockmax_needed = n
    fcs_id = 0
    if single:
        fcs_id = 0 if n < 256 and rng.random() < 0.5 else (1 if 256 <= n < 65792 and rng.random() < 0.7 else (2 if n < 2**32 and rng.random() < 0.8 else 3))
        if fcs_id == 0 and n >= 256:
            fcs_id = 2
        if fcs_id == 1 and not (256 <= n < 65792):
            fcs_id = 2
    else:
        fcs_id = rng.choice([0, 0, 1, 2, 3])
        if fcs_id == 1 and not (256 <= n < 65792):
            fcs_id = 0
    fhd = (fcs_id << 6) | (int(single) << 5)
    hdr = b"\x28\xb5\x2f\xfd" + bytes([fhd])
    if not single:
        hdr += bytes([((wlog - 10) << 3) | mant])
    if fcs_id == 0 and single:
        hdr += bytes([n])
    elif fcs_id == 1:
        hdr += (n - 256).to_bytes(2, "little")
    elif fcs_id == 2:
        hdr += n.to_bytes(4, "little")
    elif fcs_id == 3:
        hdr += n.to_bytes(8, "little")
    return hdr + b"".join(blocks), content


def rawlit_tail(rng):
    """valid single-frame input whose LAST block (no checksum, so it is the last thing in the input) has Raw literals that the decoder may
    reference in place inside the compressed block, followed by a SHORT sequences section (5..48 bytes) and sequences with long literal runs
    that end at / near the end of the literals: the over-reading literal copy of the last sequences then starts a few bytes before the end
    of the input (the wildcopy guard of ZSTD_decodeLiteralsBlock decides whether that is allowed).  Returns (frame, content)."""
    h = Hist()
    blocks = []
    if rng.random() < 0.3:
        n = rng.choice([1, 40, 700]); data = bytes(rng.getrandbits(8) for _ in range(n))
        blocks.append(((n << 3) | 0).to_bytes(3, "little") + data); h.out += data
    llc = rng.choice([16, 19, 22, 22, 23, 24, 25])          # literal lengths 16 .. 127
    mlc = rng.choice([0, 0, 1, 5])
    ofc = rng.choice([2, 3, 3, 4])
    nseq = rng.randint(1, 40)
    seqs, lits_needed = [], 0
    pos = len(h.out)
    for _ in range(nseq):
        ll = LL_base[llc] + rng.getrandbits(LL_bits[llc])
        ml = ML_base[mlc]
        lo = (1 << ofc) - 3
        off = lo + rng.getrandbits(ofc)
        if off > pos + ll or off < 1:
            off = max(1, min(lo + (1 << ofc) - 1, pos + ll)); 
            if off < lo: break
        seqs.append((ll, ml, off, off - lo)); lits_needed += ll; pos += ll + ml
    tail = rng.choice([0, 0, 0, 1, 3, 15, 16, 17, 31])
    nlits = lits_needed + tail
    lits = bytes(rng.getrandbits(8) for _ in range(nlits))
    lit_sec = lit_header(0, nlits, 1 if nlits < 4096 and rng.random() < 0.7 else 3) + lits
    sec = bytes([len(seqs)]) + bytes([0x54, llc, ofc, mlc])
    fields = []
    for (ll, ml, off, extra) in seqs:
        fields.append((extra, ofc))
        if ML_bits[mlc]: fields.append((ml - ML_base[mlc], ML_bits[mlc]))
        if LL_bits[llc]: fields.append((ll - LL_base[llc], LL_bits[llc]))
    sec += bitstream(fields)
    body = lit_sec + sec
    lp = 0
    for (ll, ml, off, extra) in seqs:
        h.out += lits[lp:lp + ll]; lp += ll
        for _ in range(ml):
            h.out.append(h.out[-off])
    h.out += lits[lp:]
    blocks.append(((len(body) << 3) | (2 << 1) | 1).to_bytes(3, "little") + body)
    wl = rng.choice([0, 8, 0x38])
    return b"\x28\xb5\x2f\xfd\x00" + bytes([wl]) + b"".join(blocks), bytes(h.out)


def biglit_frame(rng, info=False):
    """valid single-block frame whose compressed block has MORE than 64 KiB of literals (RLE or raw) and only a few (1..8) sequences with
    long literal runs and very long matches, regenerating close to 128 KiB: decoded into a destination with no spare room the literals are
    split between the end of the destination and the decoder's side buffer, and the hand-over falls among the last sequences; decoded into
    a destination that is slightly too small, the overflow is discovered late in the block.  Returns (frame, content)."""
    nlits = rng.randint(65537 + 200, 90000)
    nseq = rng.randint(1, 8)
    llc = rng.choice([26, 27, 28, 29, 30])        # literal-length codes with bases 128 .. 2048 (7..11 extra bits)
    mlc = rng.choice([45, 48, 50, 52])            # match-length codes with bases 515 .. 65539
    seqs, used_l, total = [], 0, 0
    budget = 131072
    for k in range(nseq):
        ll = LL_base[llc] + rng.getrandbits(LL_bits[llc])
        ml = ML_base[mlc] + rng.getrandbits(ML_bits[mlc])
        if used_l + ll > nlits - 1 or total + ll + ml > budget - (nlits - used_l - ll):
            break
        seqs.append((ll, ml)); used_l += ll; total += ll + ml
    if not seqs:
        seqs = [(LL_base[llc], ML_base[mlc])]; used_l = LL_base[llc]; total = sum(seqs[0])
    kind = rng.choice([0, 1, 1])
    if kind == 1:
        b = rng.getrandbits(8); lits = bytes([b]) * nlits; lit_sec = lit_header(1, nlits, 3) + bytes([b])
    else:
        lits = bytes(rng.getrandbits(8) for _ in range(4096)) * (nlits // 4096 + 1); lits = lits[:nlits]; lit_sec = lit_header(0, nlits, 3) + lits
    # all three tables in RLE mode; offset code 0 = repeat offset 1 (= 1 at the start of a frame: the match repeats the previous byte)
    sec = bytes([len(seqs)]) + bytes([0x54, llc, 0, mlc])
    fields = []
    for (ll, ml) in seqs:
        if ML_bits[mlc]: fields.append((ml - ML_base[mlc], ML_bits[mlc]))
        if LL_bits[llc]: fields.append((ll - LL_base[llc], LL_bits[llc]))
    sec += bitstream(fields)
    body = lit_sec + sec
    out = bytearray(); lp = 0
    for (ll, ml) in seqs:
        out += lits[lp:lp + ll]; lp += ll
        out += bytes([out[-1]]) * ml
    out += lits[lp:]
    if len(out) > 131072 or len(body) >= 131072:
        return biglit_frame(rng, info)
    blk = ((len(body) << 3) | (2 << 1) | 1).to_bytes(3, "little") + body
    fr = b"\x28\xb5\x2f\xfd\x00" + bytes([0x38]) + blk      # window 128 KiB, no content size, no checksum
    if not info:
        return fr, bytes(out)
    # where the literals are handed over from the destination-resident part (the first nlits - 64 KiB literals) to the side buffer:
    # output position before that sequence, and how many literals of it still sit in the destination
    D = nlits - 65536; cum = 0; pos = 0; hand = None
    for (ll, ml) in seqs:
        if cum + ll > D and hand is None:
            hand = (pos, D - cum)
        cum += ll; pos += ll + ml
    return fr, bytes(out), hand


def overfull_frame(rng):
    """INVALID single-block frame (its block regenerates more than the destination holds): > 64 KiB of RLE literals, a first sequence whose
    very long match fills the destination up to a few bytes before its end, then a sequence whose literal run crosses the point where the
    literals are handed over from their destination-resident part to the decoder's side buffer - the overflow must be refused BEFORE the
    left-over literals are copied.  Returns (frame, capacity to decode into)."""
    cap = rng.choice([131072, 131072, 131072 - rng.randint(1, 3000)])
    nlits = rng.randint(65537 + 600, 80000)
    D = nlits - 65536                                  # literals that sit at the end of the destination
    llc = rng.choice([26, 27, 28, 29])                 # bases 128, 256, 512, 1024 (7..10 extra bits)
    ll0 = LL_base[llc] + rng.getrandbits(LL_bits[llc])
    ll1 = LL_base[llc] + rng.getrandbits(LL_bits[llc])
    if not (ll0 < D < ll0 + ll1):
        ll0 = LL_base[llc]; D = ll0 + rng.randint(1, LL_base[llc] - 1); nlits = D + 65536; ll1 = LL_base[llc] + rng.getrandbits(LL_bits[llc])
        if ll0 + ll1 <= D: ll1 = LL_base[llc] * 2 - 1
    leftover = D - ll0
    room = rng.randint(0, max(0, leftover - 1))       # bytes left before the end of the destination when the second sequence starts
    ml0 = cap - ll0 - room
    mlc = 52
    if not (ML_base[mlc] <= ml0 < ML_base[mlc] + (1 << ML_bits[mlc])):
        return overfull_frame(rng)
    seqs = [(ll0, ml0), (ll1, ML_base[mlc])]
    b = rng.getrandbits(8)
    lit_sec = lit_header(1, nlits, 3) + bytes([b])
    sec = bytes([len(seqs)]) + bytes([0x54, llc, 0, mlc])
    fields = []
    for (ll, ml) in seqs:
        fields.append((ml - ML_base[mlc], ML_bits[mlc]))
        if LL_bits[llc]: fields.append((ll - LL_base[llc], LL_bits[llc]))
    sec += bitstream(fields)
    body = lit_sec + sec
    blk = ((len(body) << 3) | (2 << 1) | 1).to_bytes(3, "little") + body
    return b"\x28\xb5\x2f\xfd\x00" + bytes([0x38]) + blk, cap


def stream(rng):
    """several frames and skippable frames back to back"""
    parts, content = [], b""
    for _ in range(rng.choice([1, 1, 1, 2, 3])):
        if rng.random() < 0.2:
            pl = bytes(rng.getrandbits(8) for _ in range(rng.choice([0, 1, 2, 9])))
            parts.append((0x184D2A50 + rng.randrange(16)).to_bytes(4, "little") + len(pl).to_bytes(4, "little") + pl)
        f, c = frame(rng)
        parts.append(f); content += c
    return b"".join(parts), content


# ---------------------------------------------------------------------------------------------------------------------------
# compressed blocks whose three sequence tables are FSE-described (random distributions incl. "less than one" probabilities)

def fse_decode_table(norm, log):
    """decoding table of a normalised distribution: per state (symbol, nbBits, baseline) - format specification 4.1.1"""
    size = 1 << log
    syms = [0] * size
    high = size - 1
    nxt = {}
    for s, c in enumerate(norm):
        if c == -1:
            syms[high] = s; high -= 1; nxt[s] = 1
        elif c > 0:
            nxt[s] = c
    step = (size >> 1) + (size >> 3) + 3
    pos = 0
    for s, c in enumerate(norm):
        for _ in range(max(c, 0)):
            syms[pos] = s
            pos = (pos + step) & (size - 1)
            while pos > high:
                pos = (pos + step) & (size - 1)
    assert pos == 0
    out = []
    for st in range(size):
        s = syms[st]; nx = nxt[s]; nxt[s] += 1
        nb = log - (nx.bit_length() - 1)
        out.append((s, nb, (nx << nb) - size))
    return out


def make_norm(rng, used, log, low=(), maxsym_limit=None):
    """normalised counts covering `used` (plus a few unused symbols), symbols in `low` get probability -1; sum of |count| = 2^log"""
    size = 1 << log
    top = max(used)
    if maxsym_limit is not None and rng.random() < 0.3:
        top = rng.randint(top, maxsym_limit)
    present = set(used) | {top} | {s for s in range(top) if rng.random() < 0.15}
    while len(present) > size - 1:
        present.discard(next(s for s in sorted(present) if s not in used and s != top))
    norm = [0] * (top + 1)
    lows = set(low) | {s for s in present if rng.random() < 0.1}
    pos = [s for s in present if s not in lows]
    if not pos:
        s = next(iter(sorted(present - set(low)))) if present - set(low) else None
        if s is None:
            return None
        lows.discard(s); pos = [s]
    for s in present:
        norm[s] = -1 if s in lows else 1
    budget = size - len(present)
    if budget < 0:
        return None
    while budget > 0:
        s = rng.choice(pos)
        k = min(budget, rng.choice([1, 1, 2, 5, 17, budget]))
        norm[s] += k; budget -= k
    if len(pos) == 1 and len(present) == 1:
        return None          # a single symbol filling the table is the RLE mode's job
    return norm


def fse_encode_states(table, codes):
    """states of one stream for the code sequence (decoder's view), chosen backwards: state k is the state of codes[k] whose
    range holds state k+1"""
    by_sym = {}
    for st, (s, nb, base) in enumerate(table):
        by_sym.setdefault(s, []).append(st)
    states = [0] * len(codes)
    states[-1] = by_sym[codes[-1]][0]
    for k in range(len(codes) - 2, -1, -1):
        nxt = states[k + 1]
        for st in by_sym[codes[k]]:
            s, nb, base = table[st]
            if base <= nxt < base + (1 << nb):
                states[k] = st
                break
        else:
            raise AssertionError("no predecessor state")
    return states


def fse_block(rng, h, blockmax, extreme=False):
    """one compressed block with FSE-described LL / OF / ML tables; extreme = one sequence that needs the most bits a sequence can
    need (long literal run + far offset + long match, each with a code of probability 'less than one' in full-size tables)"""
    import dictgen
    avail = len(h.out)
    maxof = max(2, min(27, (avail + 3).bit_length() - 1))
    ring = extreme == "ring"
    if ring:
        extreme = False
    if ring:
        # more than 64 KiB of literals in few long runs, matches reaching almost a whole window back
        ll_set, ml_set = [31, 32, 33], sorted(set(rng.sample(range(20, 44), 3)))
        of_set = [c for c in (15, 16) if c <= maxof] or [maxof]
        nseq = rng.choice([4, 8, 12])
        logs = (rng.randint(5, 9), rng.randint(5, 8), rng.randint(5, 9))
    elif extreme:
        ll_set, ml_set = [0, 1, 2, 3], [0, 1, 2, 5]
        of_set = [c for c in (2, 3, 4, 6) if c <= maxof]
        nseq = rng.choice([300, 1000, 2300])
        logs = (9, 8, 9)
    else:
        ll_set = sorted(set(rng.sample(range(0, 26), rng.randint(1, 6))))
        ml_set = sorted(set(rng.sample(range(0, 44), rng.randint(1, 6))))
        of_set = sorted(set(rng.sample(range(0, maxof + 1), min(maxof + 1, rng.randint(1, 5)))))
        nseq = rng.choice([1, 2, 3, 20, 200, 1000])
        logs = (rng.randint(5, 9), rng.randint(5, 8), rng.randint(5, 9))
    big_at = rng.randrange(nseq) if extreme else -1
    big = None
    if extreme:
        bll = rng.choice([33, 34]); bml = rng.choice([43, 45, 46]); bof = max(c for c in range(2, maxof + 1))
        big = (bll, bml, bof)
    seqs, rep, pos, total, lits_needed = [], list(h.rep), avail, 0, 0
    for k in range(nseq):
        if k == big_at:
            llc, mlc, ofc = big
        else:
            llc, mlc, ofc = rng.choice(ll_set), rng.choice(ml_set), rng.choice(of_set)
        ll = LL_base[llc] + (rng.getrandbits(LL_bits[llc]) if LL_bits[llc] else 0)
        ml = ML_base[mlc] + (rng.getrandbits(ML_bits[mlc]) if ML_bits[mlc] else 0)
        reserve = 40000 if (extreme and k < big_at) else 0
        if total + ll + ml > blockmax - reserve:
            if k == big_at:
                ll = LL_base[llc]; ml = ML_base[mlc]
                if total + ll + ml > blockmax:
                    break
            else:
                continue
        p = pos + ll
        ll0 = 1 if ll == 0 else 0
        extra = 0
        if ofc >= 2:
            lo = (1 << ofc) - 3
            hi = min((1 << ofc) + (1 << ofc) - 1 - 3, p)
            if hi < max(lo, 1):
                continue
            off = rng.randint(max(lo, 1), hi)
            extra = off - lo
            nrep = [off, rep[0], rep[1]]
        elif ofc == 0:
            off = rep[ll0]
            nrep = [rep[1], rep[0], rep[2]] if ll0 else rep
        else:
            bit = rng.getrandbits(1)
            code = 1 + ll0 + bit
            off = rep[0] - 1 if code == 3 else rep[code]
            extra = bit
            nrep = [off, rep[0], rep[1]] if code != 1 else [off, rep[0], rep[2]]
        if off > p or off < 1:
            continue
        rep = nrep
        seqs.append((ll, ml, off, extra, llc, mlc, ofc))
        lits_needed += ll; total += ll + ml; pos = p + ml
    if not seqs:
        return None
    used_ll = sorted({s[4] for s in seqs}); used_ml = sorted({s[5] for s in seqs}); used_of = sorted({s[6] for s in seqs})
    lown = lambda used, b: (b,) if (extreme and b in used and len(used) > 1) else ()
    nll = make_norm(rng, used_ll, logs[0], low=lown(used_ll, big[0]) if big else (), maxsym_limit=35)
    nof = make_norm(rng, used_of, logs[1], low=lown(used_of, big[2]) if big else (), maxsym_limit=28)
    nml = make_norm(rng, used_ml, logs[2], low=lown(used_ml, big[1]) if big else (), maxsym_limit=52)
    if nll is None or nof is None or nml is None:
        return None
    tll, tof, tml = fse_decode_table(nll, logs[0]), fse_decode_table(nof, logs[1]), fse_decode_table(nml, logs[2])
    sll = fse_encode_states(tll, [s[4] for s in seqs]); sof = fse_encode_states(tof, [s[6] for s in seqs]); sml = fse_encode_states(tml, [s[5] for s in seqs])
    tail = rng.choice([0, 0, 1, 5, 1000]) if blockmax - total > 1000 else 0
    nlits = lits_needed + tail
    if (rng.random() < 0.5 and not ring) or nlits == 0:
        lits = (bytes(rng.getrandbits(8) for _ in range(min(nlits, 4096))) * (nlits // 4096 + 1))[:nlits]
        lit_sec = lit_header(0, nlits) + lits
    else:
        b = rng.getrandbits(8); lits = bytes([b]) * nlits; lit_sec = lit_header(1, nlits) + bytes([b])
    sec = nbseq_bytes(len(seqs), rng) + bytes([0xA8])
    sec += dictgen.write_ncount(nll, logs[0]) + dictgen.write_ncount(nof, logs[1]) + dictgen.write_ncount(nml, logs[2])
    fields = [(sll[0], logs[0]), (sof[0], logs[1]), (sml[0], logs[2])]
    for k, (ll, ml, off, extra, llc, mlc, ofc) in enumerate(seqs):
        ofbits = ofc if ofc >= 2 else (1 if ofc == 1 else 0)
        if ofbits:
            fields.append((extra, ofbits))
        if ML_bits[mlc]:
            fields.append((ml - ML_base[mlc], ML_bits[mlc]))
        if LL_bits[llc]:
            fields.append((ll - LL_base[llc], LL_bits[llc]))
        if k + 1 < len(seqs):
            for tab, st in ((tll, sll), (tml, sml), (tof, sof)):
                s_, nb, base = tab[st[k]]
                if nb:
                    fields.append((st[k + 1] - base, nb))
    sec += bitstream(fields)
    body = lit_sec + sec
    lp = 0
    for (ll, ml, off, extra, llc, mlc, ofc) in seqs:
        h.out += lits[lp:lp + ll]; lp += ll
        if off >= ml:
            st0 = len(h.out) - off; h.out += h.out[st0:st0 + ml]
        else:
            for _ in range(ml):
                h.out.append(h.out[-off])
    h.out += lits[lp:]
    h.rep = rep
    h.tables = None
    return body


def frame_fse(rng, extreme=False):
    """frame = cheap prelude (RLE / raw blocks, more than 2 MiB of it for the extreme case) + compressed blocks with FSE-described tables"""
    h = Hist()
    blocks = []
    if extreme:
        wlog, mant = 22, rng.randrange(8)
        for _ in range(rng.choice([17, 18, 20])):
            b = rng.getrandbits(8)
            blocks.append(((131072 << 3) | (1 << 1)).to_bytes(3, "little") + bytes([b])); h.out += bytes([b]) * 131072
    else:
        wlog, mant = rng.choice([10, 12, 14, 17, 18, 20]), rng.randrange(8)
    window = (1 << wlog) + ((1 << wlog) >> 3) * mant
    blockmax = min(window, 131072)
    if not extreme:
        for _ in range(rng.randint(0, 2)):
            if rng.random() < 0.5:
                n = rng.choice([1, 100, min(blockmax, 3000)]); data = bytes(rng.getrandbits(8) for _ in range(n))
                blocks.append(((n << 3) | 0).to_bytes(3, "little") + data); h.out += data
            else:
                n = rng.choice([1, 1000, blockmax]); b = rng.getrandbits(8)
                blocks.append(((n << 3) | (1 << 1)).to_bytes(3, "little") + bytes([b])); h.out += bytes([b]) * n
    nb = rng.randint(1, 3)
    made = 0
    for bi in range(nb):
        body = fse_block(rng, h, blockmax, extreme and bi == 0)
        if body is None or len(body) >= blockmax:
            continue
        blocks.append(((len(body) << 3) | (2 << 1)).to_bytes(3, "little") + body); made += 1
    blocks.append((1).to_bytes(3, "little"))          # empty raw last block
    if not made:
        return None
    hdr = b"\x28\xb5\x2f\xfd" + bytes([0]) + bytes([((wlog - 10) << 3) | mant])
    return hdr + b"".join(blocks), bytes(h.out)


def frame_ring(rng):
    """small window, content of several windows: incompressible raw blocks, a short block, then blocks holding more than 64 KiB of
    literals with matches almost a whole window back - the streaming decoder's ring buffer wraps right before such a block"""
    h = Hist()
    blocks = []
    wlog, mant = 17, 0
    blockmax = 131072
    def raw(n):
        data = rng.randbytes(n) if hasattr(rng, "randbytes") else bytes(rng.getrandbits(8) for _ in range(n))
        blocks.append(((n << 3) | 0).to_bytes(3, "little") + data); h.out += data
    made = 0
    for _ in range(rng.randint(1, 2)):
        raw(blockmax)
    for rounds in range(rng.randint(2, 4)):
        if rng.random() < 0.7:
            raw(rng.choice([1, 100, 3000, 20000]))
        body = fse_block(rng, h, blockmax, "ring")
        if body is not None and len(body) < blockmax:
            blocks.append(((len(body) << 3) | (2 << 1)).to_bytes(3, "little") + body); made += 1
        if rng.random() < 0.5:
            raw(rng.choice([blockmax, 50000]))
    blocks.append((1).to_bytes(3, "little"))
    if not made:
        return None
    hdr = b"\x28\xb5\x2f\xfd" + bytes([0]) + bytes([((wlog - 10) << 3) | mant])
    return hdr + b"".join(blocks), bytes(h.out)


def legacy_frame(rng, version=None):
    """valid frame of a legacy format (v0.5 / v0.6 / v0.7) made of raw and RLE blocks only (no legacy compressor exists in the tree):
    small windows, several blocks, end-of-frame block - seed material for the mutation monitors of the legacy decoders"""
    v = version or rng.choice([5, 6, 7, 7])
    out, content = bytearray(), bytearray()
    if v == 7:
        wl = rng.choice([0, 0, 1, 3, 7, 8]); mant = rng.randrange(8) if rng.random() < 0.3 else 0
        out += b"\x27\xb5\x2f\xfd" + bytes([0x00, (wl << 3) | mant])
        window = (1 << (wl + 10)); window += (window >> 3) * mant
        blockmax = min(window, 131072)
    elif v == 6:
        wl = rng.choice([0, 0, 1, 5])
        out += b"\x26\xb5\x2f\xfd" + bytes([wl])
        blockmax = min(1 << (wl + 12), 131072)
    else:
        wl = rng.choice([0, 0, 1, 6])
        out += b"\x25\xb5\x2f\xfd" + bytes([wl])
        blockmax = 131072 if wl + 11 >= 17 else (1 << (wl + 11))
    for _ in range(rng.randint(1, 6)):
        n = rng.choice([1, 2, 100, blockmax // 2, blockmax]) if rng.random() < 0.8 else rng.randint(1, blockmax)
        if rng.random() < 0.93:     # (the legacy decoders refuse RLE blocks in several entry points: "not yet handled")
            data = bytes(rng.getrandbits(8) for _ in range(n))
            out += bytes([0x40 | (n >> 16), (n >> 8) & 0xFF, n & 0xFF]) + data; content += data
        else:
            b = rng.getrandbits(8)
            out += bytes([0x80 | (n >> 16), (n >> 8) & 0xFF, n & 0xFF, b]); content += bytes([b]) * n
    out += bytes([0xC0, 0, 0])
    return bytes(out), bytes(content)


def huf4_small_frames(rng, count):
    """valid frames the bundled compressor never emits: Huffman literals in FOUR streams for tiny regenerated sizes (6 .. 48 bytes; the format
    allows four streams from 6 literals on, the compressor uses them from 256) - incl. the sizes 6 and 9 whose fourth stream is empty - written by
    the Lean literals-section writer (`zvdriver litenc`, op huf4: Model/LitEnc + Model/HufEnc), one block with the tree description and, for every
    second frame, a second block re-using the table ("treeless") -> [(frame bytes, content bytes)]"""
    import zv
    alph = [(1, [1, 1]), (2, [1, 1, 1, 1]), (2, [2, 1, 1]), (3, [3, 2, 1, 1]), (3, [1] * 8), (3, [2, 2, 1, 1, 1, 1]), (4, [4, 3, 2, 1, 1]), (2, [0, 2, 0, 1, 1])]
    sizes = [6, 9, 6, 9, 7, 8, 10, 11, 12, 13, 15, 16, 17, 20, 21, 24, 33, 48]
    lines, lits = [], []
    for i in range(count):
        log, w = alph[i % len(alph)] if i < 2 * len(alph) else rng.choice(alph)
        n = sizes[(i // 2) % len(sizes)] if i < 4 * len(sizes) else rng.choice(sizes)
        syms = [k for k, x in enumerate(w) if x]
        x = bytes(rng.choice(syms) for _ in range(n))
        lines.append("huf4 %d %s %s" % (log, ",".join(map(str, w)), x.hex())); lits.append(x)
    rc, out, err = zv.run([zv.driver_exe(), "litenc"], "\n".join(lines) + "\n", timeout=600)
    if rc != 0:
        raise RuntimeError("lean driver litenc failed: " + err[-300:])
    res = []
    def block(sec, last):
        body = sec + b"\x00"                 # no sequences
        return (((len(body) << 3) | (2 << 1) | (1 if last else 0)).to_bytes(3, "little")) + body
    for i, (o, x) in enumerate(zip(out.split("\n"), lits)):
        f = dict(t.split("=", 1) for t in o.split() if "=" in t)
        if f.get("rt") != "ok" or f.get("section", "none") == "none":
            continue
        sec = bytes.fromhex(f["section"]); rep = bytes.fromhex(f["treeless"])
        if i % 2 == 0:
            content = x; blocks = block(sec, True)
        else:
            content = x + x; blocks = block(sec, False) + block(rep, True)
        # window descriptor 0 (1 KiB), no content size: with a single-segment header the window - and with it the block size limit - would be
        # the content size, below the size of these (expanding) compressed blocks
        res.append((b"\x28\xb5\x2f\xfd" + bytes([0x00, 0x00]) + blocks, content))
    return res
