"""Differential tie between the Lean model of the sequences bit stream of a compressed block (lean/ZstdVerif/Model/SeqEnc.lean:
ZSTD_seqToCodes + ZSTD_encodeSequences_body, three interleaved FSE states + extra bits) and the C code, plus the model-side round trip
through the sequence DECODER model (Model/Block.lean: Block.decodeSeqs) that `Lemmas/SeqRT.lean: seq_section_roundtrip` proves.

C side: harness/zvh_seqenc.c (ZSTD_seqToCodes, ZSTD_encodeSequences on tables built by FSE_buildCTable_wksp / FSE_buildCTable_rle);
Lean side: `zvdriver seqenc` (lean/Driver/SeqEnc.lean).  One op per line:
  seqenc <tLL>,<tOF>,<tML> <specLL> <specOF> <specML> <litLength:mlBase:offBase,...>
      t = b (predefined table, spec `-`) | r (RLE, spec = symbol) | c (compressed, spec = <tableLog>:<normalised counts>)
  C     -> ok <hex of the bit stream>
  model -> ok <hex of the bit stream> rt=ok|FAIL hyp=ok|FAIL
           (rt: Block.decodeSeqs reads the sequences back from the model's bytes and ends at the end of the stream;
            hyp: the run-time-checkable hypotheses of seq_section_roundtrip hold for the tables of the op)
"""
import re
import build, zv

LL_BITS = [0] * 16 + [1, 1, 1, 1, 2, 2, 3, 3, 4, 6, 7, 8, 9, 10, 11, 12, 13, 14, 15, 16]
LL_BASE = list(range(16)) + [16, 18, 20, 22, 24, 28, 32, 40, 48, 64, 0x80, 0x100, 0x200, 0x400, 0x800, 0x1000, 0x2000, 0x4000, 0x8000, 0x10000]
ML_BITS = [0] * 32 + [1, 1, 1, 1, 2, 2, 3, 3, 4, 4, 5, 7, 8, 9, 10, 11, 12, 13, 14, 15, 16]
ML_BASE = list(range(3, 35)) + [35, 37, 39, 41, 43, 47, 51, 59, 67, 83, 99, 0x83, 0x103, 0x203, 0x403, 0x803, 0x1003, 0x2003, 0x4003, 0x8003, 0x10003]
LL_DEFAULT = (6, [4, 3, 2, 2, 2, 2, 2, 2, 2, 2, 2, 2, 2, 1, 1, 1, 2, 2, 2, 2, 2, 2, 2, 2, 2, 3, 2, 1, 1, 1, 1, 1, -1, -1, -1, -1])
ML_DEFAULT = (6, [1, 4, 3, 2, 2, 2, 2, 2, 2] + [1] * 37 + [-1] * 7)
OF_DEFAULT = (5, [1, 1, 1, 1, 1, 1, 2, 2, 2] + [1] * 15 + [-1] * 5)
# per stream: (number of symbols, max tableLog, predefined distribution, code whose every value is a "long" length or None)
STREAMS = [(36, 9, LL_DEFAULT, 35), (32, 8, OF_DEFAULT, None), (53, 9, ML_DEFAULT, 52)]
SUFFIX_RE = re.compile(r" rt=(ok|FAIL) hyp=(ok|FAIL)$")
assert len(LL_BITS) == len(LL_BASE) == 36 and len(ML_BITS) == len(ML_BASE) == 53 and len(ML_DEFAULT[1]) == 53 and len(OF_DEFAULT[1]) == 29


def _composition(rng, total, parts):
    if parts == 1:
        return [total]
    cuts = sorted(rng.sample(range(1, total), parts - 1))
    return [b - a for a, b in zip([0] + cuts, cuts + [total])]


def gen_norm(rng, nsym, max_log, must=()):
    """a normalised distribution over at most `nsym` symbols, tableLog in 5..max_log, with non-zero counts on `must`"""
    log = rng.randint(5, max_log)
    size = 1 << log
    n = rng.choice([nsym, nsym, rng.randint(max(must, default=0) + 1, nsym)])
    k = rng.random()
    present = rng.randint(1, min(n, size)) if k < 0.5 else rng.randint(max(1, min(n, size) // 2), min(n, size))
    if k > 0.9:
        present = rng.randint(1, min(3, n))
    live = set(m for m in must if m < n)
    present = max(present, len(live))
    rest_syms = [s for s in range(n) if s not in live]
    live |= set(rng.sample(rest_syms, present - len(live)))
    live = sorted(live)
    low = rng.choice([0, 0, rng.randint(0, len(live)), rng.randint(0, max(0, len(live) // 4))])
    if low == len(live) and len(live) < size:
        low = len(live) - 1
    pos = len(live) - low
    vals = (_composition(rng, size - low, pos) if pos else []) + [-1] * low
    rng.shuffle(vals)
    norm = [0] * n
    for s, v in zip(live, vals):
        norm[s] = v
    return log, norm


def gen_table(rng, which):
    """-> (type, spec, live codes)"""
    nsym, max_log, dflt, _ = STREAMS[which]
    k = rng.random()
    if k < 0.35:
        return "b", "-", [s for s, c in enumerate(dflt[1]) if c != 0]
    if k < 0.55:
        sym = rng.choice([0, nsym - 1, rng.randrange(nsym), rng.randrange(nsym)])
        return "r", str(sym), [sym]
    must = ()
    if rng.random() < 0.5:          # the extreme codes: LL 35, ML 52, OF up to 31
        must = (nsym - 1,) if which != 1 else tuple(rng.sample(range(24, 32), rng.randint(1, 4)))
    log, norm = gen_norm(rng, nsym, max_log, must)
    return "c", "%d:%s" % (log, ",".join(map(str, norm))), [s for s, c in enumerate(norm) if c != 0]


def _value(rng, which, code):
    """a value whose code is `code`: litLength / mlBase / offBase"""
    edge = rng.random()
    if which == 1:
        lo, hi = 1 << code, (2 << code) - 1
    elif which == 0:
        lo, hi = LL_BASE[code], LL_BASE[code] + (1 << LL_BITS[code]) - 1
    else:
        lo, hi = ML_BASE[code] - 3, ML_BASE[code] - 3 + (1 << ML_BITS[code]) - 1
    return lo if edge < 0.15 else hi if edge < 0.30 else rng.randint(lo, hi)


def gen_op(rng):
    while True:
        tabs = [gen_table(rng, w) for w in range(3)]
        safe = [[c for c in tabs[w][2] if c != STREAMS[w][3]] for w in range(3)]
        if not safe[0] and not safe[2]:
            continue                 # LL 35 and ML 52 only: two long lengths would be needed in one sequence
        break
    k = rng.random()
    n = 1 if k < 0.10 else rng.randint(2, 10) if k < 0.40 else rng.randint(11, 100) if k < 0.80 else rng.randint(101, 300)
    if not safe[0] or not safe[2]:
        n = 1                        # every value of that stream is a long length: one per block
    mode = rng.random()              # how the codes are drawn: uniform, few, favour the extremes
    few = [rng.sample(t[2], min(len(t[2]), rng.randint(1, 3))) for t in tabs]
    long_used = False
    seqs = []
    for _ in range(n):
        vals = {}
        for w in sorted(range(3), key=lambda w: len(safe[w]) > 0):      # a stream that has only its long code goes first
            live = tabs[w][2]
            pool = few[w] if mode < 0.25 else live
            code = max(pool) if (mode > 0.85 and rng.random() < 0.3) else rng.choice(pool)
            if code == STREAMS[w][3]:
                if long_used:
                    code = rng.choice(safe[w])
                else:
                    long_used = True
            vals[w] = _value(rng, w, code)
        seqs.append("%d:%d:%d" % (vals[0], vals[2], vals[1]))
    return "seqenc %s,%s,%s %s %s %s %s" % (tabs[0][0], tabs[1][0], tabs[2][0], tabs[0][1], tabs[1][1], tabs[2][1], ",".join(seqs))


DIRECTED = [
    # the three predefined tables; literal length 70000 (code 35, long length); repeat codes 1..3 and a real offset
    "seqenc b,b,b - - - 5:2:1,0:40:1027,70000:300:3",
    # match length code 52 (long length), offset code 28 (the largest of the predefined table)
    "seqenc b,b,b - - - 0:0:2,65535:131071:268435456,1:65535:536870911",
    # three RLE tables, one of them between predefined ones
    "seqenc r,r,r 1 7 1 1:1:130,1:1:200",
    "seqenc b,r,b - 31 - 1:1:2147483648,2:0:4294967295",
    "seqenc r,b,r 35 - 5 131071:5:7",
    # compressed tables with the extreme codes (LL 5 symbols; OF codes 30 and 31 only; ML codes 0, 1 and 52)
    "seqenc c,c,c 5:16,8,4,2,1,1 5:" + ",".join(["0"] * 30 + ["1", "31"]) + " 6:" + ",".join(["32", "-1"] + ["0"] * 50 + ["31"]) +
    " 1:1:3221225472,2:0:1073741824,5:70000:4294967295,0:1:2147483648",
]


def _exe():
    return build.link("zvh_seqenc", ["zvh_seqenc.c"], "plain")


def compare(lines):
    """run the op lines on both sides -> (list of (desc, replay-dict) for every difference, C lines, model lines)"""
    out = []
    cl, ml, crc, cerr = zv.differential(_exe(), "seqenc", lines)
    if crc != 0 or len(cl) != len(lines) or len(ml) != len(lines):
        k = min(len(cl), len(ml), len(lines) - 1)
        out.append(("sequence encoder harness: C return code %s, %d C lines and %d model lines for %d ops %s" % (crc, len(cl), len(ml), len(lines), cerr[-300:]),
                    dict(kind="tie", op=lines[k], c=cl[k] if k < len(cl) else "<missing>", model=ml[k] if k < len(ml) else "<missing>")))
    for op, c, m in zip(lines, cl, ml):
        m0 = m
        sm = SUFFIX_RE.search(m)
        if sm:
            m0 = m[:sm.start()]
            if sm.group(1) != "ok":
                out.append(("sequences section: the decoder model does not read back what the encoder model wrote (rt=FAIL)",
                            dict(kind="tie", op=op, c=c, model=m)))
            if sm.group(2) != "ok":
                out.append(("sequences section: a hypothesis of seq_section_roundtrip fails on the tables of the op (hyp=FAIL)",
                            dict(kind="tie", op=op, c=c, model=m)))
        elif m.startswith("ok"):
            out.append(("sequence encoder model: line without the rt= / hyp= report", dict(kind="tie", op=op, c=c, model=m)))
        if c != m0 or not c.startswith("ok "):
            out.append(("sequences bit stream: the model and ZSTD_encodeSequences differ", dict(kind="tie", op=op, c=c, model=m)))
    return out, cl, ml


def run(ctx):
    n = 600 if ctx.quick() else 2000
    lines = list(DIRECTED)
    lines += [gen_op(ctx.rng) for _ in range(n - len(lines))]
    for desc, data in compare(lines)[0]:
        ctx.violation(desc, data)
    return dict(evaluations=n)


def replay(ctx, data):
    bad, cl, ml = compare([data["op"]])
    return dict(violates=bool(bad), c=cl[0] if cl else "<missing>", model=ml[0] if ml else "<missing>")
