"""Differential tie of the forward bit writer model (lean/ZstdVerif/Model/BitW.lean) to lib/common/bitstream.h.

Random field lists go through harness/zvh_bitw.c (the real BIT_initCStream / BIT_addBits / BIT_addBitsFast /
BIT_flushBits / BIT_flushBitsFast / BIT_closeCStream) and through `zvdriver bitw` (the model under the same flush
schedule).  The streams must be byte-identical, and the model side must report ` rt=ok`: the scheduled run equals the
canonical BitW.ofFields and the backward reader model BitR reads every field back and ends bit-exact.
"""
import build
import zv

ALL_ONES = (1 << 64) - 1


def gen_fields(rng):
    r = rng.random()
    if r < 0.04:
        cnt = 0
    elif r < 0.50:
        cnt = rng.randint(1, 12)
    else:
        cnt = rng.randint(0, 200)
    style = rng.random()
    out = []
    for _ in range(cnt):
        w = rng.random()
        if w < 0.08:
            n = 0
        elif w < 0.80:
            n = rng.randint(0, 31)
        elif w < 0.85:
            n = rng.choice((1, 7, 8, 9, 15, 16, 17, 24, 25, 31))
        else:
            # beyond BIT_mask (31 bits): the harness cleans the value and uses BIT_addBitsFast; the forced flush of the
            # schedule keeps bitPos + nbBits < 64, which is all the C discipline asks (at most 7 + 56 bits)
            n = rng.randint(32, 56)
        v = rng.random()
        if style < 0.05 or v < 0.12:
            val = ALL_ONES
        elif style > 0.95 or v < 0.24:
            val = 0
        elif v < 0.34:
            val = (1 << n) - 1
        elif v < 0.44:
            val = 1 << max(n - 1, 0)
        elif v < 0.70:
            val = rng.getrandbits(n) if n else 0          # clean
        else:
            val = rng.getrandbits(64)                     # dirty: high bits must be masked away
        out.append((val, n))
    return out


def gen_line(rng):
    fs = gen_fields(rng)
    p = rng.random()
    if p < 0.25:
        policy = 0                    # flush after every field: the canonical policy of BitW.ofFields
    elif p < 0.40:
        policy = 1000                 # only the forced flushes
    else:
        policy = rng.randint(1, 64)
    fast = "f" if rng.random() < 0.3 else ""
    body = ",".join("%d:%d" % f for f in fs) if fs else "-"
    return "bitw %d%s %s" % (policy, fast, body)


def run(ctx):
    exe = build.link("zvh_bitw", ["zvh_bitw.c"], "plain", nolib=True)
    n = 300 if ctx.quick() else 3000
    lines = [gen_line(ctx.rng) for _ in range(n)]
    # fixed corner cases on every run
    lines += ["bitw 0 -", "bitw 0 0:0", "bitw 0 1:0", "bitw 8 0:7", "bitw 8 127:7", "bitw 8 0:8", "bitw 1000 0:56",
              "bitw 1000 %d:56,%d:56,%d:7" % (ALL_ONES, ALL_ONES, ALL_ONES), "bitw 57f 1:55,1:1,1:1",
              "bitw 1000 " + ",".join(["%d:31" % ALL_ONES] * 200)]
    c, m, crc, cerr = zv.differential(exe, "bitw", lines)
    if crc != 0:
        ctx.violation("zvh_bitw exited with %s: %s" % (crc, cerr[-600:]), dict(kind="tie", op="", c=str(crc), model=""), no_input=True)
    if len(c) != len(lines) or len(m) != len(lines):
        ctx.violation("bit writer tie: %d ops, %d C answers, %d model answers" % (len(lines), len(c), len(m)),
                      dict(kind="tie", op="", c=str(len(c)), model=str(len(m))), no_input=True)
    bad = 0
    for ln, a, b in zip(lines, c, m):
        parts = b.split(" ")
        if parts[0] != a or a == "bad-op":
            bad += 1
            if bad <= 8:
                ctx.violation("bit writer model differs from bitstream.h: C %s model %s" % (a[:120], b[:120]),
                              dict(kind="tie", correspondence="BitW (addBits/flush/close) vs BIT_addBits/BIT_flushBits/BIT_closeCStream",
                                   op=ln, c=a, model=b))
        elif parts[1:] != ["rt=ok"]:
            bad += 1
            if bad <= 8:
                ctx.violation("bit stream written by the model is not read back by the BitR model (or differs from BitW.ofFields): %s" % b[-40:],
                              dict(kind="tie", correspondence="BitR.read after BitW.ofFields", op=ln, c=a, model=b))
    return dict(evaluations=len(lines), mismatches=bad)
