"""Differential tie between the deterministic Lean model of the streaming compressor's buffer machine
(lean/ZstdVerif/Model/CStream.lean: ZSTD_compressStream2 / ZSTD_compressStream_generic / ZSTD_nextInputSizeHint / ZSTD_compressBound /
the buffer sizes of ZSTD_resetCCtx_internal) and the C code.

C side: harness/zvh_cstream.c (includes zstd_compress.c; every ZSTD_compressContinue_public / ZSTD_compressEnd_public issued by
ZSTD_compressStream_generic is logged).  Lean side: `zvdriver cstream` (lean/Driver/CStream.lean).
  C op:     cs <id=val,...> <srcSize> <seed> <in sizes csv> <out sizes csv> <directives>
  model op: cs <id=val,...> <srcSize> <in sizes csv> <out sizes csv> <directives> <chunk sizes csv>
The chunk sizes (what the real chunk compressor returned, in order) are the model's oracle; they are read off the C line.  The model
then has to reproduce the whole line: which chunks are compressed in which call and from how many input bytes, the buffer sizes at
every frame start, and per call consumed:produced:return value.  The C line ends with rt=ok when the emitted bytes decode to the
consumed source.
"""
import re
import build, zv, frames

CHUNK = re.compile(r"^[kK](\d+):(\d+)$")


def harness(variant="plain"):
    return build.link("zvh_cstream", ["zvh_cstream.c"], variant, exclude=("zstd_compress.c",))


TINY = [1, 1, 2, 3, 5, 7]
MID = [0, 10, 64, 100, 500, 1000, 1023, 1024, 1025, 4096, 5000]
BIG = [65536, 70000, 131071, 131072, 131073, 200000, 300000, 1000000]


def pick_sizes(rng, pools, kmax=4):
    return [rng.choice(rng.choice(pools)) for _ in range(rng.randint(1, kmax))]


def gen_op(rng, i):
    """-> (params dict, srcSize, seed, ins, outs, dirs)"""
    p = {100: rng.choice([1, 1, 2, 3, 3, 4, 5, 7, 9, 12, 13, 16, 19]), 101: rng.randint(10, 17)}
    if rng.random() < 0.5: p[201] = 1
    if rng.random() < 0.3: p[200] = 0
    if rng.random() < 0.2: p[1015] = rng.choice([1024, 1340, 2000, 4096, 65536])
    if rng.random() < 0.1: p[160] = 1
    wl = p[101]
    blk = min(1 << wl, p.get(1015, 131072), 131072)
    kind = i % 12
    n = rng.choice([0, 1, 2, 100, blk - 1, blk, blk + 1, 2 * blk, 2 * blk + 1, 3000, 20000, (1 << wl), (1 << wl) + blk, 3 * (1 << wl) + 17,
                    rng.randrange(0, 60000), rng.randrange(0, 60000)])
    if p[100] >= 16:
        n = min(n, 150000)
    ins, outs, dirs = pick_sizes(rng, [TINY, MID, BIG]), pick_sizes(rng, [TINY, MID, BIG]), "".join(rng.choice("ccCfeE") for _ in range(rng.randint(1, 6)))
    if kind == 0:      # one-byte inputs and outputs
        n = min(n, 3000); ins, outs = [1], [1]; dirs = rng.choice(["c", "C", "cf", "cccE", "f", "E", "ce"])
    elif kind == 1:    # flush storms
        n = min(n, 20000); ins = pick_sizes(rng, [TINY, [10, 100]]); outs = pick_sizes(rng, [TINY, MID, BIG]); dirs = rng.choice(["f", "ff", "fc", "fcf", "ffE"])
    elif kind == 2:    # end with tiny output windows
        outs = pick_sizes(rng, [TINY]); ins = pick_sizes(rng, [MID, BIG]); dirs = rng.choice(["e", "E", "cE", "ce"]); n = min(n, 40000)
    elif kind == 3:    # large inputs, up to 600 KB (low levels only: keep it fast)
        n = rng.choice([131072, 262144, 300000, 400001, 600000, rng.randrange(100000, 600000)]); p[100] = rng.choice([1, 1, 2, 3])
        ins = pick_sizes(rng, [MID[3:], BIG]); outs = pick_sizes(rng, [MID[3:], BIG]); dirs = rng.choice(["c", "C", "cccf", "E", "ccE", "cfe", "e"])
    elif kind == 4:    # everything at once
        ins = [n + rng.choice([0, 0, 10])]; outs = [rng.choice([0, 1, 100, n, n + n // 200 + 70, n + 200000])]; dirs = rng.choice(["e", "E", "f", "c", "fe"])
    elif kind == 5:    # pledged source size (content size in the header, a single frame)
        p[9000] = 1; dirs = "".join(rng.choice("ccCfE") for _ in range(rng.randint(1, 5)))
        if rng.random() < 0.5: n = rng.choice([blk, blk, 1 << wl, blk - 1, blk + 1, n])
    elif kind == 6:    # block-sized feeding: the wrap of inBuff, hints followed exactly
        ins = [blk] if rng.random() < 0.5 else [blk - 1, 1, blk + 1]; n = min(max(n, 5 * blk), 600000 if p[100] < 4 else 150000); dirs = rng.choice(["c", "C", "ccf", "cE"])
    elif kind == 7:    # several frames
        dirs = rng.choice(["e", "ce", "cce", "fe", "cfce", "Cce"]); ins = pick_sizes(rng, [MID, BIG[:2]])
    elif kind == 8:    # zero-sized rooms in the mix
        outs = [0] + pick_sizes(rng, [TINY, MID, BIG], 2); ins = [0] + pick_sizes(rng, [TINY, MID, BIG], 2)
    elif kind == 9:    # legacy calls: ZSTD_compressStream / ZSTD_flushStream ('y') / ZSTD_endStream ('x'), the frame finished by repeating endStream
        dirs = rng.choice(["cx", "ccx", "cyx", "x", "cycx", "yx", "cccyccx", "Cx", "cxc"]) if rng.random() < 0.7 else "".join(rng.choice("ccCfexy") for _ in range(rng.randint(1, 6)))
    elif kind == 10:   # legacy end exactly where the internal input buffer has wrapped back to its start (or on an empty stream), roomy output:
                       # the whole rest goes straight into the caller's buffer and the very next endStream must report completion
        win = 1 << wl; ibs = win + blk
        n = rng.choice([0, 0, ibs, 2 * ibs, 3 * ibs, ibs, blk, 2 * blk, ibs + 1, ibs - 1]); n = min(n, 600000 if p[100] < 4 else 200000)
        ins = rng.choice([[blk], [n if n else 1], [blk - 1, 1], pick_sizes(rng, [MID, BIG])]); outs = [rng.choice([70, 200, 1000, 200000, n + n // 128 + 100])]
        dirs = rng.choice(["cx", "x", "cx", "cyx", "cccccx"])
        if rng.random() < 0.3: p[9000] = 1; dirs = rng.choice(["X", "cX", "cyX"])      # a pledged size: end only once everything was fed
    if n > 4000 and max(ins) < 10 and max(outs) < 10:
        n = 4000
    if n > 60000 and (max(ins) < 50 or max(outs) < 50):
        n = 60000
    return p, n, rng.randrange(1 << 30), ins, outs, dirs


def c_line(p, n, seed, ins, outs, dirs):
    return "cs %s %d %d %s %s %s" % (frames.pstr(p), n, seed, ",".join(map(str, ins)), ",".join(map(str, outs)), dirs)


def model_line(cline, cout):
    w = cline.split()
    sizes = [m.group(2) for m in (CHUNK.match(t) for t in cout.split()) if m]
    return "cs %s %s %s %s %s %s" % (w[1], w[2], w[4], w[5], w[6], ",".join(sizes) if sizes else "-")


def compare(lines, chunks=8):
    exe = harness()
    cl = frames.parallel(lambda ch: frames.run_lines(exe, ch, timeout=1800)[1], frames.split_chunks(lines, chunks))
    cl = [cl[i] if i < len(cl) else "<missing>" for i in range(len(lines))]
    mlines = [model_line(ln, c) for ln, c in zip(lines, cl)]

    def model(ch):
        rc, out, err = zv.run([zv.driver_exe(), "cstream"], "\n".join(ch) + "\n", timeout=1800)
        if rc != 0:
            raise RuntimeError("lean driver cstream failed: " + err[-500:])
        o = out.split("\n")
        return o[:-1] if o and o[-1] == "" else o
    ml = frames.parallel(model, frames.split_chunks(mlines, chunks))
    bad = []
    for i, ln in enumerate(lines):
        c = cl[i]
        m = ml[i] if i < len(ml) else "<missing>"
        ct, mt = c.split(), m.split()
        rt = ct[-1] if ct and ct[-1].startswith("rt=") else "rt=missing"
        ct = ct[:-1] if ct and ct[-1].startswith("rt=") else ct
        if rt == "rt=FAIL":
            bad.append(("ZSTD_compressStream2: the emitted bytes do not decode to the consumed input (op: %s)" % ln,
                        dict(kind="roundtrip", op=ln, c=" ".join(ct[-8:]), model="", first_diff=-1)))
            continue
        if ct != mt:
            k = next((j for j in range(max(len(ct), len(mt))) if (ct[j] if j < len(ct) else None) != (mt[j] if j < len(mt) else None)), 0)
            desc = "ZSTD_compressStream2 and its model disagree at token %d: C %s, model %s (op: %s)" % (
                k, ct[k] if k < len(ct) else "<end>", mt[k] if k < len(mt) else "<end>", ln)
            lo = max(0, k - 6)
            bad.append((desc, dict(kind="tie", op=ln, c=" ".join(ct[lo:k + 3]), model=" ".join(mt[lo:k + 3]), first_diff=k)))
    return bad, cl, ml


def run(ctx):
    rng = ctx.rng
    nops = 300 if ctx.quick() else 1500
    lines = [c_line(*gen_op(rng, i)) for i in range(nops)]
    bad, cl, ml = compare(lines)
    for desc, data in bad[:10]:
        ctx.violation(desc, data)
    calls = sum(1 for c in cl for t in c.split() if t[0].isdigit())
    chunks = sum(1 for c in cl for t in c.split() if CHUNK.match(t))
    complete = sum(1 for c in cl if c.endswith("rt=ok"))
    return dict(evaluations=len(lines), calls=calls, chunks=chunks, complete=complete)


def replay(ctx, data):
    bad, cl, ml = compare([data["op"]], chunks=1)
    return dict(violates=bool(bad), c=(cl[0] if cl else "<missing>")[:2000], model=(ml[0] if ml else "<missing>")[:2000])


if __name__ == "__main__":
    import random, sys, time

    class Fake:
        def __init__(self, seed):
            self.rng = random.Random(seed); self.violations = []

        def quick(self):
            return True

        def violation(self, desc, replay, no_input=False, key=None):
            self.violations.append((desc, replay))
    for seed in [int(a) for a in sys.argv[1:]] or [1]:
        t = time.time(); c = Fake(seed); r = run(c)
        print("seed", seed, r, "violations", len(c.violations), "%.1fs" % (time.time() - t))
        for d, rep in c.violations[:5]:
            print("  ", d[:400]); print("     C    :", rep["c"]); print("     model:", rep["model"])
