"""Directed input families that need control over the MEMORY LAYOUT of the source (harness/zvh_seg.c), shared by C01 and C05.

prefix-edge family (`edge_cases`): the lowest position a match may start at (the first byte of the input, the first byte of a new
non-contiguous segment, or the position exactly one window back) holds the beginning of a string X that occurs again later, and the
byte in front of the later occurrence equals the byte that lies just BELOW that lowest position - which, for the first byte of a
source buffer, is a byte of the application's memory that is not part of the input (the harness stores the source at offset 1 of a
heap block and sets byte 0).  A match finder that extends a match backwards one byte too far emits offset == position + 1 (frame
not decodable) or an offset one beyond the window.  All strategies, both match-finder modes of the lazy strategies, every minMatch,
windowLog 10..17, single-call entry points and streaming with a stable or a copied input under several chunkings.

segment family (`seg_cases`): the begin / continue / end interface (ZSTD_compressBegin[_usingDict|_usingCDict (copied / referenced dictionary)|_advanced|
_usingCDict_advanced] + ZSTD_compressContinue * k + ZSTD_compressEnd) over inputs cut into segments of which the first / middle ones
are 0..8 bytes long (below HASH_READ_SIZE: the window forgets such a segment as history, dictionary bookkeeping must still count it),
each segment in its own heap block, or contiguous, or in a ring buffer, or all written over the same buffer; raw-content and formatted
dictionaries whose content recurs all over the input; levels 1..19."""
import build, frames, datagen, dictgen


def harness(variant="plain"):
    return build.link("zvh_seg", ["zvh_seg.c"], variant)


def run_robust(exe, lines, timeout=1800):
    """one answer per line even when the process dies on some line: that line answers `err crashed ...` and the rest is run in a new process"""
    import zv
    res, i = [], 0
    while i < len(lines):
        rc, out, err = zv.run([exe], "\n".join(lines[i:]) + "\n", timeout=timeout)
        done = out.split("\n")[:-1][:len(lines) - i]          # complete lines only (the last piece is empty or a line cut short)
        res += done; i += len(done)
        if i < len(lines):
            res.append("err crashed rc=%s %s" % (rc, "TIMEOUT" if "TIMEOUT" in (err or "")[-20:] or done[-1:] == ["TIMEOUT"] else "")); i += 1
    return res


def run_all(exe, lines, timeout=1800):
    return frames.parallel(lambda ch: run_robust(exe, ch, timeout), frames.split_chunks(lines, 16))


def _noise(rng, n, avoid=None):
    """n incompressible bytes; the last one differs from `avoid`"""
    b = bytearray(datagen.randbytes(rng, n))
    if b and avoid is not None and b[-1] == avoid:
        b[-1] = (avoid + 1 + rng.randrange(254)) & 0xFF
        if b[-1] == avoid: b[-1] ^= 1
    return b


def edge_input(rng, c, total=None, wl=None):
    """X ++ filler ++ c ++ X ++ ... : the beginning of the input recurs behind the byte c; further repeats of the beginning and, for
    inputs longer than the window 2^wl, copies of the data found exactly windowSize (-1, +1) back, each behind the byte that precedes
    their source"""
    L = rng.choice([4, 5, 6, 8, 12, 16, 32, 32, 64, 96, 200, 400])
    X = datagen.randbytes(rng, L) if rng.random() < 0.7 else datagen.text(rng, L)
    out = bytearray(X)
    for _ in range(rng.choice([1, 1, 2, 3])):
        f = rng.choice([1, 2, 3, 8, 30, 100, 300, 300, 1000, 3000])
        out += (_noise(rng, f) if rng.random() < 0.7 else bytearray(datagen.text(rng, f)))
        out[-1] = c
        k = rng.choice([L, L, L, max(3, L // 2), max(3, L - 1)])
        out += X[:k]
        out += _noise(rng, rng.choice([0, 1, 5, 40]))
    if total:
        W = 1 << wl
        while len(out) < total:
            r = rng.random()
            if r < 0.45 and len(out) > W + 2:
                dist = rng.choice([W, W, W, W - 1, W + 1, W - 2])
                st = len(out) + 1 - dist          # the copy is written behind one byte equal to the byte in front of its source
                ln = rng.choice([8, 16, 40, 200, 1000])
                out.append(out[st - 1] if st >= 1 else c)
                out += out[st:st + ln]
            elif r < 0.6:
                out += datagen.text(rng, rng.choice([50, 400, 3000]))
            else:
                out += _noise(rng, rng.choice([20, 300, 2000, 9000]))
        out = out[:total]
    return bytes(out)


LAZY = [3, 4, 5, 6]


def edge_params(rng, i, wl=None):
    """parameter vector for compress2 / compressStream2: explicit strategy (the four backward-extending lazy ones twice as often), both
    match-finder modes, small windows"""
    p = {100: rng.choice([1, 3, 5, 6, 7, 8, 9, 10, 12, 13, 15, 16, 19])}
    p[107] = (LAZY + [1, 2] + LAZY + [1, 2, 7, 8, 9])[i % 15]
    p[1011] = [1, 2, 0][(i // 15) % 3]
    p[101] = wl if wl else rng.choice([10, 11, 12, 13, 14, 15, 16, 17])
    if rng.random() < 0.5: p[105] = rng.choice([3, 4, 5, 6, 7])
    if rng.random() < 0.3: p[104] = rng.randint(1, 6)
    if rng.random() < 0.3: p[102] = rng.randint(6, 17)
    if rng.random() < 0.3: p[103] = rng.randint(6, 17)
    if rng.random() < 0.2: p[106] = rng.choice([0, 4, 16, 999])
    if rng.random() < 0.3: p[201] = 1
    return p


def edge_cases(rng, nsmall, nlong, apis=("c2", "c2", "c2", "simple", "cctx", "adv"), chunked=False):
    """list of dict(kind, api, p, x, d=b'', pre=dict(pb, chunks))"""
    cases = []
    for i in range(nsmall + nlong):
        pb = [0x00, 0x5A, 0xFF, rng.randrange(256), 0x20, 0x00][i % 6]
        long_ = i >= nsmall
        wl = rng.choice([10, 10, 11, 12, 13, 14, 17]) if long_ else None
        if long_:
            x = edge_input(rng, pb, total=min(rng.choice([3, 5, 9]) * (1 << wl) + rng.randint(0, 3000), 400000), wl=wl)
        else:
            x = edge_input(rng, pb)
        api = apis[i % len(apis)] if not long_ else "c2"
        if chunked:
            api = ["ss", "sb", "c2", "ss"][i % 4]
        if api in ("c2", "ss", "sb"):
            p = edge_params(rng, i, wl)
        elif api == "adv":
            p = {100: 1 + i % 19, 107: (LAZY + [1, 2, 7])[i % 7], 101: rng.choice([10, 12, 14, 15, 17])}
            if rng.random() < 0.5: p[105] = rng.choice([3, 4, 5, 6, 7])
        else:
            p = {100: 1 + (i * 7) % 19}      # simple / cctx: the level's own strategy (levels 4..15 are the lazy ones for these sizes)
        ch = [rng.choice([1, 7, 100, 1000, 4096, 65536, 131072, 200000]) for _ in range(rng.randint(1, 4))]
        cases.append(dict(kind="edge-long" if long_ else "edge", api=api, p=p, x=x, d=b"", pre=dict(pb=pb, chunks=ch)))
    return cases


def pre_line(c):
    return "pre %s %s %d %s %s%s" % (c["api"], frames.pstr(c["p"]), c["pre"]["pb"], ",".join(map(str, c["pre"]["chunks"])) or "0",
                                     frames.hx(c["x"]), (" " + frames.hx(c["d"])) if c["d"] else "")


# ------------------------------------------------------------------ begin / continue / end over segments

def dict_and_input(rng, total, c, formatted):
    """dictionary (raw content or formatted) and an input whose body is excerpts of the dictionary content - including its very end and its
    very beginning - separated by little noise, with some repeats of its own earlier data; the first bytes of the input are fresh"""
    n = rng.choice([600, 2000, 8000, 16384, 40000])
    content = datagen.text(rng, n) if rng.random() < 0.3 else datagen.randbytes(rng, n)
    d = dictgen.build(rng, content)[0] if formatted else content
    if formatted: c = d[len(d) - n - 1]         # (the byte in front of the content of a formatted dictionary is the last byte of its header)
    x = bytearray(_noise(rng, rng.choice([0, 1, 2, 3, 4, 5, 6, 7, 8, 9, 12])))
    seen0 = False
    while len(x) < total:
        r = rng.random()
        if r < 0.6:
            ln = rng.choice([12, 40, 100, 300, 600])
            st = rng.choice([0, max(0, n - ln), rng.randrange(max(1, n - ln))])
            if st == 0 and not seen0:      # the beginning of the dictionary content, behind the byte stored in front of it (the first time it occurs: only the dictionary holds it)
                if not x: x += _noise(rng, rng.choice([1, 2, 9, 30]))
                x[-1] = c; seen0 = True
            elif st == 0 and rng.random() < 0.6: x[-1] = c
            x += content[st:st + ln]
        elif r < 0.75 and len(x) > 40:
            st = rng.randrange(len(x) - 20)
            x.append(c); x += x[st:st + rng.choice([8, 30, 200])]
        else:
            x += _noise(rng, rng.choice([1, 3, 8, 20, 200]))
    return d, bytes(x[:total])


def piecewise(rng, c, total):
    """input and segment lengths that belong together: every segment starts like an edge input (its own beginning recurs behind the byte c, which
    is also the byte in front of its heap block) and some reach back to the first bytes of the previous segment behind a byte c; a few segments
    are shorter than 8 bytes; no segment ends with the byte c"""
    pieces = []
    while sum(map(len, pieces)) < total and len(pieces) < 200:
        r = rng.random()
        if r < 0.2:
            pc = bytearray(_noise(rng, rng.randint(1, 7), avoid=c))
        else:
            pc = bytearray(edge_input(rng, c))
            if pieces and rng.random() < 0.6:
                pc += _noise(rng, rng.choice([1, 4, 30])); pc[-1] = c
                pc += pieces[-1][:rng.choice([8, 16, 64])]
            pc += _noise(rng, rng.choice([1, 3, 20]), avoid=c)
        pieces.append(bytes(pc))
    return b"".join(pieces), [len(pc) for pc in pieces][:250]


def seg_lens(rng, total):
    first = rng.choice([0, 1, 2, 3, 4, 5, 6, 7, 8, 1, 3, 5, 7, 9, 40, 1000, 5000, 20000, 140000, 140000])
    mid = [rng.choice([0, 1, 2, 3, 4, 5, 6, 7, 8, 9, 64, 100, 1000, 5000, 5000, 20000, 140000]) for _ in range(rng.randint(1, 6))]
    if not any(mid): mid.append(rng.choice([100, 3000]))
    return [first] + mid


def seg_cases(rng, n):
    """list of dict(mode='seg', begin, p, layout, pb, endmode, lens, x, d)"""
    cases = []
    begins = ["cdict", "cdictref", "cdictadv", "udict", "adv", "plain", "cdictadv", "adv", "cdictref"]
    for i in range(n):
        begin = begins[i % len(begins)]
        level = 1 + (i // len(begins) + 3 * (i % len(begins))) % 19
        pb = [0x00, 0x5A, 0xFF, rng.randrange(256)][i % 4]
        p = {100: level}
        wl = None
        # slots 2 and 8: the dictionary stays attached over a long first segment (or the whole contiguous input), it is referenced in the caller's
        # block, every strategy in turn: matches that start at the very first byte of the dictionary content
        dict_edge = (i % len(begins)) in (2, 8)
        if begin in ("adv", "cdictadv"):
            if rng.random() < 0.6 and not dict_edge:
                wl = rng.choice([10, 10, 11, 12, 13, 14, 15, 17]); p[101] = wl
            if rng.random() < 0.6 or dict_edge: p[107] = 1 + (i // len(begins)) % 9
            if begin == "cdictadv" and (rng.random() < 0.5 or dict_edge): p[9001] = 1
            if rng.random() < 0.3: p[105] = rng.choice([3, 4, 5, 6, 7])
            if rng.random() < 0.4: p[201] = 1
            if rng.random() < 0.5: p[9000] = 1
            if rng.random() < 0.2: p[200] = 0
        total = rng.choice([60, 300, 2000, 6000, 6000, 20000, 50000]) if not wl or wl > 13 else rng.choice([2000, 6000, 5 << wl, 9 << wl])
        total = min(total, 150000 if level < 16 else 40000)
        if dict_edge: total = max(total, 2000)
        if begin == "plain":
            d = b""
            x = edge_input(rng, pb, total=total, wl=wl or 17) if rng.random() < 0.7 else datagen.gen(rng, total)[1]
        elif begin == "adv" and rng.random() < 0.4:
            d = b""
            x = edge_input(rng, pb, total=total, wl=wl or 17)
        else:
            d, x = dict_and_input(rng, total, pb, formatted=(i // len(begins)) % 2 == 1)
        lay = rng.choice(["s", "s", "s", "c", "c", "o", "r"])
        lens = seg_lens(rng, len(x))
        if dict_edge:
            if rng.random() < 0.5: lay = "c"
            else: lens[0] = rng.choice([3000, 20000, 140000])
        if not d and rng.random() < 0.5:
            x, lens = piecewise(rng, pb, min(total, 30000)); lay = rng.choice(["s", "s", "s", "o", "r"])
        if lay == "r":
            lay = "r%d" % rng.choice([64, 1000, 4096, 20000, 70000, (1 << (wl or 12)) + rng.choice([0, 1, 100])])
        cases.append(dict(mode="seg", begin=begin, p=p, layout=lay, pb=pb, endmode=rng.randint(0, 1), lens=lens, x=x, d=d))
    return cases


def seg_line(c):
    return "seg %s %s %s %d %d %s %s%s" % (c["begin"], frames.pstr(c["p"]), c["layout"], c["pb"], c["endmode"], ",".join(map(str, c["lens"])),
                                           frames.hx(c["x"]), (" " + frames.hx(c["d"])) if c["d"] else "")
